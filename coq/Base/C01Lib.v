(* C01 library: a sorted list is determined by its elements (sort uniqueness),
   insertion sort as the executable canonicaliser, and bytewise string order
   (Go's < on strings = String.compare on bytes) as a total order.
   Stdlib only; stands alone (no dependency on other properties' files). *)
From Coq Require Import List String Ascii NArith Bool Lia Permutation Sorted.
Import ListNotations.

(* ---- sort uniqueness ---------------------------------------------------- *)
Section SortUnique.
  Context {A : Type}.
  Variable le : A -> A -> Prop.

  (* antisymmetry is only needed between elements of the list, so the lemma
     also covers "sort by key" where the key is injective on the list *)
  Lemma sorted_perm_unique_on : forall l l',
    (forall a b, In a l -> In b l -> le a b -> le b a -> a = b) ->
    StronglySorted le l -> StronglySorted le l' -> Permutation l l' -> l = l'.
  Proof.
    induction l as [|x l IH]; intros l' Anti S S' P.
    - apply Permutation_nil in P. subst. reflexivity.
    - destruct l' as [|y l']; [apply Permutation_sym, Permutation_nil in P; discriminate|].
      apply StronglySorted_inv in S. destruct S as [S Hx].
      apply StronglySorted_inv in S'. destruct S' as [S' Hy].
      assert (Iy : In y (x :: l)) by (eapply Permutation_in; [apply Permutation_sym; exact P | left; reflexivity]).
      assert (Ix : In x (y :: l')) by (eapply Permutation_in; [exact P | left; reflexivity]).
      assert (E : x = y).
      { destruct Iy as [E|Iy]; [exact E|]. destruct Ix as [E|Ix]; [symmetry; exact E|].
        rewrite Forall_forall in Hx, Hy.
        apply Anti; [left; reflexivity | right; exact Iy | apply Hx; exact Iy | apply Hy; exact Ix]. }
      subst y. f_equal. apply IH; try assumption.
      + intros a b Ia Ib. apply Anti; right; assumption.
      + eapply Permutation_cons_inv. exact P.
  Qed.

  Hypothesis le_antisym : forall a b, le a b -> le b a -> a = b.

  Lemma sorted_perm_unique : forall l l',
    StronglySorted le l -> StronglySorted le l' -> Permutation l l' -> l = l'.
  Proof. intros l l' S S' P. apply sorted_perm_unique_on; auto. Qed.

  (* the form with the local [Sorted] predicate, for a transitive order *)
  Hypothesis le_trans : forall a b c, le a b -> le b c -> le a c.
  Lemma Sorted_perm_unique : forall l l',
    Sorted le l -> Sorted le l' -> Permutation l l' -> l = l'.
  Proof.
    intros l l' S S' P. apply sorted_perm_unique; [| |exact P];
      apply Sorted_StronglySorted; try assumption; exact le_trans.
  Qed.
End SortUnique.

(* ---- insertion sort over a boolean total preorder ---------------------- *)
Section ISort.
  Context {A : Type}.
  Variable leb : A -> A -> bool.
  Definition lep (a b : A) : Prop := leb a b = true.

  Fixpoint insert (x : A) (l : list A) : list A :=
    match l with
    | [] => [x]
    | y :: t => if leb x y then x :: l else y :: insert x t
    end.
  Fixpoint isort (l : list A) : list A :=
    match l with [] => [] | x :: t => insert x (isort t) end.

  Fixpoint sortedb (l : list A) : bool :=
    match l with
    | [] => true
    | x :: t => forallb (leb x) t && sortedb t
    end.

  Lemma insert_perm x l : Permutation (x :: l) (insert x l).
  Proof.
    induction l as [|y t IH]; simpl; [reflexivity|].
    destruct (leb x y); [reflexivity|].
    eapply perm_trans; [apply perm_swap|]. apply perm_skip. exact IH.
  Qed.

  Lemma isort_perm l : Permutation l (isort l).
  Proof.
    induction l as [|x t IH]; simpl; [constructor|].
    eapply perm_trans; [apply perm_skip; exact IH | apply insert_perm].
  Qed.

  Lemma isort_In x l : In x (isort l) <-> In x l.
  Proof.
    split; intro H; [eapply Permutation_in; [apply Permutation_sym, isort_perm|exact H]
                    | eapply Permutation_in; [apply isort_perm|exact H]].
  Qed.

  Lemma isort_length l : List.length (isort l) = List.length l.
  Proof. symmetry. apply Permutation_length, isort_perm. Qed.

  Lemma sortedb_iff l : sortedb l = true <-> StronglySorted lep l.
  Proof.
    induction l as [|x t IH]; simpl.
    - split; intro; [constructor | reflexivity].
    - rewrite andb_true_iff, forallb_forall, IH. split.
      + intros [H1 H2]. constructor; [exact H2|]. apply Forall_forall. exact H1.
      + intro S. apply StronglySorted_inv in S. destruct S as [S F]. split; [|exact S].
        apply Forall_forall. exact F.
  Qed.

  Hypothesis leb_total : forall a b, leb a b = true \/ leb b a = true.
  Hypothesis leb_trans : forall a b c, leb a b = true -> leb b c = true -> leb a c = true.

  Lemma insert_sorted x l : StronglySorted lep l -> StronglySorted lep (insert x l).
  Proof.
    induction l as [|y t IH]; simpl; intro S.
    - constructor; constructor.
    - apply StronglySorted_inv in S. destruct S as [S F].
      destruct (leb x y) eqn:E.
      + constructor; [constructor; assumption|].
        constructor; [exact E|]. eapply Forall_impl; [|exact F].
        intros z Hz. eapply leb_trans; [exact E | exact Hz].
      + constructor; [apply IH; exact S|].
        assert (Hyx : leb y x = true) by (destruct (leb_total x y) as [H|H]; [congruence|exact H]).
        eapply Permutation_Forall; [apply insert_perm|]. constructor; assumption.
  Qed.

  Lemma isort_sorted l : StronglySorted lep (isort l).
  Proof. induction l as [|x t IH]; simpl; [constructor | apply insert_sorted; exact IH]. Qed.

  (* the canonicaliser theorem, "sort by key" form: antisymmetry on the list *)
  Lemma isort_perm_invariant_on l l' :
    (forall a b, In a l -> In b l -> leb a b = true -> leb b a = true -> a = b) ->
    Permutation l l' -> isort l = isort l'.
  Proof.
    intros Anti P. apply (sorted_perm_unique_on lep).
    - intros a b Ia Ib. apply Anti; apply isort_In; assumption.
    - apply isort_sorted.
    - apply isort_sorted.
    - eapply perm_trans; [apply Permutation_sym, isort_perm|].
      eapply perm_trans; [exact P | apply isort_perm].
  Qed.

  (* ANY function that returns a sorted permutation of its input (the contract
     of sort.Strings / sort.Slice / slices.SortFunc, whatever algorithm is
     behind them, stable or not) agrees with [isort] *)
  Lemma any_sort_is_isort_on (sort : list A -> list A) l :
    (forall a b, In a l -> In b l -> leb a b = true -> leb b a = true -> a = b) ->
    Permutation (sort l) l -> StronglySorted lep (sort l) -> sort l = isort l.
  Proof.
    intros Anti P S. apply (sorted_perm_unique_on lep).
    - intros a b Ia Ib. apply Anti; (eapply Permutation_in; [exact P|]); assumption.
    - exact S.
    - apply isort_sorted.
    - eapply perm_trans; [exact P | apply isort_perm].
  Qed.

  Hypothesis leb_antisym : forall a b, leb a b = true -> leb b a = true -> a = b.

  Lemma isort_perm_invariant l l' : Permutation l l' -> isort l = isort l'.
  Proof. apply isort_perm_invariant_on. intros a b _ _. apply leb_antisym. Qed.

  Lemma any_sort_is_isort (sort : list A -> list A) l :
    Permutation (sort l) l -> StronglySorted lep (sort l) -> sort l = isort l.
  Proof. apply any_sort_is_isort_on. intros a b _ _. apply leb_antisym. Qed.

  Lemma isort_sorted_id l : StronglySorted lep l -> isort l = l.
  Proof.
    intro S. symmetry. apply (sorted_perm_unique lep); auto using isort_sorted, isort_perm.
  Qed.
End ISort.

(* ---- bytewise string order --------------------------------------------- *)
Lemma ascii_compare_refl a : Ascii.compare a a = Eq.
Proof. unfold Ascii.compare. apply N.compare_refl. Qed.

Lemma ascii_compare_lt_trans a b c :
  Ascii.compare a b = Lt -> Ascii.compare b c = Lt -> Ascii.compare a c = Lt.
Proof. unfold Ascii.compare. rewrite !N.compare_lt_iff. lia. Qed.

Lemma string_compare_refl s : String.compare s s = Eq.
Proof. induction s as [|c s IH]; simpl; [reflexivity|]. rewrite ascii_compare_refl. exact IH. Qed.

Lemma string_compare_lt_trans : forall a b c,
  String.compare a b = Lt -> String.compare b c = Lt -> String.compare a c = Lt.
Proof.
  induction a as [|x a IH]; intros [|y b] [|z c]; simpl; intros H1 H2;
    try discriminate; try reflexivity.
  destruct (Ascii.compare x y) eqn:Exy; try discriminate.
  - apply Ascii.compare_eq_iff in Exy. subst y.
    destruct (Ascii.compare x z) eqn:Exz; try discriminate; try reflexivity.
    eapply IH; eassumption.
  - destruct (Ascii.compare y z) eqn:Eyz; try discriminate.
    + apply Ascii.compare_eq_iff in Eyz. subst z. rewrite Exy. reflexivity.
    + rewrite (ascii_compare_lt_trans _ _ _ Exy Eyz). reflexivity.
Qed.

Lemma string_compare_gt_lt a b : String.compare a b = Gt <-> String.compare b a = Lt.
Proof.
  rewrite (String.compare_antisym b a). destruct (String.compare a b); simpl; split; congruence.
Qed.

Definition sleb (a b : string) : bool := String.leb a b.

Lemma sleb_cases a b : sleb a b = true <-> (a = b \/ String.compare a b = Lt).
Proof.
  unfold sleb, String.leb. destruct (String.compare a b) eqn:E; split; intro H;
    try reflexivity; try discriminate.
  - left. apply String.compare_eq_iff. exact E.
  - right. reflexivity.
  - destruct H as [H|H]; [subst; rewrite string_compare_refl in E|]; discriminate.
Qed.

Lemma sleb_refl a : sleb a a = true.
Proof. apply sleb_cases. left. reflexivity. Qed.

Lemma sleb_total a b : sleb a b = true \/ sleb b a = true.
Proof.
  unfold sleb, String.leb. destruct (String.compare a b) eqn:E; auto.
  right. apply string_compare_gt_lt in E. rewrite E. reflexivity.
Qed.

Lemma sleb_trans a b c : sleb a b = true -> sleb b c = true -> sleb a c = true.
Proof.
  rewrite !sleb_cases. intros [->|H1] [->|H2]; auto.
  right. eapply string_compare_lt_trans; eassumption.
Qed.

Lemma sleb_antisym a b : sleb a b = true -> sleb b a = true -> a = b.
Proof.
  rewrite !sleb_cases. intros [->|H1] [E|H2]; auto.
  apply string_compare_gt_lt in H2. congruence.
Qed.

(* Go's [a < b] on strings *)
Definition sltb (a b : string) : bool := String.ltb a b.
Lemma sltb_iff a b : sltb a b = true <-> (sleb a b = true /\ a <> b).
Proof.
  unfold sltb, String.ltb. rewrite sleb_cases. destruct (String.compare a b) eqn:E; split.
  - discriminate.
  - intros [_ N]. exfalso. apply N. apply String.compare_eq_iff. exact E.
  - intros _. split; [right; reflexivity|]. intro; subst. rewrite string_compare_refl in E. discriminate.
  - reflexivity.
  - discriminate.
  - intros [[->|H] N]; [exfalso; apply N; reflexivity | discriminate].
Qed.

(* sorting strings: sort.Strings / slices.Sort / sets.List all order by < *)
Definition ssort : list string -> list string := isort sleb.

Lemma ssort_perm_invariant l l' : Permutation l l' -> ssort l = ssort l'.
Proof. apply isort_perm_invariant; [apply sleb_total | apply sleb_trans | apply sleb_antisym]. Qed.

Lemma ssort_sorted l : StronglySorted (lep sleb) (ssort l).
Proof. apply isort_sorted; [apply sleb_total | apply sleb_trans]. Qed.

Lemma ssort_In x l : In x (ssort l) <-> In x l.
Proof. apply isort_In. Qed.

Lemma ssort_perm l : Permutation l (ssort l).
Proof. apply isort_perm. Qed.

Lemma any_string_sort_is_ssort (sort : list string -> list string) l :
  Permutation (sort l) l -> StronglySorted (lep sleb) (sort l) -> sort l = ssort l.
Proof. apply any_sort_is_isort; [apply sleb_total | apply sleb_trans | apply sleb_antisym]. Qed.

(* a sorted list without repetition is strictly increasing *)
Lemma sorted_nodup_strict l :
  StronglySorted (lep sleb) l -> NoDup l -> StronglySorted (fun a b => sltb a b = true) l.
Proof.
  induction l as [|x t IH]; intros S N; [constructor|].
  apply StronglySorted_inv in S. destruct S as [S F]. inversion N as [|? ? Nx Nt]; subst.
  constructor; [apply IH; assumption|].
  rewrite Forall_forall in *. intros y Iy. apply sltb_iff. split; [apply F; exact Iy|].
  intro; subst. contradiction.
Qed.

(* set semantics: k8s sets.New(a...).Insert(b...) followed by sets.List *)
Definition set_list (l : list string) : list string := ssort (nodup string_dec l).

Lemma set_list_ext l l' : (forall x, In x l <-> In x l') -> set_list l = set_list l'.
Proof.
  intro H. unfold set_list. apply ssort_perm_invariant.
  apply NoDup_Permutation; try apply NoDup_nodup.
  intro x. rewrite !nodup_In. apply H.
Qed.

Lemma set_list_perm_invariant l l' : Permutation l l' -> set_list l = set_list l'.
Proof.
  intro P. apply set_list_ext. intro x. split; apply Permutation_in; [exact P | apply Permutation_sym; exact P].
Qed.

Lemma set_list_In x l : In x (set_list l) <-> In x l.
Proof. unfold set_list. rewrite ssort_In. apply nodup_In. Qed.

Lemma set_list_NoDup l : NoDup (set_list l).
Proof.
  unfold set_list. eapply Permutation_NoDup; [apply ssort_perm | apply NoDup_nodup].
Qed.

Lemma set_list_strict l : StronglySorted (fun a b => sltb a b = true) (set_list l).
Proof. apply sorted_nodup_strict; [apply ssort_sorted | apply set_list_NoDup]. Qed.
