(* C07 — the little language in which goextract writes down the ORDER OF TESTS
   of the two conflict-decision procedures (pkg/tarfs/fs.go:writeHeader after the
   "existing node has a tar entry" point; pkg/apk/apk/install.go:installRegularFile
   after writeOneFile reported FileExistsError): a list of rows (condition,
   outcome) tried in source order, and the outcome when no row fires. *)
From Apko Require Import Base.Prelude.
Open Scope string_scope. Open Scope list_scope.

Inductive ccond :=
| CSameSum            (* bytes.Equal of the two checksums *)
| COldDeclaresNew     (* the existing file's package lists the new package in Replaces *)
| CNewDeclaresOld     (* the new package lists the existing file's package in Replaces *)
| CSameOrigin         (* the two Origin strings are equal (==) *)
| CNewOriginEmpty     (* pkg.Origin == "" *)
| COldUnknown         (* installedFiles has no entry for the name *)
| COtherError         (* the error is not a FileExistsError *)
| CNot (c : ccond) | CAnd (a b : ccond) | COr (a b : ccond).

Inductive cout :=
| OKeep               (* return false, nil *)
| OOverwrite          (* the node / file is replaced, return true *)
| OConflict           (* FileConflictError *)
| OSameError          (* the error in hand is returned as it is *)
| ONewError.          (* a freshly made error (fmt.Errorf) *)

Record cenv := { e_same_sum : bool; e_old_declares_new : bool; e_new_declares_old : bool;
                 e_same_origin : bool; e_new_origin_empty : bool; e_old_unknown : bool; e_other_error : bool }.

Fixpoint ceval (e : cenv) (c : ccond) : bool :=
  match c with
  | CSameSum => e_same_sum e
  | COldDeclaresNew => e_old_declares_new e
  | CNewDeclaresOld => e_new_declares_old e
  | CSameOrigin => e_same_origin e
  | CNewOriginEmpty => e_new_origin_empty e
  | COldUnknown => e_old_unknown e
  | COtherError => e_other_error e
  | CNot a => negb (ceval e a)
  | CAnd a b => ceval e a && ceval e b
  | COr a b => ceval e a || ceval e b
  end.

Fixpoint crun (e : cenv) (rows : list (ccond * cout)) (default : cout) : cout :=
  match rows with
  | [] => default
  | (c, o) :: more => if ceval e c then o else crun e more default
  end.
