(* C09 — boolean conditions over struct fields as goextract reads them (Generated/C09Build.v). *)
From Apko Require Import Base.Prelude.
Open Scope string_scope.

Inductive gexp :=
| GEqLit (field lit : string)      (* x.field == "lit" *)
| GEq (f g : string)               (* x.f == y.g *)
| GNot (e : gexp) | GAnd (a b : gexp) | GOr (a b : gexp).

Definition genv := list (string * string).
Fixpoint glookup (f : string) (env : genv) : string :=
  match env with
  | [] => ""
  | (k, v) :: t => if String.eqb k f then v else glookup f t
  end.
Fixpoint geval (env : genv) (e : gexp) : bool :=
  match e with
  | GEqLit f lit => String.eqb (glookup f env) lit
  | GEq f g => String.eqb (glookup f env) (glookup g env)
  | GNot a => negb (geval env a)
  | GAnd a b => geval env a && geval env b
  | GOr a b => geval env a || geval env b
  end.
