(* C11 library: the vocabulary in which goextract (harness/cmd/goextract/gen_c11.go)
   reports where pkg/build/sbom.go takes the inputs it hands to the SBOM generator
   from.  Generated/C11Prov.v is written in these terms; Model/SbomProv.v
   interprets them.  Stdlib only. *)
From Coq Require Import String NArith.

Inductive prov : Type :=
| PManifestLayers       (* <image>.Manifest().Layers, assigned unchanged *)
| PInstalled            (* <receiver>.apk.GetInstalled(), assigned unchanged *)
| PImageDigestString    (* <image>.Digest().String() *)
| PReleaseVersionID     (* readReleaseData(<receiver>.fs).VersionID *)
| PConfigVCSUrl         (* the image configuration's VCSUrl, through newSBOM *)
| PBuildFS              (* generator.Generators(<receiver>.fs) *)
| PIndexDigest          (* v1.NewHash(<indexDigest>.DigestStr()) *)
| PAllMapKeys           (* every key of the images map, appended in a loop without a condition *)
| PArchImageDigest      (* <images>[<arch>].Digest() for the arch of the current iteration *)
| POther (what : string).  (* anything else: the canonical text of what the source does *)

Inductive sort_order : Type :=
| SortByArchStringAsc   (* sort.Slice(archs, archs[i].String() < archs[j].String()) *)
| SortByArchStringDesc
| SortOther (what : string).

(* what Generate does with the id it minted for an installed apk before it appends the element *)
Inductive id_policy : Type :=
| IdAsIs                     (* nothing (the code before fix 7c2586e) *)
| IdNumbered (first : N)     (* while a package of another name or version has the id: <id>-<first>, <id>-<first+1>, ... *)
| IdOther (what : string).
