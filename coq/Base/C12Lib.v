(* C12 support library (stdlib only):
   - a tiny integer statement language, the target of goextract's translation
     of the append-offset arithmetic in BuildIndex;
   - Go's string order (bytewise lexicographic = String.leb) as a total order;
   - insertion sort, and uniqueness of the sorted permutation;
   - association-list maps in the style "Go map + explicit iteration order". *)
From Apko Require Import Base.Prelude.
From Coq Require Import Permutation Sorted.
Open Scope string_scope. Open Scope list_scope.

(* ---- integer statements (Go int64 without wrap-around: see the range
        conjunct of c12_append_offset) ------------------------------------- *)
Inductive aexp :=
| EVar (x : string) | EConst (z : Z)
| EAdd (a b : aexp) | ESub (a b : aexp) | EMul (a b : aexp)
| EQuo (a b : aexp) | ERem (a b : aexp).      (* Go's / and %: truncated *)
Inductive cmpop := CEq | CNe | CLt | CLe | CGt | CGe.
Inductive stmt :=
| SSkip
| SAssign (x : string) (e : aexp)
| SSeq (s1 s2 : stmt)
| SIf (init : stmt) (op : cmpop) (a b : aexp) (thn els : stmt).

Definition ienv := list (string * Z).
Fixpoint ilookup (x : string) (e : ienv) : Z :=
  match e with
  | [] => 0%Z
  | (y, v) :: e' => if String.eqb x y then v else ilookup x e'
  end.
Fixpoint aeval (e : ienv) (a : aexp) : Z :=
  match a with
  | EVar x => ilookup x e
  | EConst z => z
  | EAdd a b => (aeval e a + aeval e b)%Z
  | ESub a b => (aeval e a - aeval e b)%Z
  | EMul a b => (aeval e a * aeval e b)%Z
  | EQuo a b => Z.quot (aeval e a) (aeval e b)
  | ERem a b => Z.rem (aeval e a) (aeval e b)
  end.
Definition cmpeval (op : cmpop) (x y : Z) : bool :=
  match op with
  | CEq => Z.eqb x y | CNe => negb (Z.eqb x y)
  | CLt => Z.ltb x y | CLe => Z.leb x y
  | CGt => Z.ltb y x | CGe => Z.leb y x
  end.
Fixpoint exec (s : stmt) (e : ienv) : ienv :=
  match s with
  | SSkip => e
  | SAssign x a => (x, aeval e a) :: e
  | SSeq s1 s2 => exec s2 (exec s1 e)
  | SIf init op a b thn els =>
      let e1 := exec init e in
      if cmpeval op (aeval e1 a) (aeval e1 b) then exec thn e1 else exec els e1
  end.

(* ---- the header scan loop of BuildIndex, statement by statement (goextract) ---- *)
Inductive scan_op :=
| OpNext                 (* hdr, err := tr.Next() *)
| OpBreakEOF             (* if errors.Is(err, io.EOF) { break } *)
| OpReturnErr            (* if err != nil { return … } *)
| OpPos (v : string)     (* v, err = f.Seek(0, io.SeekCurrent) *)
| OpSize (v : string).   (* v = hdr.Size *)

(* ---- Go's string order --------------------------------------------------- *)
Definition sle (a b : string) : Prop := String.leb a b = true.

Lemma ascii_compare_lt_trans a b c :
  Ascii.compare a b = Lt -> Ascii.compare b c = Lt -> Ascii.compare a c = Lt.
Proof. unfold Ascii.compare. rewrite !N.compare_lt_iff. lia. Qed.

Lemma ascii_compare_refl a : Ascii.compare a a = Eq.
Proof. unfold Ascii.compare. apply N.compare_refl. Qed.

Lemma ascii_compare_eq a b : Ascii.compare a b = Eq -> a = b.
Proof. apply Ascii.compare_eq_iff. Qed.

Lemma string_compare_refl s : String.compare s s = Eq.
Proof. induction s as [|c s IH]; simpl; [reflexivity|]. rewrite ascii_compare_refl. exact IH. Qed.

Lemma string_compare_lt_trans : forall a b c,
  String.compare a b = Lt -> String.compare b c = Lt -> String.compare a c = Lt.
Proof.
  induction a as [|x a IH]; intros [|y b] [|z c]; simpl; intros H1 H2;
    try discriminate; try reflexivity.
  destruct (Ascii.compare x y) eqn:Exy; try discriminate.
  - apply ascii_compare_eq in Exy; subst y.
    destruct (Ascii.compare x z) eqn:Exz; try discriminate; try reflexivity.
    eapply IH; eassumption.
  - destruct (Ascii.compare y z) eqn:Eyz; try discriminate.
    + apply ascii_compare_eq in Eyz; subst z. rewrite Exy. reflexivity.
    + rewrite (ascii_compare_lt_trans _ _ _ Exy Eyz). reflexivity.
Qed.

Lemma leb_cases a b : String.leb a b = true <-> (a = b \/ String.compare a b = Lt).
Proof.
  unfold String.leb. destruct (String.compare a b) eqn:E; split; intro H;
    try discriminate; auto.
  - left. apply String.compare_eq_iff. exact E.
  - destruct H as [H|H]; [subst; rewrite string_compare_refl in E|]; discriminate.
Qed.

Lemma sle_refl a : sle a a.
Proof. apply leb_cases. auto. Qed.
Lemma sle_trans a b c : sle a b -> sle b c -> sle a c.
Proof.
  unfold sle. rewrite !leb_cases. intros [->|H1] [->|H2]; auto.
  right. eapply string_compare_lt_trans; eassumption.
Qed.
Lemma sle_antisym a b : sle a b -> sle b a -> a = b.
Proof. apply String.leb_antisym. Qed.
Lemma sle_total a b : sle a b \/ sle b a.
Proof. apply String.leb_total. Qed.

(* ---- insertion sort by a key ------------------------------------------- *)
Section Sort.
  Context {A : Type} (key : A -> string).
  Definition kle (x y : A) : Prop := sle (key x) (key y).

  Fixpoint insert (x : A) (l : list A) : list A :=
    match l with
    | [] => [x]
    | y :: l' => if String.leb (key x) (key y) then x :: l else y :: insert x l'
    end.
  Fixpoint isort (l : list A) : list A :=
    match l with [] => [] | x :: l' => insert x (isort l') end.

  Lemma insert_perm x l : Permutation (x :: l) (insert x l).
  Proof.
    induction l as [|y l IH]; simpl; [reflexivity|].
    destruct (String.leb (key x) (key y)); [reflexivity|].
    rewrite perm_swap. constructor. exact IH.
  Qed.
  Lemma isort_perm l : Permutation l (isort l).
  Proof.
    induction l as [|x l IH]; simpl; [reflexivity|].
    rewrite <- insert_perm. constructor. exact IH.
  Qed.

  Lemma insert_sorted x l : StronglySorted kle l -> StronglySorted kle (insert x l).
  Proof.
    induction l as [|y l IH]; simpl; intro S.
    - constructor; constructor.
    - inversion S as [|? ? S' F]; subst.
      destruct (String.leb (key x) (key y)) eqn:E.
      + constructor; [exact S|]. constructor; [exact E|].
        eapply Forall_impl; [|exact F]. intros z Hz. eapply sle_trans; [exact E|exact Hz].
      + constructor; [apply IH; exact S'|].
        assert (Hyx : kle y x).
        { destruct (sle_total (key x) (key y)) as [H|H]; [unfold sle in H; congruence|exact H]. }
        eapply Permutation_Forall; [apply insert_perm|]. constructor; assumption.
  Qed.
  Lemma isort_sorted l : StronglySorted kle (isort l).
  Proof. induction l; simpl; [constructor|apply insert_sorted; assumption]. Qed.

  (* a sorted permutation is unique when keys determine elements *)
  Lemma sorted_perm_unique :
    forall l l', (forall x y, In x l -> In y l -> key x = key y -> x = y) ->
      StronglySorted kle l -> StronglySorted kle l' -> Permutation l l' -> l = l'.
  Proof.
    induction l as [|x l IH]; intros l' Inj S S' P.
    - apply Permutation_nil in P. subst. reflexivity.
    - destruct l' as [|y l']; [apply Permutation_sym, Permutation_nil in P; discriminate|].
      inversion S as [|? ? S1 F1]; subst. inversion S' as [|? ? S1' F1']; subst.
      assert (Exy : x = y).
      { assert (Hy : In y (x :: l)) by (eapply Permutation_in; [apply Permutation_sym; exact P|left; reflexivity]).
        assert (Hx : In x (y :: l')) by (eapply Permutation_in; [exact P|left; reflexivity]).
        destruct Hy as [Hy|Hy]; [auto|]. destruct Hx as [Hx|Hx]; [auto|].
        rewrite Forall_forall in F1, F1'.
        apply Inj; [left; reflexivity|right; exact Hy|].
        apply sle_antisym; [apply F1; exact Hy|apply F1'; exact Hx]. }
      subst y. f_equal. apply IH; try assumption.
      + intros a b Ha Hb. apply Inj; right; assumption.
      + eapply Permutation_cons_inv. exact P.
  Qed.

  Lemma isort_unique_of_perm l l' :
    (forall x y, In x l -> In y l -> key x = key y -> x = y) ->
    Permutation l l' -> isort l = isort l'.
  Proof.
    intros Inj P. apply sorted_perm_unique; try apply isort_sorted.
    - intros x y Hx Hy. apply Inj; eapply Permutation_in; try eassumption; apply Permutation_sym, isort_perm.
    - rewrite <- (isort_perm l), <- (isort_perm l'). exact P.
  Qed.

  Fixpoint sortedb (l : list A) : bool :=
    match l with
    | [] => true
    | x :: l' => match l' with [] => true | y :: _ => String.leb (key x) (key y) && sortedb l' end
    end.
  Lemma sortedb_iff l : sortedb l = true <-> StronglySorted kle l.
  Proof.
    induction l as [|x l IH]; [split; [constructor|reflexivity]|].
    destruct l as [|y l].
    - split; [intros _; constructor; constructor|reflexivity].
    - change (sortedb (x :: y :: l)) with (String.leb (key x) (key y) && sortedb (y :: l)).
      rewrite andb_true_iff, IH. split.
      + intros [E S]. constructor; [exact S|]. inversion S as [|? ? S' F]; subst.
        constructor; [exact E|]. eapply Forall_impl; [|exact F].
        intros z Hz. eapply sle_trans; [exact E|exact Hz].
      + intros S. inversion S as [|? ? S' F]; subst. split; [|exact S'].
        inversion F; assumption.
  Qed.
End Sort.

(* ---- association lists as Go maps --------------------------------------- *)
Fixpoint alookup {V} (k : string) (m : list (string * V)) : option V :=
  match m with
  | [] => None
  | (k', v) :: m' => if String.eqb k k' then Some v else alookup k m'
  end.
Definition akeys {V} (m : list (string * V)) : list string := List.map fst m.

Lemma alookup_in {V} k (v : V) m : alookup k m = Some v -> In (k, v) m.
Proof.
  induction m as [|[k' v'] m IH]; simpl; [discriminate|].
  destruct (String.eqb_spec k k'); intro H.
  - inversion H; subst. left; reflexivity.
  - right. apply IH. exact H.
Qed.
Lemma alookup_none {V} k (m : list (string * V)) : alookup k m = None <-> ~ In k (akeys m).
Proof.
  induction m as [|[k' v'] m IH]; simpl; [tauto|].
  destruct (String.eqb_spec k k'); split; intro H; try discriminate.
  - exfalso. apply H. left. congruence.
  - intros [E|E]; [congruence|]. apply IH in H. contradiction.
  - apply IH. intro. apply H. right. assumption.
Qed.
Lemma in_alookup_nodup {V} k (v : V) m : NoDup (akeys m) -> In (k, v) m -> alookup k m = Some v.
Proof.
  induction m as [|[k' v'] m IH]; simpl; [tauto|].
  intros ND [E|I]; inversion ND as [|? ? Nin ND']; subst.
  - inversion E; subst. rewrite String.eqb_refl. reflexivity.
  - destruct (String.eqb_spec k k'); [|apply IH; assumption].
    subst. exfalso. apply Nin. apply in_map_iff. exists (k', v). auto.
Qed.

(* strings.Cut(s, sep) for a one-byte separator: split at the FIRST occurrence *)
Fixpoint cut_at (sep : ascii) (s : string) : option (string * string) :=
  match s with
  | EmptyString => None
  | String c s' =>
      if Ascii.eqb c sep then Some (EmptyString, s')
      else match cut_at sep s' with
           | Some (a, b) => Some (String c a, b)
           | None => None
           end
  end.
Fixpoint has_char (sep : ascii) (s : string) : bool :=
  match s with EmptyString => false | String c s' => Ascii.eqb c sep || has_char sep s' end.

Lemma cut_at_fwd sep : forall s a b,
  cut_at sep s = Some (a, b) -> s = (a ++ String sep b)%string /\ has_char sep a = false.
Proof.
  induction s as [|c s IH]; intros a b; simpl; [discriminate|].
  destruct (Ascii.eqb_spec c sep) as [->|Hne].
  - intro H. inversion H; subst. split; reflexivity.
  - destruct (cut_at sep s) as [[a' b']|]; [|discriminate].
    intro H. inversion H; subst. destruct (IH _ _ eq_refl) as [-> Hn]. split; [reflexivity|].
    simpl. destruct (Ascii.eqb_spec c sep); [contradiction|exact Hn].
Qed.
Lemma cut_at_bwd sep b : forall a,
  has_char sep a = false -> cut_at sep (a ++ String sep b)%string = Some (a, b).
Proof.
  induction a as [|c a IH]; simpl; intro Hn.
  - rewrite Ascii.eqb_refl. reflexivity.
  - apply orb_false_iff in Hn. destruct Hn as [Hc Hn]. rewrite Hc, (IH Hn). reflexivity.
Qed.
Lemma cut_at_some sep s a b :
  cut_at sep s = Some (a, b) <-> (s = (a ++ String sep b)%string /\ has_char sep a = false).
Proof.
  split; [apply cut_at_fwd|]. intros [-> Hn]. apply cut_at_bwd. exact Hn.
Qed.
Lemma cut_at_none sep s : cut_at sep s = None <-> has_char sep s = false.
Proof.
  induction s as [|c s IH]; simpl; [tauto|].
  destruct (Ascii.eqb_spec c sep); simpl.
  - split; discriminate.
  - destruct (cut_at sep s) as [[a b]|]; split; intro H; try discriminate; try reflexivity.
    + apply IH in H. discriminate.
    + apply IH. reflexivity.
Qed.
