(* Shared by C16 (formats round-trip) and C15 (readers never panic):
   Go-style checked slicing on strings, strings.Split/Join/HasPrefix/TrimSuffix,
   bufio.Scanner's line splitting with its token limit, strconv-style number
   parsing and fmt-style number printing, and the lemmas about them.
   Stdlib only. *)
From Apko Require Export Base.Prelude.
From Coq Require Import Decimal DecimalString DecimalN DecimalZ.
Open Scope string_scope. Open Scope list_scope.

Notation "a +++ b" := (String.append a b) (at level 60, right associativity).

Definition ch_nl : ascii := "010"%char.
Definition ch_cr : ascii := "013"%char.
Definition s_nl : string := String ch_nl "".

(* ---- lengths, take/drop, checked slicing ------------------------------ *)
Fixpoint nlen (s : string) : N :=
  match s with EmptyString => 0%N | String _ s' => N.succ (nlen s') end.

Fixpoint stake (n : nat) (s : string) : string :=
  match n, s with
  | S n', String c s' => String c (stake n' s')
  | _, _ => EmptyString
  end.
Fixpoint sdrop (n : nat) (s : string) : string :=
  match n, s with
  | S n', String _ s' => sdrop n' s'
  | _, _ => s
  end.

(* s[lo:hi], s[lo:], s[:hi], s[i] as Go evaluates them: out of range = panic *)
Definition gslice (s : string) (lo hi : nat) : res string :=
  if (lo <=? hi)%nat && (hi <=? String.length s)%nat then Ok (stake (hi - lo) (sdrop lo s)) else Panic.
Definition gslice_from (s : string) (lo : nat) : res string :=
  if (lo <=? String.length s)%nat then Ok (sdrop lo s) else Panic.
Definition gslice_to (s : string) (hi : nat) : res string :=
  if (hi <=? String.length s)%nat then Ok (stake hi s) else Panic.
Definition gindex (s : string) (i : nat) : res ascii :=
  match String.get i s with Some c => Ok c | None => Panic end.

(* ---- strings.* ---------------------------------------------------------- *)
Fixpoint has_char (c : ascii) (s : string) : bool :=
  match s with EmptyString => false | String a s' => Ascii.eqb a c || has_char c s' end.

Fixpoint has_prefix (p s : string) : bool :=      (* strings.HasPrefix(s, p) *)
  match p, s with
  | EmptyString, _ => true
  | String a p', String b s' => Ascii.eqb a b && has_prefix p' s'
  | _, _ => false
  end.

(* strings.Split(s, string(c)): always at least one element *)
Fixpoint split_on (c : ascii) (s : string) : list string :=
  match s with
  | EmptyString => [EmptyString]
  | String a s' =>
      if Ascii.eqb a c then EmptyString :: split_on c s'
      else match split_on c s' with
           | [] => [String a EmptyString]
           | x :: xs => String a x :: xs
           end
  end.

Fixpoint join (sep : string) (l : list string) : string :=   (* strings.Join *)
  match l with
  | [] => EmptyString
  | [x] => x
  | x :: xs => x +++ sep +++ join sep xs
  end.

Fixpoint sconcat (l : list string) : string :=
  match l with [] => EmptyString | x :: xs => x +++ sconcat xs end.

Fixpoint last_char (s : string) : option ascii :=
  match s with
  | EmptyString => None
  | String a EmptyString => Some a
  | String _ s' => last_char s'
  end.
Fixpoint drop_last (s : string) : string :=
  match s with
  | EmptyString => EmptyString
  | String _ EmptyString => EmptyString
  | String a s' => String a (drop_last s')
  end.
(* strings.TrimSuffix(s, string(c)) *)
Definition trim_suffix_char (c : ascii) (s : string) : string :=
  match last_char s with
  | Some a => if Ascii.eqb a c then drop_last s else s
  | None => s
  end.

(* ---- bufio.Scanner with ScanLines ---------------------------------------
   Tokens are the segments between "\n", the final one only if non-empty;
   one trailing "\r" is dropped from each; a segment that (with its
   terminator) does not fit in [max] bytes stops the scan with ErrTooLong. *)
Fixpoint drop_last_empty (l : list string) : list string :=
  match l with
  | [] => []
  | [EmptyString] => []
  | x :: xs => x :: drop_last_empty xs
  end.
Definition raw_lines (s : string) : list string := drop_last_empty (split_on ch_nl s).
Definition drop_cr (s : string) : string := trim_suffix_char ch_cr s.
Fixpoint take_short (max : N) (l : list string) : list string * bool :=
  match l with
  | [] => ([], false)
  | x :: xs =>
      if (nlen x + 1 <=? max)%N then let '(r, t) := take_short max xs in (drop_cr x :: r, t)
      else ([], true)
  end.
Definition scan_lines (max : N) (s : string) : list string * bool := take_short max (raw_lines s).
Definition default_max_token : N := 65536%N.   (* bufio.MaxScanTokenSize *)

(* ---- numbers -------------------------------------------------------------- *)
Definition fmt_n (n : N) : string := NilEmpty.string_of_uint (N.to_uint n).          (* %d of an unsigned *)
Definition fmt_z (z : Z) : string :=                                                   (* %d of a signed *)
  match z with
  | Zneg p => String "-" (fmt_n (Npos p))
  | _ => fmt_n (Z.to_N z)
  end.

Definition parse_digits10 (s : string) : option N :=
  match s with
  | EmptyString => None
  | _ => match NilEmpty.uint_of_string s with Some d => Some (N.of_uint d) | None => None end
  end.

Definition two64 : N := 18446744073709551616%N.
Definition two63 : N := 9223372036854775808%N.

(* strconv.ParseUint(s, 10, 64) *)
Definition parse_uint64 (s : string) : option N :=
  match parse_digits10 s with
  | Some n => if (n <? two64)%N then Some n else None
  | None => None
  end.

Definition signed_of (digits : string -> option N) (s : string) : option Z :=
  match s with
  | String "+" r => match digits r with Some n => if (n <? two63)%N then Some (Z.of_N n) else None | None => None end
  | String "-" r => match digits r with Some n => if (n <=? two63)%N then Some (- Z.of_N n)%Z else None | None => None end
  | _ => match digits s with Some n => if (n <? two63)%N then Some (Z.of_N n) else None | None => None end
  end.
(* strconv.ParseInt(s, 10, 64) and strconv.Atoi on a 64-bit platform *)
Definition parse_int64 (s : string) : option Z := signed_of parse_digits10 s.

(* octal *)
Definition oct_digit (a : ascii) : option N :=
  let n := N_of_ascii a in if (48 <=? n)%N && (n <=? 55)%N then Some (n - 48)%N else None.
Fixpoint parse_oct_acc (s : string) (acc : N) : option N :=
  match s with
  | EmptyString => Some acc
  | String a s' => match oct_digit a with Some d => parse_oct_acc s' (acc * 8 + d)%N | None => None end
  end.
Definition parse_digits8 (s : string) : option N :=
  match s with EmptyString => None | _ => parse_oct_acc s 0%N end.
(* strconv.ParseInt(s, 8, 64) *)
Definition parse_int64_oct (s : string) : option Z := signed_of parse_digits8 s.

Definition digit_char (d : N) : ascii := ascii_of_N (48 + d).
(* %04o of a value in [0, 0o7777]; wider values cannot occur behind [& 0o777] *)
Definition fmt_o4 (n : N) : string :=
  String (digit_char ((n / 512) mod 8)) (String (digit_char ((n / 64) mod 8))
    (String (digit_char ((n / 8) mod 8)) (String (digit_char (n mod 8)) EmptyString))).

(* ======================================================================== *)
(* lemmas                                                                     *)

Lemma sapp_nil_r s : s +++ "" = s.
Proof. induction s; simpl; congruence. Qed.
Lemma sapp_assoc a b c : (a +++ b) +++ c = a +++ b +++ c.
Proof. induction a; simpl; congruence. Qed.

Lemma has_char_app c a b : has_char c (a +++ b) = has_char c a || has_char c b.
Proof. induction a; simpl; [reflexivity|]. rewrite IHa. apply orb_assoc. Qed.

Lemma split_on_nonnil c s : split_on c s <> [].
Proof. destruct s; simpl; [discriminate|]. destruct (Ascii.eqb a c); [discriminate|]. destruct (split_on c s); discriminate. Qed.

(* a segment free of the separator, followed by the separator *)
Lemma split_on_app c x rest : has_char c x = false ->
  split_on c (x +++ String c rest) = x :: split_on c rest.
Proof.
  induction x as [|a x IH]; simpl; intro H.
  - rewrite Ascii.eqb_refl. reflexivity.
  - apply orb_false_iff in H. destruct H as [H1 H2]. rewrite H1. rewrite (IH H2). reflexivity.
Qed.
Lemma split_on_single c x : has_char c x = false -> split_on c x = [x].
Proof.
  induction x as [|a x IH]; simpl; intro H; [reflexivity|].
  apply orb_false_iff in H. destruct H as [H1 H2]. rewrite H1, (IH H2). reflexivity.
Qed.

(* strings.Split(strings.Join(l, c), c) = l for a non-empty list of c-free items *)
Lemma split_join c l : l <> [] -> Forall (fun x => has_char c x = false) l ->
  split_on c (join (String c "") l) = l.
Proof.
  induction l as [|x l IH]; intros Hn HF; [congruence|].
  inversion HF as [|? ? Hx Hl]; subst.
  destruct l as [|y l].
  - simpl. apply split_on_single; assumption.
  - change (join (String c "") (x :: y :: l)) with (x +++ String c "" +++ join (String c "") (y :: l)).
    change (String c "" +++ join (String c "") (y :: l)) with (String c (join (String c "") (y :: l))).
    rewrite split_on_app by assumption. rewrite IH; [reflexivity|discriminate|assumption].
Qed.

Lemma has_char_join c sep l : has_char c sep = false -> Forall (fun x => has_char c x = false) l ->
  has_char c (join sep l) = false.
Proof.
  intros Hs. induction l as [|x l IH]; intro HF; [reflexivity|].
  inversion HF; subst. destruct l; [assumption|].
  change (join sep (x :: s :: l)) with (x +++ sep +++ join sep (s :: l)).
  rewrite !has_char_app, H1, Hs, IH; auto.
Qed.

(* ---- scanner ---------------------------------------------------------- *)
Definition line_ok (l : string) : Prop := has_char ch_nl l = false /\ last_char l <> Some ch_cr.

Lemma drop_cr_ok l : last_char l <> Some ch_cr -> drop_cr l = l.
Proof.
  unfold drop_cr, trim_suffix_char. destruct (last_char l) as [a|]; [|reflexivity].
  intro H. destruct (Ascii.eqb a ch_cr) eqn:E; [|reflexivity].
  apply Ascii.eqb_eq in E. congruence.
Qed.

(* the text "l1\nl2\n...ln\n" *)
Fixpoint unlines (ls : list string) : string :=
  match ls with [] => EmptyString | l :: ls' => l +++ String ch_nl (unlines ls') end.

Lemma raw_lines_unlines ls : Forall (fun l => has_char ch_nl l = false) ls ->
  raw_lines (unlines ls) = ls.
Proof.
  unfold raw_lines. induction ls as [|l ls IH]; intro HF; [reflexivity|].
  inversion HF; subst. simpl unlines. rewrite split_on_app by assumption.
  specialize (IH H2).
  destruct l; simpl; [| rewrite IH; reflexivity].
  destruct (split_on ch_nl (unlines ls)) eqn:E; [exfalso; eapply split_on_nonnil; eauto|].
  rewrite <- IH. reflexivity.
Qed.

Lemma take_short_all max ls : Forall (fun l => (nlen l + 1 <= max)%N /\ last_char l <> Some ch_cr) ls ->
  take_short max ls = (ls, false).
Proof.
  induction ls as [|l ls IH]; intro HF; [reflexivity|]. inversion HF as [|? ? [H1 H2] H3]; subst.
  simpl. apply N.leb_le in H1. rewrite H1, (IH H3), (drop_cr_ok _ H2). reflexivity.
Qed.

Lemma scan_unlines max ls :
  Forall (fun l => line_ok l /\ (nlen l + 1 <= max)%N) ls ->
  scan_lines max (unlines ls) = (ls, false).
Proof.
  intro HF. unfold scan_lines. rewrite raw_lines_unlines.
  - apply take_short_all. eapply Forall_impl; [|exact HF]. intros l [[_ H] H']. auto.
  - eapply Forall_impl; [|exact HF]. intros l [[H _] _]. exact H.
Qed.

(* a line that does not fit stops the scan: what precedes it is delivered,
   it and everything after it is not *)
Lemma take_short_stop max pre l post :
  Forall (fun l => (nlen l + 1 <= max)%N /\ last_char l <> Some ch_cr) pre ->
  (max < nlen l + 1)%N ->
  take_short max (pre ++ l :: post) = (pre, true).
Proof.
  induction pre as [|x pre IH]; intros HF Hl.
  - simpl. apply N.leb_gt in Hl. rewrite Hl. reflexivity.
  - inversion HF as [|? ? [H1 H2] H3]; subst. simpl.
    apply N.leb_le in H1. rewrite H1, (IH H3 Hl), (drop_cr_ok _ H2). reflexivity.
Qed.

(* ---- numbers ------------------------------------------------------------ *)
Lemma string_of_uint_nonempty d : d <> Nil -> NilEmpty.string_of_uint d <> "".
Proof. destruct d; simpl; congruence. Qed.
Lemma to_uint_nonnil n : N.to_uint n <> Nil.
Proof.
  destruct n; [discriminate|]. apply DecimalPos.Unsigned.to_uint_nonnil.
Qed.

Lemma parse_digits10_fmt n : parse_digits10 (fmt_n n) = Some n.
Proof.
  unfold parse_digits10, fmt_n.
  destruct (NilEmpty.string_of_uint (N.to_uint n)) eqn:E.
  - exfalso. eapply string_of_uint_nonempty; [apply to_uint_nonnil|exact E].
  - rewrite <- E, NilEmpty.usu, DecimalN.Unsigned.of_to. reflexivity.
Qed.

Lemma parse_uint64_fmt n : (n < two64)%N -> parse_uint64 (fmt_n n) = Some n.
Proof. intro H. unfold parse_uint64. rewrite parse_digits10_fmt. apply N.ltb_lt in H. rewrite H. reflexivity. Qed.

Definition is_digit (a : ascii) : bool := let n := N_of_ascii a in (48 <=? n)%N && (n <=? 57)%N.
Fixpoint all_chars (f : ascii -> bool) (s : string) : bool :=
  match s with EmptyString => true | String a s' => f a && all_chars f s' end.

Lemma string_of_uint_digits d : all_chars is_digit (NilEmpty.string_of_uint d) = true.
Proof. induction d; simpl; auto. Qed.
Lemma fmt_n_digits n : all_chars is_digit (fmt_n n) = true.
Proof. apply string_of_uint_digits. Qed.

Lemma fmt_n_first_digit n : exists a r, fmt_n n = String a r /\ is_digit a = true.
Proof.
  pose proof (fmt_n_digits n) as H. unfold fmt_n in *.
  destruct (NilEmpty.string_of_uint (N.to_uint n)) eqn:E.
  - exfalso. eapply string_of_uint_nonempty; [apply to_uint_nonnil|exact E].
  - simpl in H. apply andb_true_iff in H. destruct H. eauto.
Qed.

Lemma parse_int64_fmt z : (- Z.of_N two63 <= z < Z.of_N two63)%Z -> parse_int64 (fmt_z z) = Some z.
Proof.
  intro H. unfold parse_int64, fmt_z. destruct z as [|p|p].
  - reflexivity.
  - destruct (fmt_n_first_digit (Z.to_N (Zpos p))) as (a & r & E & Hd). rewrite E.
    assert (Hs : signed_of parse_digits10 (String a r) =
                 match parse_digits10 (String a r) with Some n => if (n <? two63)%N then Some (Z.of_N n) else None | None => None end).
    { unfold signed_of. unfold is_digit in Hd.
      destruct a as [b0 b1 b2 b3 b4 b5 b6 b7]. destruct b0, b1, b2, b3, b4, b5, b6, b7; try reflexivity; discriminate. }
    rewrite Hs, <- E, parse_digits10_fmt.
    assert (Hlt : (Z.to_N (Z.pos p) <? two63)%N = true) by (apply N.ltb_lt; lia).
    rewrite Hlt. reflexivity.
  - simpl. rewrite parse_digits10_fmt.
    assert (Hle : (N.pos p <=? two63)%N = true) by (apply N.leb_le; lia).
    rewrite Hle. reflexivity.
Qed.

Lemma all_chars_has_char f c s : all_chars f s = true -> f c = false -> has_char c s = false.
Proof.
  induction s as [|a s IH]; simpl; intros H Hc; [reflexivity|].
  apply andb_true_iff in H. destruct H as [Ha Hs]. rewrite (IH Hs Hc), orb_false_r.
  destruct (Ascii.eqb a c) eqn:E; [|reflexivity]. apply Ascii.eqb_eq in E. congruence.
Qed.
Lemma all_chars_last f s a : all_chars f s = true -> last_char s = Some a -> f a = true.
Proof.
  induction s as [|b s IH]; simpl; intros H Hl; [discriminate|].
  apply andb_true_iff in H. destruct H as [Hb Hs]. destruct s; [congruence|]. auto.
Qed.

Lemma fmt_n_no_char c n : is_digit c = false -> has_char c (fmt_n n) = false.
Proof. intro. eapply all_chars_has_char; [apply fmt_n_digits|assumption]. Qed.
Lemma fmt_n_last n c : is_digit c = false -> last_char (fmt_n n) <> Some c.
Proof. intros Hc H. pose proof (all_chars_last _ _ _ (fmt_n_digits n) H). congruence. Qed.

Lemma fmt_z_no_char c z : is_digit c = false -> c <> "-"%char -> has_char c (fmt_z z) = false.
Proof.
  intros Hc Hm. destruct z; unfold fmt_z; try (apply fmt_n_no_char; assumption).
  cbn [has_char]. rewrite fmt_n_no_char by assumption. rewrite orb_false_r. apply Ascii.eqb_neq. congruence.
Qed.
Lemma fmt_z_last z c : is_digit c = false -> last_char (fmt_z z) <> Some c.
Proof.
  intros Hc. destruct z; unfold fmt_z; try (apply fmt_n_last; assumption).
  destruct (fmt_n_first_digit (N.pos p)) as (a & r & E & _). cbn [last_char]. rewrite E. rewrite <- E. apply fmt_n_last; assumption.
Qed.

(* octal: complete enumeration of the 512 permission values *)
Lemma parse_oct_fmt_o4_all :
  forallb (fun n => match parse_int64_oct (fmt_o4 (N.of_nat n)) with Some z => Z.eqb z (Z.of_nat n) | None => false end) (seq 0 512) = true.
Proof. vm_compute. reflexivity. Qed.
Lemma parse_oct_fmt_o4 n : (n < 512)%N -> parse_int64_oct (fmt_o4 n) = Some (Z.of_N n).
Proof.
  intro H. pose proof parse_oct_fmt_o4_all as A. rewrite forallb_forall in A.
  specialize (A (N.to_nat n)). rewrite N2Nat.id in A.
  assert (In (N.to_nat n) (seq 0 512)) as Hin by (apply in_seq; lia).
  specialize (A Hin). destruct (parse_int64_oct (fmt_o4 n)); [|discriminate].
  apply Z.eqb_eq in A. subst. f_equal. lia.
Qed.
Lemma fmt_o4_chars_all :
  forallb (fun n => all_chars is_digit (fmt_o4 (N.of_nat n))) (seq 0 512) = true.
Proof. vm_compute. reflexivity. Qed.
Lemma fmt_o4_digits n : (n < 512)%N -> all_chars is_digit (fmt_o4 n) = true.
Proof.
  intro H. pose proof fmt_o4_chars_all as A. rewrite forallb_forall in A.
  specialize (A (N.to_nat n)). rewrite N2Nat.id in A. apply A. apply in_seq. lia.
Qed.
