(* C18 — lexical paths as Go's path/filepath sees them on Linux.

   Strings are handled as [list ascii] ([str]); the wrappers at the end convert
   from and to Coq [string] for the correspondence cases.  A path is analysed
   as a rootedness flag plus the list of its '/'-separated components; the
   cleaner is a small stack machine over components:

       state (k, out)   k   = number of leading ".." kept (relative paths only)
                        out = the kept components, innermost first

   [clean] / [join] / [base] / [dir] / [abs] are functionally what
   filepath.Clean / Join / Base / Dir / Abs compute on Linux (checked against
   the real functions by the correspondence stage "paths"); the lemmas below
   are about these definitions.  Stdlib only. *)
From Coq Require Import List Ascii String Bool Arith Lia.
Import ListNotations.
Open Scope list_scope.

Definition str := list ascii.

Definition sl : ascii := "/"%char.
Definition dot : ascii := "."%char.
Definition dd : str := [dot; dot].

Fixpoint str_eqb (a b : str) : bool :=
  match a, b with
  | [], [] => true
  | x :: a', y :: b' => Ascii.eqb x y && str_eqb a' b'
  | _, _ => false
  end.

Lemma str_eqb_eq : forall a b, str_eqb a b = true <-> a = b.
Proof.
  induction a as [|x a IH]; destruct b as [|y b]; simpl; split; intro H;
    try reflexivity; try discriminate.
  - apply andb_true_iff in H. destruct H as [H1 H2].
    apply Ascii.eqb_eq in H1. apply IH in H2. congruence.
  - inversion H; subst. apply andb_true_iff. split.
    + apply Ascii.eqb_refl.
    + apply IH. reflexivity.
Qed.

Lemma str_eqb_refl : forall a, str_eqb a a = true.
Proof. intro a. apply str_eqb_eq. reflexivity. Qed.

Lemma str_eqb_neq : forall a b, str_eqb a b = false <-> a <> b.
Proof.
  intros a b. split.
  - intros H E. apply str_eqb_eq in E. congruence.
  - intro H. destruct (str_eqb a b) eqn:E; [|reflexivity].
    apply str_eqb_eq in E. contradiction.
Qed.

(* strings.HasPrefix s p *)
Fixpoint has_prefix (s p : str) {struct p} : bool :=
  match p, s with
  | [], _ => true
  | y :: p', x :: s' => Ascii.eqb x y && has_prefix s' p'
  | _ :: _, [] => false
  end.

Lemma has_prefix_iff : forall s p, has_prefix s p = true <-> exists r, s = p ++ r.
Proof.
  intros s p. revert s. induction p as [|y p IH]; intros s; simpl.
  - split; [intros _; exists s; reflexivity | reflexivity].
  - destruct s as [|x s].
    + split; [discriminate | intros [r H]; discriminate].
    + rewrite andb_true_iff, IH, Ascii.eqb_eq. split.
      * intros [E [r H]]. exists r. subst. reflexivity.
      * intros [r H]. inversion H; subst. split; [reflexivity | exists r; reflexivity].
Qed.

Definition has_suffix (s p : str) : bool := has_prefix (rev s) (rev p).

Definition trim_suffix (s p : str) : str :=
  if has_suffix s p then firstn (List.length s - List.length p) s else s.

(* strings.Split(s, "/"): never empty *)
Fixpoint split (s : str) : list str :=
  match s with
  | [] => [[]]
  | c :: s' =>
      if Ascii.eqb c sl then [] :: split s'
      else match split s' with
           | [] => [[c]]
           | h :: t => (c :: h) :: t
           end
  end.

(* strings.Join(l, "/") *)
Fixpoint join_sl (l : list str) : str :=
  match l with
  | [] => []
  | [x] => x
  | x :: t => x ++ sl :: join_sl t
  end.

Definition is_abs (s : str) : bool :=
  match s with c :: _ => Ascii.eqb c sl | [] => false end.

Definition is_skip (c : str) : bool := str_eqb c [] || str_eqb c [dot].
Definition is_dd (c : str) : bool := str_eqb c dd.

(* one component through the cleaner *)
Definition cstep (rooted : bool) (st : nat * list str) (c : str) : nat * list str :=
  if is_skip c then st
  else if is_dd c then
    match snd st with
    | _ :: out' => (fst st, out')
    | [] => if rooted then (fst st, []) else (S (fst st), [])
    end
  else (fst st, c :: snd st).

Definition crun (rooted : bool) (st : nat * list str) (l : list str) : nat * list str :=
  fold_left (cstep rooted) l st.

Definition st_comps (st : nat * list str) : list str := repeat dd (fst st) ++ rev (snd st).

(* the components of the cleaned path *)
Definition ccomps (rooted : bool) (l : list str) : list str := st_comps (crun rooted (0, []) l).

Definition render (rooted : bool) (l : list str) : str :=
  match l with
  | [] => if rooted then [sl] else [dot]
  | _ => if rooted then sl :: join_sl l else join_sl l
  end.

(* the cleaned components of a path string *)
Definition cc (s : str) : list str := ccomps (is_abs s) (split s).

(* filepath.Clean *)
Definition clean (s : str) : str := render (is_abs s) (cc s).

Fixpoint drop_empty (l : list str) : list str :=
  match l with
  | [] :: t => drop_empty t
  | _ => l
  end.

(* filepath.Join *)
Definition join (l : list str) : str :=
  match drop_empty l with
  | [] => []
  | l' => clean (join_sl l')
  end.

Definition is_sl (c : ascii) : bool := Ascii.eqb c sl.

Fixpoint drop_while (f : ascii -> bool) (s : str) : str :=
  match s with
  | c :: s' => if f c then drop_while f s' else s
  | [] => []
  end.

Definition strip_trailing_slashes (s : str) : str := rev (drop_while is_sl (rev s)).
Definition upto_last_slash (s : str) : str := rev (drop_while (fun c => negb (is_sl c)) (rev s)).

(* filepath.Base *)
Definition base (s : str) : str :=
  match s with
  | [] => [dot]
  | _ => match strip_trailing_slashes s with
         | [] => [sl]
         | s' => last (split s') []
         end
  end.

(* filepath.Dir *)
Definition dir (s : str) : str := clean (upto_last_slash s).

(* filepath.Abs with the working directory made explicit *)
Definition abs (cwd s : str) : str := if is_abs s then clean s else join [cwd; s].

(* filepath.Ext: from the last '.' of the last element *)
Fixpoint ext_rev (r acc : str) : str :=
  match r with
  | [] => []
  | c :: r' => if Ascii.eqb c sl then []
               else if Ascii.eqb c dot then c :: acc
               else ext_rev r' (c :: acc)
  end.
Definition ext (s : str) : str := ext_rev (rev s) [].

(* filepath.Rel(base, targ): the components of the result, None = error.
   Both paths are cleaned; they must agree on rootedness; the common leading
   components are dropped; for every base component left one ".." is emitted
   (an error if the first one left is itself ".."), then what is left of targ.
   Quirk kept: a relative targ that cleans to "." contributes a "." component
   when base components are left ("../."). *)
Fixpoint strip_common (a b : list str) {struct a} : list str * list str :=
  match a, b with
  | x :: a', y :: b' => if str_eqb x y then strip_common a' b' else (a, b)
  | _, _ => (a, b)
  end.

Definition rel (base targ : str) : option (list str) :=
  if negb (Bool.eqb (is_abs base) (is_abs targ)) then None
  else
    let bt := strip_common (cc base) (cc targ) in
    match fst bt with
    | [] => Some (snd bt)
    | b0 :: _ =>
        if is_dd b0 then None
        else Some (repeat dd (List.length (fst bt)) ++
                   (match cc targ with [] => if is_abs targ then [] else [[dot]] | _ => snd bt end))
    end.

(* the printed result *)
Definition rel_string (base targ : str) : option str :=
  match rel base targ with
  | None => None
  | Some [] => Some [dot]
  | Some l => Some (join_sl l)
  end.

(* err == nil && rel != ".." && !strings.HasPrefix(rel, "../") *)
Definition within (base p : str) : bool :=
  match rel base p with
  | None => false
  | Some [] => true
  | Some (c :: _) => negb (is_dd c)
  end.

(* the same, and rel != "." as well *)
Definition strictly_within (base p : str) : bool :=
  match rel base p with
  | None => false
  | Some [] => false
  | Some (c :: _) => negb (is_dd c)
  end.

(* ---- component-level relations ---------------------------------------- *)

Definition cprefix (a b : list str) : Prop := exists r, b = a ++ r.

Fixpoint cprefixb (a b : list str) {struct a} : bool :=
  match a, b with
  | [], _ => true
  | x :: a', y :: b' => str_eqb x y && cprefixb a' b'
  | _ :: _, [] => false
  end.

Lemma cprefixb_iff : forall a b, cprefixb a b = true <-> cprefix a b.
Proof.
  unfold cprefix. induction a as [|x a IH]; intros b; simpl.
  - split; [intros _; exists b; reflexivity | reflexivity].
  - destruct b as [|y b].
    + split; [discriminate | intros [r H]; discriminate].
    + rewrite andb_true_iff, IH, str_eqb_eq. split.
      * intros [E [r H]]. exists r. subst. reflexivity.
      * intros [r H]. inversion H; subst. split; [reflexivity | exists r; reflexivity].
Qed.

(* [p] lies at or below [root]: same rootedness and the cleaned components of
   [root] are a component-wise prefix of those of [p] *)
Definition under (root p : str) : Prop := is_abs root = is_abs p /\ cprefix (cc root) (cc p).
Definition underb (root p : str) : bool := Bool.eqb (is_abs root) (is_abs p) && cprefixb (cc root) (cc p).

Lemma underb_iff : forall root p, underb root p = true <-> under root p.
Proof.
  intros. unfold underb, under. rewrite andb_true_iff, cprefixb_iff, Bool.eqb_true_iff. tauto.
Qed.

(* a proper component: non-empty, no separator, neither "." nor ".." *)
Definition no_slash (c : str) : Prop := ~ In sl c.
Definition proper (c : str) : Prop := no_slash c /\ is_skip c = false /\ is_dd c = false.

Definition no_slashb (c : str) : bool := negb (existsb is_sl c).
Definition properb (c : str) : bool := no_slashb c && negb (is_skip c) && negb (is_dd c).

Lemma no_slashb_iff : forall c, no_slashb c = true <-> no_slash c.
Proof.
  intro c. unfold no_slashb, no_slash. rewrite negb_true_iff. split.
  - intros H I. assert (existsb is_sl c = true) as E.
    { apply existsb_exists. exists sl. split; [assumption | apply Ascii.eqb_refl]. }
    congruence.
  - intro H. destruct (existsb is_sl c) eqn:E; [|reflexivity].
    apply existsb_exists in E. destruct E as [x [I E]]. apply Ascii.eqb_eq in E. subst. contradiction.
Qed.

Lemma properb_iff : forall c, properb c = true <-> proper c.
Proof.
  intro c. unfold properb, proper. rewrite !andb_true_iff, !negb_true_iff, no_slashb_iff. tauto.
Qed.

(* ---- string wrappers --------------------------------------------------- *)
Definition la := list_ascii_of_string.
Definition ls := string_of_list_ascii.

Definition clean_s (s : string) : string := ls (clean (la s)).
Definition join_s (l : list string) : string := ls (join (map la l)).
Definition base_s (s : string) : string := ls (base (la s)).
Definition dir_s (s : string) : string := ls (dir (la s)).
Definition rel_s (b t : string) : option string := option_map ls (rel_string (la b) (la t)).
Definition ext_s (s : string) : string := ls (ext (la s)).
