(* Shared basics: Go-style results, byte strings, the case-report driver used
   by every generated Cases_*.v file. Stdlib only. *)
From Coq Require Export List String Ascii NArith ZArith Bool Lia.
Export ListNotations.

(* ---- results of Go functions that may fail or panic ------------------- *)
Inductive res (A : Type) : Type :=
| Ok (a : A)
| Err            (* an ordinary Go error *)
| Panic          (* a run-time panic *)
| OutOfFuel.     (* the model's own fuel ran out; theorems exclude it *)
Arguments Ok {A} a. Arguments Err {A}. Arguments Panic {A}. Arguments OutOfFuel {A}.

Definition rbind {A B} (r : res A) (f : A -> res B) : res B :=
  match r with Ok a => f a | Err => Err | Panic => Panic | OutOfFuel => OutOfFuel end.
Notation "'do' x <- r ; k" := (rbind r (fun x => k)) (at level 200, x pattern, r at level 100, k at level 200).

(* ---- bytes ------------------------------------------------------------ *)
Definition bytes_of_string (s : string) : list N :=
  List.map N_of_ascii (list_ascii_of_string s).
Definition string_of_bytes (l : list N) : string :=
  string_of_list_ascii (List.map ascii_of_N l).
(* the harness prints non-printable strings as [sb [..]] *)
Definition sb := string_of_bytes.

Fixpoint list_eqb {A} (eqb : A -> A -> bool) (a b : list A) : bool :=
  match a, b with
  | [], [] => true
  | x :: a', y :: b' => eqb x y && list_eqb eqb a' b'
  | _, _ => false
  end.

Lemma list_eqb_spec {A} (eqb : A -> A -> bool)
  (H : forall x y, eqb x y = true <-> x = y) :
  forall a b, list_eqb eqb a b = true <-> a = b.
Proof.
  induction a as [|x a IH]; destruct b as [|y b]; simpl; split; intro E;
    try reflexivity; try discriminate.
  - apply andb_true_iff in E. destruct E as [E1 E2].
    apply H in E1. apply IH in E2. congruence.
  - inversion E; subst. apply andb_true_iff. split; [apply H | apply IH]; reflexivity.
Qed.

Definition option_eqb {A} (eqb : A -> A -> bool) (a b : option A) : bool :=
  match a, b with
  | None, None => true
  | Some x, Some y => eqb x y
  | _, _ => false
  end.

(* ---- the report driver -------------------------------------------------
   A Cases file defines [cases : list C]; a Corr file defines
   [check : C -> list string], returning the failure tags of one case
   ("viol:..." = the implementation's observed output breaks the property's
   validator; "mismatch:..." = model and implementation differ).  [report]
   numbers the cases and keeps the failing ones. *)
Fixpoint report_from {C} (check : C -> list string) (i : N) (cs : list C)
  : list (N * list string) :=
  match cs with
  | [] => []
  | c :: cs' =>
      match check c with
      | [] => report_from check (N.succ i) cs'
      | tags => (i, tags) :: report_from check (N.succ i) cs'
      end
  end.
Definition report {C} (check : C -> list string) (cs : list C) := report_from check 0%N cs.

Definition tag_if (b : bool) (t : string) : list string := if b then [t] else [].
