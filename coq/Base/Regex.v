(* Regular expressions over bytes as Go's regexp/syntax parses them (the AST is
   printed by goextract), a denotational semantics [L], and a verified
   Brzozowski-derivative matcher. Capture groups are kept in the AST ([Grp])
   because the Go code addresses sub-matches by index; they do not change the
   language. Anchors are only supported at the two ends ([anchored]). *)
From Apko Require Import Base.Prelude.
Open Scope N_scope.

Inductive re : Type :=
| Emp | Eps
| Lit (bs : list N)
| Cls (rs : list (N * N))
| Cat (a b : re) | Alt (a b : re)
| Star (a : re) | Plus (a : re) | Opt (a : re)
| Grp (n : nat) (a : re)
| Bot | Eot.

Definition in_ranges (rs : list (N * N)) (c : N) : bool :=
  existsb (fun p => (fst p <=? c) && (c <=? snd p)) rs.

(* ---- language (anchors denote the empty language here; see [anchored]) -- *)
Inductive L : re -> list N -> Prop :=
| L_eps : L Eps []
| L_lit bs : L (Lit bs) bs
| L_cls rs c : in_ranges rs c = true -> L (Cls rs) [c]
| L_cat a b s t : L a s -> L b t -> L (Cat a b) (s ++ t)
| L_altl a b s : L a s -> L (Alt a b) s
| L_altr a b s : L b s -> L (Alt a b) s
| L_star0 a : L (Star a) []
| L_star1 a s t : L a s -> L (Star a) t -> L (Star a) (s ++ t)
| L_plus a s t : L a s -> L (Star a) t -> L (Plus a) (s ++ t)
| L_opt0 a : L (Opt a) []
| L_opt1 a s : L a s -> L (Opt a) s
| L_grp n a s : L a s -> L (Grp n a) s.


(* inversion lemmas with stable shapes *)
Lemma L_cat_inv a b s : L (Cat a b) s -> exists s1 s2, s = s1 ++ s2 /\ L a s1 /\ L b s2.
Proof. intro H; inversion H; subst; eauto. Qed.
Lemma L_alt_inv a b s : L (Alt a b) s -> L a s \/ L b s.
Proof. intro H; inversion H; subst; auto. Qed.
Lemma L_plus_inv a s : L (Plus a) s -> exists s1 s2, s = s1 ++ s2 /\ L a s1 /\ L (Star a) s2.
Proof. intro H; inversion H; subst; eauto. Qed.
Lemma L_opt_inv a s : L (Opt a) s -> s = [] \/ L a s.
Proof. intro H; inversion H; subst; auto. Qed.
Lemma L_grp_inv n a s : L (Grp n a) s -> L a s.
Proof. intro H; inversion H; subst; auto. Qed.
Lemma L_eps_inv s : L Eps s -> s = [].
Proof. intro H; inversion H; reflexivity. Qed.
Lemma L_cls_inv rs s : L (Cls rs) s -> exists c, s = [c] /\ in_ranges rs c = true.
Proof. intro H; inversion H; subst; eauto. Qed.
Lemma L_emp_inv s : L Emp s -> False.
Proof. intro H; inversion H. Qed.

(* ---- normal form without Lit/Plus/Opt/Grp ------------------------------ *)
Fixpoint lit_re (bs : list N) : re :=
  match bs with [] => Eps | c :: t => Cat (Cls [(c, c)]) (lit_re t) end.

Fixpoint core (r : re) : re :=
  match r with
  | Emp => Emp | Eps => Eps
  | Lit bs => lit_re bs
  | Cls rs => Cls rs
  | Cat a b => Cat (core a) (core b)
  | Alt a b => Alt (core a) (core b)
  | Star a => Star (core a)
  | Plus a => Cat (core a) (Star (core a))
  | Opt a => Alt Eps (core a)
  | Grp _ a => core a
  | Bot => Emp | Eot => Emp
  end.

Fixpoint nullable (r : re) : bool :=
  match r with
  | Emp => false | Eps => true | Lit bs => match bs with [] => true | _ => false end
  | Cls _ => false
  | Cat a b => nullable a && nullable b
  | Alt a b => nullable a || nullable b
  | Star _ => true | Plus a => nullable a | Opt _ => true
  | Grp _ a => nullable a
  | Bot => false | Eot => false
  end.

Definition cat (a b : re) : re :=
  match a, b with
  | Emp, _ => Emp | _, Emp => Emp
  | Eps, _ => b | _, Eps => a
  | _, _ => Cat a b
  end.
Definition alt (a b : re) : re :=
  match a, b with Emp, _ => b | _, Emp => a | _, _ => Alt a b end.

(* derivative on core-form expressions *)
Fixpoint der (c : N) (r : re) : re :=
  match r with
  | Emp | Eps => Emp
  | Cls rs => if in_ranges rs c then Eps else Emp
  | Cat a b => if nullable a then alt (cat (der c a) b) (der c b) else cat (der c a) b
  | Alt a b => alt (der c a) (der c b)
  | Star a => cat (der c a) (Star a)
  | _ => Emp   (* not core form *)
  end.

Fixpoint matchl (r : re) (s : list N) : bool :=
  match s with [] => nullable r | c :: t => matchl (der c r) t end.

Definition matches (r : re) (s : list N) : bool := matchl (core r) s.

(* ---- anchors ------------------------------------------------------------ *)
Fixpoint no_anchor (r : re) : bool :=
  match r with
  | Bot | Eot => false
  | Cat a b | Alt a b => no_anchor a && no_anchor b
  | Star a | Plus a | Opt a | Grp _ a => no_anchor a
  | _ => true
  end.

(* strip a trailing Eot from a right-nested Cat chain *)
Fixpoint strip_eot (r : re) : option re :=
  match r with
  | Eot => Some Eps
  | Cat a b => match strip_eot b with Some b' => Some (Cat a b') | None => None end
  | _ => None
  end.

(* [anchored r = Some r'] when r = ^ r' $ with no other anchors *)
Definition anchored (r : re) : option re :=
  match r with
  | Cat Bot b =>
      match strip_eot b with
      | Some b' => if no_anchor b' then Some b' else None
      | None => None
      end
  | _ => None
  end.

(* whole-string match of a regex that must be of the form ^...$ *)
Definition full_match (r : re) (s : string) : bool :=
  match anchored r with
  | Some r' => matches r' (bytes_of_string s)
  | None => false
  end.

Fixpoint strip_groups (r : re) : re :=
  match r with
  | Cat a b => Cat (strip_groups a) (strip_groups b)
  | Alt a b => Alt (strip_groups a) (strip_groups b)
  | Star a => Star (strip_groups a)
  | Plus a => Plus (strip_groups a)
  | Opt a => Opt (strip_groups a)
  | Grp _ a => strip_groups a
  | r => r
  end.

(* ======================= correctness of the matcher ===================== *)

Lemma L_lit_re bs s : L (lit_re bs) s <-> s = bs.
Proof.
  revert s; induction bs as [|c t IH]; simpl; intros s; split; intro H.
  - apply L_eps_inv in H; exact H.
  - subst; constructor.
  - apply L_cat_inv in H. destruct H as (s1 & s2 & -> & H1 & H2).
    apply L_cls_inv in H1. destruct H1 as (c' & -> & Hc).
    apply IH in H2; subst. simpl.
    unfold in_ranges in Hc; simpl in Hc. rewrite orb_false_r in Hc.
    apply andb_true_iff in Hc; destruct Hc as [A B].
    apply N.leb_le in A, B. f_equal. lia.
  - subst. change (c :: t) with ([c] ++ t). constructor.
    + constructor. unfold in_ranges; simpl. rewrite !N.leb_refl. reflexivity.
    + apply IH; reflexivity.
Qed.

Lemma L_star_map a b s : (forall t, L a t -> L b t) -> L (Star a) s -> L (Star b) s.
Proof.
  intros Hab H. remember (Star a) as r eqn:E. induction H; try discriminate.
  - constructor.
  - inversion E; subst. constructor; [apply Hab; assumption | apply IHL2; reflexivity].
Qed.

(* [core] preserves the language of anchor-free expressions *)
Lemma core_L r : no_anchor r = true -> forall s, L r s <-> L (core r) s.
Proof.
  induction r as [| |bs|rs|a IHa b IHb|a IHa b IHb|a IHa|a IHa|a IHa|n a IHa| |]; simpl; intros NA s;
    try (apply andb_true_iff in NA; destruct NA as [NA1 NA2]);
    try discriminate; try tauto.
  - rewrite L_lit_re. split; intro H; [inversion H; reflexivity | subst; constructor].
  - split; intro H; apply L_cat_inv in H; destruct H as (s1 & s2 & -> & H1 & H2);
      constructor; try (apply IHa; assumption); try (apply IHb; assumption).
  - split; intro H; apply L_alt_inv in H; destruct H as [H|H];
      try (apply L_altl; apply IHa; assumption); try (apply L_altr; apply IHb; assumption).
  - split; apply L_star_map; intros t; apply IHa; assumption.
  - split; intro H.
    + apply L_plus_inv in H; destruct H as (s1 & s2 & -> & H1 & H2). constructor.
      * apply IHa; assumption.
      * revert H2; apply L_star_map; intros t; apply IHa; assumption.
    + apply L_cat_inv in H; destruct H as (s1 & s2 & -> & H1 & H2). constructor.
      * apply IHa; assumption.
      * revert H2; apply L_star_map; intros t; apply IHa; assumption.
  - split; intro H.
    + apply L_opt_inv in H; destruct H as [->|H]; [apply L_altl; constructor | apply L_altr; apply IHa; assumption].
    + apply L_alt_inv in H; destruct H as [H|H].
      * apply L_eps_inv in H; subst; constructor.
      * apply L_opt1. apply IHa; assumption.
  - split; intro H.
    + apply L_grp_inv in H. apply IHa; assumption.
    + constructor. apply IHa; assumption.
Qed.

Lemma nullable_L r : no_anchor r = true -> (nullable r = true <-> L r []).
Proof.
  induction r as [| |bs|rs|a IHa b IHb|a IHa b IHb|a IHa|a IHa|a IHa|n a IHa| |]; simpl; intros NA;
    try (apply andb_true_iff in NA; destruct NA as [NA1 NA2]); try discriminate.
  - split; [discriminate | intro H; inversion H].
  - split; [constructor | reflexivity].
  - destruct bs; split; intro H; try constructor; try reflexivity; try discriminate. inversion H.
  - split; [discriminate | intro H; inversion H].
  - rewrite andb_true_iff, IHa, IHb by assumption. split.
    + intros [A B]. change (@nil N) with (@nil N ++ []). constructor; assumption.
    + intro H. apply L_cat_inv in H; destruct H as (s1 & s2 & E & H1 & H2).
      symmetry in E; apply app_eq_nil in E. destruct E; subst. split; assumption.
  - rewrite orb_true_iff, IHa, IHb by assumption. split.
    + intros [A|B]; [apply L_altl | apply L_altr]; assumption.
    + intro H; apply L_alt_inv in H; exact H.
  - split; [constructor | reflexivity].
  - rewrite IHa by assumption. split.
    + intro A. change (@nil N) with (@nil N ++ []). constructor; [assumption | constructor].
    + intro H. apply L_plus_inv in H; destruct H as (s1 & s2 & E & H1 & H2).
      symmetry in E; apply app_eq_nil in E. destruct E; subst. assumption.
  - split; [constructor | reflexivity].
  - rewrite IHa by assumption. split; intro H; [constructor; assumption | apply L_grp_inv in H; assumption].
Qed.

Lemma cat_L a b s : L (cat a b) s <-> L (Cat a b) s.
Proof.
  split.
  - intro H.
    assert (a = Emp -> False) as NE1. { intros ->; simpl in H; inversion H. }
    assert (b = Emp -> False) as NE2. { intros ->; destruct a; simpl in H; inversion H. }
    destruct (match a with Eps => true | _ => false end) eqn:Ea.
    + destruct a; try discriminate. 
      assert (cat Eps b = b) as Hc by (destruct b; reflexivity).
      rewrite Hc in H. change s with ([] ++ s). constructor; [constructor | exact H].
    + destruct (match b with Eps => true | _ => false end) eqn:Eb.
      * destruct b; try discriminate.
        assert (cat a Eps = a) as Hc by (destruct a; try reflexivity; discriminate).
        rewrite Hc in H. rewrite <- (app_nil_r s). constructor; [exact H | constructor].
      * assert (cat a b = Cat a b) as Hc.
        { destruct a; try discriminate; try (exfalso; apply NE1; reflexivity);
            destruct b; try discriminate; try (exfalso; apply NE2; reflexivity); reflexivity. }
        rewrite Hc in H; exact H.
  - intro H. apply L_cat_inv in H; destruct H as (s1 & s2 & -> & H1 & H2).
    assert (a = Emp -> False) as NE1. { intros ->; inversion H1. }
    assert (b = Emp -> False) as NE2. { intros ->; inversion H2. }
    destruct (match a with Eps => true | _ => false end) eqn:Ea.
    + destruct a; try discriminate. apply L_eps_inv in H1; subst. cbn [app].
      assert (cat Eps b = b) as Hc by (destruct b; reflexivity). rewrite Hc. exact H2.
    + destruct (match b with Eps => true | _ => false end) eqn:Eb.
      * destruct b; try discriminate. apply L_eps_inv in H2; subst. rewrite app_nil_r.
        assert (cat a Eps = a) as Hc by (destruct a; try reflexivity; discriminate).
        rewrite Hc. exact H1.
      * assert (cat a b = Cat a b) as Hc.
        { destruct a; try discriminate; try (exfalso; apply NE1; reflexivity);
            destruct b; try discriminate; try (exfalso; apply NE2; reflexivity); reflexivity. }
        rewrite Hc. constructor; assumption.
Qed.

Lemma alt_L a b s : L (alt a b) s <-> L (Alt a b) s.
Proof.
  split.
  - intro H. destruct (match a with Emp => true | _ => false end) eqn:Ea.
    + destruct a; try discriminate. simpl in H. apply L_altr; exact H.
    + destruct (match b with Emp => true | _ => false end) eqn:Eb.
      * destruct b; try discriminate.
        assert (alt a Emp = a) as Hc by (destruct a; try reflexivity). rewrite Hc in H. apply L_altl; exact H.
      * assert (alt a b = Alt a b) as Hc by (destruct a; try discriminate; destruct b; try discriminate; reflexivity).
        rewrite Hc in H; exact H.
  - intro H. apply L_alt_inv in H.
    destruct (match a with Emp => true | _ => false end) eqn:Ea.
    + destruct a; try discriminate. simpl. destruct H as [H|H]; [inversion H | exact H].
    + destruct (match b with Emp => true | _ => false end) eqn:Eb.
      * destruct b; try discriminate.
        assert (alt a Emp = a) as Hc by (destruct a; try reflexivity). rewrite Hc.
        destruct H as [H|H]; [exact H | inversion H].
      * assert (alt a b = Alt a b) as Hc by (destruct a; try discriminate; destruct b; try discriminate; reflexivity).
        rewrite Hc. destruct H; [apply L_altl | apply L_altr]; assumption.
Qed.

Fixpoint is_core (r : re) : bool :=
  match r with
  | Emp | Eps | Cls _ => true
  | Cat a b | Alt a b => is_core a && is_core b
  | Star a => is_core a
  | _ => false
  end.

Lemma is_core_no_anchor r : is_core r = true -> no_anchor r = true.
Proof.
  induction r; simpl; intros H; try discriminate; try reflexivity;
    try (apply andb_true_iff in H; destruct H; rewrite IHr1, IHr2 by assumption; reflexivity); auto.
Qed.

Lemma lit_re_core bs : is_core (lit_re bs) = true.
Proof. induction bs; simpl; auto. Qed.

Lemma core_is_core r : is_core (core r) = true.
Proof.
  induction r; simpl; try reflexivity; try (rewrite IHr1, IHr2; reflexivity);
    try (rewrite IHr; reflexivity); try assumption. apply lit_re_core.
Qed.

Lemma cat_core a b : is_core a = true -> is_core b = true -> is_core (cat a b) = true.
Proof. intros; unfold cat; destruct a; destruct b; simpl in *; auto; try discriminate;
  repeat match goal with H : _ && _ = true |- _ => apply andb_true_iff in H; destruct H end;
  repeat (apply andb_true_iff; split); auto. Qed.
Lemma alt_core a b : is_core a = true -> is_core b = true -> is_core (alt a b) = true.
Proof. intros; unfold alt; destruct a; destruct b; simpl in *; auto; try discriminate;
  repeat match goal with H : _ && _ = true |- _ => apply andb_true_iff in H; destruct H end;
  repeat (apply andb_true_iff; split); auto. Qed.

Lemma der_core c r : is_core r = true -> is_core (der c r) = true.
Proof.
  induction r; simpl; intro H; try reflexivity; try discriminate.
  - destruct (in_ranges rs c); reflexivity.
  - apply andb_true_iff in H; destruct H as [H1 H2].
    destruct (nullable r1); [apply alt_core|]; try apply cat_core; auto.
  - apply andb_true_iff in H; destruct H as [H1 H2]. apply alt_core; auto.
  - apply cat_core; auto.
Qed.

Lemma star_cons_inv a c s : L (Star a) (c :: s) ->
  exists s1 s2, s = s1 ++ s2 /\ L a (c :: s1) /\ L (Star a) s2.
Proof.
  intro H. remember (Star a) as r eqn:E. remember (c :: s) as w eqn:Ew.
  revert c s E Ew. induction H as [| | | | | | |a' u t Hu IHu Ht IHt| | | |]; intros c0 s0 E Ew; try discriminate.
  inversion E; subst.
  destruct u as [|c1 u1].
  - simpl in Ew. eapply IHt; eauto.
  - simpl in Ew. inversion Ew; subst. exists u1, t. auto.
Qed.

Lemma der_L c r : is_core r = true -> forall s, L (der c r) s <-> L r (c :: s).
Proof.
  induction r as [| |bs|rs|a IHa b IHb|a IHa b IHb|a IHa|a IHa|a IHa|n a IHa| |]; simpl; intros C s; try discriminate.
  - split; intro H; inversion H.
  - split; intro H; inversion H.
  - destruct (in_ranges rs c) eqn:E; split; intro H.
    + apply L_eps_inv in H; subst. constructor; assumption.
    + apply L_cls_inv in H. destruct H as (c' & E' & _). inversion E'; subst. constructor.
    + inversion H.
    + apply L_cls_inv in H. destruct H as (c' & E' & Hc). inversion E'; subst. congruence.
  - apply andb_true_iff in C; destruct C as [Ca Cb].
    specialize (IHa Ca). specialize (IHb Cb).
    assert (forall s, L (cat (der c a) b) s <-> exists s1 s2, s = s1 ++ s2 /\ L a (c :: s1) /\ L b s2) as Hcat.
    { intro s0. rewrite cat_L. split.
      - intro H; apply L_cat_inv in H; destruct H as (s1 & s2 & -> & H1 & H2).
        eexists _, _. split; [reflexivity|]. split; [apply IHa|]; assumption.
      - intros (s1 & s2 & -> & H1 & H2). constructor; [apply IHa|]; assumption. }
    destruct (nullable a) eqn:Na.
    + rewrite alt_L. split.
      * intro H; apply L_alt_inv in H; destruct H as [H|H].
        -- apply Hcat in H. destruct H as (s1 & s2 & -> & H1 & H2).
           change (c :: s1 ++ s2) with ((c :: s1) ++ s2). constructor; assumption.
        -- change (c :: s) with ([] ++ c :: s). constructor; [|apply IHb; assumption].
           apply nullable_L; [apply is_core_no_anchor|]; assumption.
      * intro H. apply L_cat_inv in H; destruct H as (s1 & s2 & E & H1 & H2).
        destruct s1 as [|c1 s1]; simpl in E.
        -- subst s2. apply L_altr. apply IHb. assumption.
        -- inversion E; subst. apply L_altl. apply Hcat. eauto.
    + rewrite Hcat. split.
      * intros (s1 & s2 & -> & H1 & H2). change (c :: s1 ++ s2) with ((c :: s1) ++ s2). constructor; assumption.
      * intro H. apply L_cat_inv in H; destruct H as (s1 & s2 & E & H1 & H2).
        destruct s1 as [|c1 s1]; simpl in E.
        -- exfalso. apply nullable_L in H1; [congruence | apply is_core_no_anchor; assumption].
        -- inversion E; subst. eauto.
  - apply andb_true_iff in C; destruct C as [Ca Cb]. rewrite alt_L. split; intro H; apply L_alt_inv in H; destruct H as [H|H].
    + apply L_altl, IHa; assumption.
    + apply L_altr, IHb; assumption.
    + apply L_altl, IHa; assumption.
    + apply L_altr, IHb; assumption.
  - rewrite cat_L. split.
    + intro H; apply L_cat_inv in H; destruct H as (s1 & s2 & -> & H1 & H2).
      change (c :: s1 ++ s2) with ((c :: s1) ++ s2).
      constructor; [apply IHa|]; assumption.
    + intro H. apply star_cons_inv in H. destruct H as (s1 & s2 & -> & H1 & H2).
      constructor; [apply IHa|]; assumption.
Qed.

Lemma matchl_L r : is_core r = true -> forall s, matchl r s = true <-> L r s.
Proof.
  intros C s; revert r C. induction s as [|c s IH]; simpl; intros r C.
  - apply nullable_L, is_core_no_anchor, C.
  - rewrite IH by (apply der_core; assumption). apply der_L; assumption.
Qed.

Theorem matches_L r s : no_anchor r = true -> (matches r s = true <-> L r s).
Proof.
  intro NA. unfold matches. rewrite matchl_L by apply core_is_core.
  symmetry. apply core_L, NA.
Qed.

Lemma strip_groups_L r : forall s, L r s <-> L (strip_groups r) s.
Proof.
  induction r as [| |bs|rs|a IHa b IHb|a IHa b IHb|a IHa|a IHa|a IHa|n a IHa| |]; simpl; intros s; try tauto.
  - split; intro H; apply L_cat_inv in H; destruct H as (s1 & s2 & -> & H1 & H2);
      constructor; try apply IHa; try apply IHb; assumption.
  - split; intro H; apply L_alt_inv in H; destruct H as [H|H];
      try (apply L_altl, IHa; assumption); apply L_altr, IHb; assumption.
  - split; apply L_star_map; intro t; apply IHa.
  - split; intro H; apply L_plus_inv in H; destruct H as (s1 & s2 & -> & H1 & H2); constructor;
      try (apply IHa; assumption); revert H2; apply L_star_map; intro t; apply IHa.
  - split; intro H; apply L_opt_inv in H; destruct H as [->|H]; try apply L_opt0; apply L_opt1, IHa; assumption.
  - split; intro H.
    + apply L_grp_inv in H. apply IHa; assumption.
    + constructor. apply IHa; assumption.
Qed.
