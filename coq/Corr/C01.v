(* C01 correspondence: digests of real builds judged by the validator, and
   the canonicaliser / schedule models compared with the real functions. *)
From Apko Require Export Base.Prelude Base.C01Lib Model.Repro Spec.ReproSpec Generated.C01Calls.
Open Scope string_scope. Open Scope list_scope.

(* ---- the build matrix ------------------------------------------------------
   One case = one real build compared with the reference build of its group
   (same configuration, same output mode, same SOURCE_DATE_EPOCH setting).
   b_ref / b_got: (role, sha256) of every artefact, roles in a fixed order.
   For output tarballs: b_members = the member names in archive order,
   b_images = per index entry the config member and the layer members,
   b_manifests = the image manifests BuildIndex appends, in index order. *)
Record build_case := {
  b_cfg : string; b_dim : string; b_group : string;
  b_ref : artifacts; b_got : artifacts; b_failed : bool;
  b_members : list string; b_images : list timg; b_manifests : list string
}.

Definition str_in (x : string) (l : list string) : bool := existsb (String.eqb x) l.

(* roles that only reflect the ORDER of the output tarball's members *)
Definition order_only_roles : list string := ["tarball-member-order"; "output-tarball"].

Definition check_build (c : build_case) : list string :=
  if b_failed c then [("viol:build-fails/" ++ b_dim c)%string]
  else
    (* the model of the archive order: some iteration order of the image map *)
    (match b_members c with
     | [] => []
     | ms => tag_if (negb (existsb (fun ord => list_eqb String.eqb (tar_members ord (b_manifests c)) ms) (perms (b_images c))))
               "mismatch:tarball-member-order-is-not-a-map-order"
     end) ++
    match differing (b_ref c) (b_got c) with
    | [] => []
    | r :: rest =>
        if forallb (fun x => str_in x order_only_roles) (r :: rest)
        then ["viol:digest-differs/output-tarball-member-order"]
        else [("viol:digest-differs/" ++ b_dim c ++ ";first-differing-artifact=" ++ r)%string]
    end.

(* ---- install_if (was finding C01-F1, fixed by c03e0c0) -------------------------
   Universe of the harness: top depends on the leaf packages f_deps (in that
   order); f_pkgs are the install_if packages in index order (name, install_if
   entries — leaf names or names of other install_if packages: several
   triggers, chains).  f_orders: the distinct install orders observed (resolver
   in process, or lib/apk/db/installed of repeated identical CLI builds);
   f_digests: image manifest digest of every CLI build.  Every observed order
   must EQUAL the model's one order, and repeated runs must agree. *)
Record installif_case := { f_kind : string; f_pkgs : list iipkg; f_deps : list string;
                           f_orders : list (list string); f_digests : list string }.
Definition IP := Build_iipkg.
Definition digit (i : nat) : string :=
  match i with 0 => "0" | 1 => "1" | 2 => "2" | 3 => "3" | 4 => "4" | 5 => "5" | 6 => "6" | 7 => "7" | 8 => "8" | _ => "9" end.

(* `apko build` resolves twice: the world [top] is locked first and the build
   context resolves the LOCKED world — every member as name=version, sorted
   (sort.Strings; for the harness's names that is the order of the names).
   GetPackagesWithDependencies then takes the requests in that order: a request
   for a leaf or an install_if package contributes itself (its own install_if
   loop runs over an empty dependency list), the request for top contributes
   what is not yet tracked of [l] = its dependency list after the install_if
   loop, in that order, then top. *)
Definition cli_order (l : list string) : list string :=
  fold_left (fun acc w => if String.eqb w "top" then acc ++ List.filter (fun x => negb (mem x acc)) l ++ ["top"]
                          else if mem w acc then acc else acc ++ [w]) (ssort (l ++ ["top"])) [].

Definition model_order (c : installif_case) : option (list string) :=
  match install_if_pass (ii_build (f_pkgs c)) (f_deps c) with
  | Some l => Some (if String.eqb (f_kind c) "cli-build" then cli_order l else l ++ ["top"])
  | None => None
  end.

Fixpoint all_same {A} (eqb : A -> A -> bool) (l : list A) : bool :=
  match l with
  | x :: ((y :: _) as t) => eqb x y && all_same eqb t
  | _ => true
  end.

Definition check_installif (c : installif_case) : list string :=
  let orders_same := all_same (list_eqb String.eqb) (f_orders c) in
  let digests_same := all_same String.eqb (f_digests c) in
  (match model_order c with
   | None => ["mismatch:install-if-model-out-of-fuel"]
   | Some mo =>
       tag_if (match f_orders c with [] => true | _ => false end) "mismatch:harness-shape/no-install-order-observed" ++
       (* reported only when the runs agree: a difference between the runs is the violation below *)
       tag_if (orders_same && negb (forallb (list_eqb String.eqb mo) (f_orders c))) "mismatch:install-order-differs-from-model"
   end) ++
  if orders_same then
    tag_if (negb digests_same) "viol:digest-differs/install-if-configuration-with-identical-install-order"
  else
    if String.eqb (f_kind c) "cli-build" && digests_same
    then ["mismatch:install-orders-differ-but-image-digests-are-equal"]
    else ["viol:digest-differs/install-if-order"].

(* ---- canonicalisers, build date, schedule against the real functions ------- *)
Inductive canon_case :=
| KInit (pkgs extra brepos rrepos xbrepos xrrepos keyring xkeys : list string)
        (o_world o_build_repos o_runtime_repos : string) (o_keys : list string)
| KEnv (env : list (string * string)) (o_env : list string)
| KArchs (ord o_archs : list string)
| KReadDir (created o_names : list string)
| KGroups (by_origin : list (N * list string)) (o_groups : list (N * string * list string))
| KBde (flag : Z) (env : option (option Z)) (times : list Z) (o_bde : Z)
| KSched (n : nat) (bad : option nat) (completion : list nat) (o_ok : bool) (o_installed : list string).

Definition slash : ascii := ascii_of_nat 47.
Fixpoint base_aux (s acc : string) : string :=
  match s with
  | EmptyString => acc
  | String c t => if Ascii.eqb c slash then base_aux t EmptyString else base_aux t (acc ++ String c EmptyString)%string
  end.
Definition basename (s : string) : string := base_aux s EmptyString.

Definition strs_eqb := list_eqb String.eqb.

Definition check_canon (c : canon_case) : list string :=
  match c with
  | KInit pkgs extra br rr xb xr kr xk o_world o_brepos o_rrepos o_keys =>
      tag_if (negb (String.eqb (world_file pkgs extra []) o_world)) "mismatch:world-file" ++
      tag_if (negb (String.eqb (lines_file (canon_build_repos br rr xb xr)) o_brepos)) "mismatch:build-repositories-file" ++
      tag_if (negb (String.eqb (repositories_file rr xr) o_rrepos)) "mismatch:runtime-repositories-file" ++
      tag_if (negb (strs_eqb (List.map fst (keys_dir (List.map (fun k => (basename k, k)) (canon_keyring kr xk)))) o_keys)) "mismatch:keys-directory" ++
      (* the validator on the observed files: sorted lines *)
      tag_if (negb (sortedb sleb (canon_world pkgs extra []))) "viol:world-not-sorted"
  | KEnv env o_env =>
      tag_if (negb (strs_eqb (canon_env (env_with_defaults c01_env_defaults env)) o_env)) "mismatch:config-env" ++
      tag_if (negb (sortedb sleb o_env)) "viol:config-env-not-sorted"
  | KArchs ord o_archs =>
      tag_if (negb (strs_eqb (canon_archs ord) o_archs)) "mismatch:index-architecture-order" ++
      tag_if (negb (sortedb sleb o_archs)) "viol:index-architectures-not-sorted"
  | KReadDir created o_names =>
      tag_if (negb (strs_eqb (canon_readdir created) o_names)) "mismatch:readdir-order" ++
      tag_if (negb (sortedb sleb o_names)) "viol:readdir-not-sorted"
  | KGroups by_origin o_groups =>
      let ord := List.map (fun sn => {| g_size := fst sn; g_tiebreaker := tiebreaker_of (snd sn); g_pkgs := canon_group_pkgs (snd sn) |}) by_origin in
      let expect := List.map (fun g => (g_size g, g_tiebreaker g, g_pkgs g)) (canon_groups ord) in
      tag_if (negb (list_eqb (fun a b => N.eqb (fst (fst a)) (fst (fst b)) && String.eqb (snd (fst a)) (snd (fst b)) && strs_eqb (snd a) (snd b)) expect o_groups))
        "mismatch:layer-groups"
  | KBde flag env times o =>
      tag_if (negb (Z.eqb (build_date_epoch flag env times) o)) "mismatch:build-date-epoch"
  | KSched n bad completion o_ok o_installed =>
      let names := List.map (fun i => ("p" ++ digit i)%string) (seq 0 n) in
      let expand := fun p : string => match bad with Some b => if String.eqb p ("p" ++ digit b)%string then None else Some p | None => Some p end in
      let install := fun (st : list string) (_ : nat) (p e : string) => Some (st ++ [e]) in
      match outcome string string (list string) expand install names [] (List.map Done completion) with
      | Some st => tag_if (negb o_ok) "mismatch:model-installs-impl-fails" ++
                   (if o_ok then tag_if (negb (strs_eqb st o_installed)) "mismatch:installed-order" else [])
      | None => tag_if o_ok "mismatch:model-fails-impl-installs"
      end
  end.
