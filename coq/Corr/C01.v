(* C01 correspondence: digests of real builds judged by the validator, and
   the canonicaliser / schedule models compared with the real functions. *)
From Apko Require Export Base.Prelude Base.C01Lib Model.Repro Spec.ReproSpec Generated.C01Calls.
From Apko Require Export Model.BuildSteps Generated.C10Steps Model.Repro2.
From Apko Require Model.Resolver.
Open Scope string_scope. Open Scope list_scope.

(* ---- the build matrix ------------------------------------------------------
   One case = one real build compared with the reference build of its group
   (same configuration, same output mode, same SOURCE_DATE_EPOCH setting).
   b_ref / b_got: (role, sha256) of every artefact, roles in a fixed order.
   For output tarballs: b_members = the member names in archive order,
   b_images = per index entry the config member and the layer members,
   b_manifests = the image manifests BuildIndex appends, in index order. *)
Record build_case := {
  b_cfg : string; b_dim : string; b_group : string;
  b_ref : artifacts; b_got : artifacts; b_failed : bool;
  b_members : list string; b_images : list timg; b_manifests : list string;
  (* the dates the build shows: b_date0 = the configured date (SOURCE_DATE_EPOCH of the cell, 0 when unset: the
     default of --build-date), b_arch_created = org.opencontainers.image.created of every image manifest in index
     order, b_index_created = the same annotation of the index ([] = this output mode shows no index) *)
  b_date0 : Z; b_arch_created : list Z; b_index_created : list Z
}.

Definition str_in (x : string) (l : list string) : bool := existsb (String.eqb x) l.

(* roles that only reflect the ORDER of the output tarball's members *)
Definition order_only_roles : list string := ["tarball-member-order"; "output-tarball"].

(* roles that differ when an output tarball written over a LONGER earlier file keeps that file's tail: the length and
   the hash of the whole file — while the index, the member set and order, and the first bytes (as many as the fresh
   file has: role output-tarball-first-bytes) are those of the fresh build *)
Definition tail_only_roles : list string := ["output-tarball-length"; "output-tarball"].

Definition check_build (c : build_case) : list string :=
  if b_failed c then [("viol:build-fails/" ++ b_dim c)%string]
  else
    (* the model of the archive order: some iteration order of the image map *)
    (match b_members c with
     | [] => []
     | ms => tag_if (negb (existsb (fun ord => list_eqb String.eqb (tar_members ord (b_manifests c)) ms) (perms (b_images c))))
               "mismatch:tarball-member-order-is-not-a-map-order"
     end) ++
    (* the date of the index: the generated fold of buildImageComponents over the per-architecture dates
       (any completion order gives the model's value, see c01_bde_multiarch), and it is the latest of them *)
    (match b_index_created c with
     | [] => []
     | d :: _ =>
         tag_if (negb (match multi_arch_date c01_multiarch_fold (b_date0 c) (b_arch_created c) with
                       | Some m => Z.eqb m d | None => false end)) "mismatch:index-date-differs-from-model" ++
         (* the validator asks only what the property does: the date comes from the configuration or from
            a package (through an architecture's date), not from anywhere else (the clock) *)
         tag_if (negb (existsb (Z.eqb d) (b_date0 c :: b_arch_created c))) "viol:index-date-is-neither-configured-nor-an-architecture-date"
     end) ++
    match differing (b_ref c) (b_got c) with
    | [] => []
    | r :: rest =>
        if forallb (fun x => str_in x order_only_roles) (r :: rest)
        then ["viol:digest-differs/output-tarball-member-order"]
        else if forallb (fun x => str_in x tail_only_roles) (r :: rest) && str_in "output-tarball-length" (r :: rest)
        then ["viol:digest-differs/output-tarball-keeps-the-tail-of-an-earlier-file"]
        else [("viol:digest-differs/" ++ b_dim c ++ ";first-differing-artifact=" ++ r)%string]
    end.

(* ---- install_if (was finding C01-F1, fixed by c03e0c0) -------------------------
   One model: Model/Resolver.v (versioned install_if entries included).  f_univ is
   the universe of the harness in index order, f_world the requested packages.
   f_orders: the distinct install orders observed (resolver in process, or
   lib/apk/db/installed of repeated identical CLI builds); f_digests: image manifest
   digest of every CLI build.  Every observed order must EQUAL the model's one
   order, and repeated runs must agree. *)
Record installif_case := { f_kind : string; f_univ : list Resolver.pkg; f_world : list string;
                           f_orders : list (list string); f_digests : list string }.
(* name version origin dependencies install_if *)
Definition RP (n v o : string) (deps iif : list string) : Resolver.pkg :=
  Resolver.Build_pkg n v o deps [] iif 0%N "" "".
Definition digit (i : nat) : string :=
  match i with 0 => "0" | 1 => "1" | 2 => "2" | 3 => "3" | 4 => "4" | 5 => "5" | 6 => "6" | 7 => "7" | 8 => "8" | _ => "9" end.

Definition pid_name (U : list Resolver.pkg) (i : nat) : string := Resolver.p_name (nth i U Resolver.dummy_pkg).
Definition pid_locked (U : list Resolver.pkg) (i : nat) : string :=
  (Resolver.p_name (nth i U Resolver.dummy_pkg) ++ "=" ++ Resolver.p_version (nth i U Resolver.dummy_pkg))%string.

(* `apko build` resolves twice: the configured world is locked first and the build
   context resolves the LOCKED world — every member as name=version, sorted
   (SetWorld's sort.Strings) — with the same resolver. *)
Definition model_order (c : installif_case) : option (list string) :=
  match Resolver.resolve (f_univ c) (f_world c) [] with
  | Ok l =>
      if String.eqb (f_kind c) "cli-build" then
        match Resolver.resolve (f_univ c) (ssort (List.map (pid_locked (f_univ c)) l)) [] with
        | Ok l2 => Some (List.map (pid_name (f_univ c)) l2)
        | _ => None
        end
      else Some (List.map (pid_name (f_univ c)) l)
  | _ => None
  end.

Fixpoint all_same {A} (eqb : A -> A -> bool) (l : list A) : bool :=
  match l with
  | x :: ((y :: _) as t) => eqb x y && all_same eqb t
  | _ => true
  end.

Definition check_installif (c : installif_case) : list string :=
  let orders_same := all_same (list_eqb String.eqb) (f_orders c) in
  let digests_same := all_same String.eqb (f_digests c) in
  (match model_order c with
   | None => ["mismatch:install-if-model-does-not-resolve"]
   | Some mo =>
       tag_if (match f_orders c with [] => true | _ => false end) "mismatch:harness-shape/no-install-order-observed" ++
       (* reported only when the runs agree: a difference between the runs is the violation below *)
       tag_if (orders_same && negb (forallb (list_eqb String.eqb mo) (f_orders c))) "mismatch:install-order-differs-from-model"
   end) ++
  if orders_same then
    tag_if (negb digests_same) "viol:digest-differs/install-if-configuration-with-identical-install-order"
  else
    if String.eqb (f_kind c) "cli-build" && digests_same
    then ["mismatch:install-orders-differ-but-image-digests-are-equal"]
    else ["viol:digest-differs/install-if-order"].

(* ---- canonicalisers, build date, schedule against the real functions ------- *)
Inductive canon_case :=
| KInit (pkgs extra brepos rrepos xbrepos xrrepos keyring xkeys : list string)
        (o_world o_build_repos o_runtime_repos : string) (o_keys : list string)
| KEnv (env : list (string * string)) (o_env : list string)
| KArchs (ord o_archs : list string)
| KReadDir (created o_names : list string)
| KGroups (by_origin : list (N * list string)) (o_groups : list (N * string * list string))
| KBde (flag : Z) (env : option (option Z)) (times : list Z) (o_bde : Z)
| KSched (n : nat) (bad : option nat) (completion : list nat) (o_ok : bool) (o_installed : list string)
(* InstallPackages under GOMAXPROCS = jobs: the packages are released in [completion] order; o_starts = for every
   request that reached the server, (package index, responses completed before it arrived) *)
| KLimit (jobs n : nat) (completion : list nat) (o_starts : list (nat * nat)) (o_ok : bool) (o_installed : list string).

Definition slash : ascii := ascii_of_nat 47.
Fixpoint base_aux (s acc : string) : string :=
  match s with
  | EmptyString => acc
  | String c t => if Ascii.eqb c slash then base_aux t EmptyString else base_aux t (acc ++ String c EmptyString)%string
  end.
Definition basename (s : string) : string := base_aux s EmptyString.

Definition strs_eqb := list_eqb String.eqb.

Definition check_canon (c : canon_case) : list string :=
  match c with
  | KInit pkgs extra br rr xb xr kr xk o_world o_brepos o_rrepos o_keys =>
      tag_if (negb (String.eqb (world_file pkgs extra []) o_world)) "mismatch:world-file" ++
      tag_if (negb (String.eqb (lines_file (canon_build_repos br rr xb xr)) o_brepos)) "mismatch:build-repositories-file" ++
      tag_if (negb (String.eqb (repositories_file rr xr) o_rrepos)) "mismatch:runtime-repositories-file" ++
      tag_if (negb (strs_eqb (List.map fst (keys_dir (List.map (fun k => (basename k, k)) (canon_keyring kr xk)))) o_keys)) "mismatch:keys-directory" ++
      (* the validator on the observed files: sorted lines *)
      tag_if (negb (sortedb sleb (canon_world pkgs extra []))) "viol:world-not-sorted"
  | KEnv env o_env =>
      tag_if (negb (strs_eqb (canon_env (env_with_defaults c01_env_defaults env)) o_env)) "mismatch:config-env" ++
      tag_if (negb (sortedb sleb o_env)) "viol:config-env-not-sorted"
  | KArchs ord o_archs =>
      tag_if (negb (strs_eqb (canon_archs ord) o_archs)) "mismatch:index-architecture-order" ++
      tag_if (negb (sortedb sleb o_archs)) "viol:index-architectures-not-sorted"
  | KReadDir created o_names =>
      tag_if (negb (strs_eqb (canon_readdir created) o_names)) "mismatch:readdir-order" ++
      tag_if (negb (sortedb sleb o_names)) "viol:readdir-not-sorted"
  | KGroups by_origin o_groups =>
      let ord := List.map (fun sn => {| g_size := fst sn; g_tiebreaker := tiebreaker_of (snd sn); g_pkgs := canon_group_pkgs (snd sn) |}) by_origin in
      let expect := List.map (fun g => (g_size g, g_tiebreaker g, g_pkgs g)) (canon_groups ord) in
      tag_if (negb (list_eqb (fun a b => N.eqb (fst (fst a)) (fst (fst b)) && String.eqb (snd (fst a)) (snd (fst b)) && strs_eqb (snd a) (snd b)) expect o_groups))
        "mismatch:layer-groups"
  | KBde flag env times o =>
      (* the generated fold of GetBuildDateEpoch *)
      tag_if (negb (match build_date c01_bde_fold flag env times with Some m => Z.eqb m o | None => false end)) "mismatch:build-date-epoch"
  | KSched n bad completion o_ok o_installed =>
      let names := List.map (fun i => ("p" ++ digit i)%string) (seq 0 n) in
      let expand := fun p : string => match bad with Some b => if String.eqb p ("p" ++ digit b)%string then None else Some p | None => Some p end in
      let install := fun (st : list string) (_ : nat) (p e : string) => Some (st ++ [e]) in
      match outcome string string (list string) expand install names [] (List.map Done completion) with
      | Some st => tag_if (negb o_ok) "mismatch:model-installs-impl-fails" ++
                   (if o_ok then tag_if (negb (strs_eqb st o_installed)) "mismatch:installed-order" else [])
      | None => tag_if o_ok "mismatch:model-fails-impl-installs"
      end
  | KLimit jobs n completion o_starts o_ok o_installed =>
      let names := List.map (fun i => ("p" ++ digit i)%string) (seq 0 n) in
      let install := fun (st : list string) (_ : nat) (p e : string) => Some (st ++ [e]) in
      (match outcome string string (list string) (fun p => Some p) install names [] (List.map Done completion) with
       | Some st => tag_if (negb o_ok) "mismatch:model-installs-impl-fails" ++
                    (if o_ok then tag_if (negb (strs_eqb st o_installed)) "mismatch:installed-order" else [])
       | None => tag_if o_ok "mismatch:model-fails-impl-installs"
       end) ++
      (* c01_install_limit_removes (start): expansion i is started only while fewer than the limit run, the
         installer (alive: no expansion fails here) being one of them: i + 1 < completed + limit *)
      match install_limit c01_install_limit_extra jobs with
      | None => []
      | Some L => tag_if (negb (forallb (fun ip => Nat.ltb (fst ip + 1) (snd ip + L)) o_starts)) "mismatch:expansion-started-beyond-the-limit-of-the-group"
      end
  end.

(* ---- an image on a base image (baseimage stage) ------------------------------------
   bi_cfg: the four repository lists of the configuration; bi_root: the directory
   below which the runs keep their temp directories; per run: its temp directory,
   the lines of etc/apk/repositories after build.New (initializeApk), the lines of
   that file inside the layer, the layer digest. *)
Record base_run := { br_tmp : string; br_build_time : list string; br_final : list string; br_digest : string }.
Record base_case := { bi_arch : string; bi_cfg : repo_cfg; bi_root : string; bi_runs : list base_run }.

Definition check_base (c : base_case) : list string :=
  let finals := List.map br_final (bi_runs c) in
  flat_map (fun r =>
    (* the model of initializeApk, given the path it appended (the last line), which lies below the temp directory *)
    let p := last (br_build_time r) "" in
    tag_if (negb (match init_repos c01_init_repo_sources c01_init_repo_appends (bi_cfg c) (Some p) with
                  | Some l => strs_eqb l (br_build_time r) | None => false end)) "mismatch:base-image-build-time-repositories" ++
    tag_if (negb (is_prefix (br_tmp r) p)) "mismatch:base-image-index-is-not-below-the-temp-directory" ++
    (* the model of the build steps (generated lists of C10) from that file *)
    tag_if (negb (match final_repos c10_steps c10_setrepos_sources (single_layer_cond c10_steps) (bi_cfg c) (br_build_time r) with
                  | Some (Ok l) => strs_eqb l (br_final r) | _ => false end)) "mismatch:base-image-final-repositories" ++
    (* the validator: nothing of the temp directory in the image *)
    tag_if (existsb (is_infix (bi_root c)) (br_final r)) "viol:digest-differs/base-image-temp-path-in-repositories") (bi_runs c) ++
  tag_if (negb (all_same strs_eqb finals)) "viol:digest-differs/base-image-temp-path-in-repositories" ++
  tag_if (all_same strs_eqb finals && negb (all_same String.eqb (List.map br_digest (bi_runs c)))) "viol:digest-differs/base-image-tempdir".

