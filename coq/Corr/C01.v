(* C01 correspondence: digests of real builds judged by the validator, and
   the canonicaliser / schedule models compared with the real functions. *)
From Apko Require Export Base.Prelude Base.C01Lib Model.Repro Spec.ReproSpec Generated.C01Calls.
Open Scope string_scope. Open Scope list_scope.

(* ---- the build matrix ------------------------------------------------------
   One case = one real build compared with the reference build of its group
   (same configuration, same output mode, same SOURCE_DATE_EPOCH setting).
   b_ref / b_got: (role, sha256) of every artefact, roles in a fixed order.
   For output tarballs: b_members = the member names in archive order,
   b_images = per index entry the config member and the layer members,
   b_manifests = the image manifests BuildIndex appends, in index order. *)
Record build_case := {
  b_cfg : string; b_dim : string; b_group : string;
  b_ref : artifacts; b_got : artifacts; b_failed : bool;
  b_members : list string; b_images : list timg; b_manifests : list string
}.

Definition str_in (x : string) (l : list string) : bool := existsb (String.eqb x) l.

(* roles that only reflect the ORDER of the output tarball's members *)
Definition order_only_roles : list string := ["tarball-member-order"; "output-tarball"].

Definition check_build (c : build_case) : list string :=
  if b_failed c then [("viol:build-fails/" ++ b_dim c)%string]
  else
    (* the model of the archive order: some iteration order of the image map *)
    (match b_members c with
     | [] => []
     | ms => tag_if (negb (existsb (fun ord => list_eqb String.eqb (tar_members ord (b_manifests c)) ms) (perms (b_images c))))
               "mismatch:tarball-member-order-is-not-a-map-order"
     end) ++
    match differing (b_ref c) (b_got c) with
    | [] => []
    | r :: rest =>
        if forallb (fun x => str_in x order_only_roles) (r :: rest)
        then ["viol:digest-differs/output-tarball-member-order"]
        else [("viol:digest-differs/" ++ b_dim c ++ ";first-differing-artifact=" ++ r)%string]
    end.
