(* C02 (and, through Corr/C14.v, C14) correspondence: universes with the
   results the REAL PkgResolver.GetPackagesWithDependencies returned, compared
   with Model/Resolver.v and judged by the validators of Spec/ResolveSpec.v. *)
From Apko Require Export Base.Prelude Model.Version Model.Resolver Spec.ResolveSpec.
Open Scope string_scope. Open Scope list_scope.

(* one call of GetPackagesWithDependencies *)
Record run := {
  u_arch : nat;                        (* which architecture's resolver (index into c_archs) *)
  u_world : list string;
  u_multi : bool;                      (* true: allArchs = every architecture of the case; false: allArchs = nil *)
  u_obs : option (list nat);           (* Some pids (positions in that architecture's flattened universe) / None = error *)
  u_obs_plain : option (option (list nat))   (* single-architecture cases: the same call with allArchs = nil *)
}.
Record rcase := { c_archs : list (string * universe); c_runs : list run }.
(* short constructors used by the harness printer *)
Definition P := Build_pkg.
Definition Rn := Build_run.

(* ---- finding a schedule for the install_if loops --------------------------------
   Untrusted helper: it only PROPOSES schedules; the comparison below runs the
   model's own [resolve_with] on them and checks that they are legal. *)
Fixpoint subperms (fuel : nat) (T : list string) : list (list string) :=
  match fuel with
  | O => [[]]
  | S f => [] :: flat_map (fun x => List.map (cons x) (subperms f (List.filter (fun y => negb (String.eqb x y)) T))) T
  end.

Definition triggers (R : resolver) : list string :=
  nodup string_dec (flat_map (fun k => flat_map (fun d => [s_name d; s_raw d]) (k_iifs k)) (r_pkgs R)).

Fixpoint is_prefix_nat (a b : list nat) : bool :=
  match a, b with
  | [], _ => true
  | x :: a', y :: b' => Nat.eqb x y && is_prefix_nat a' b'
  | _ :: _, [] => false
  end.

Fixpoint first_some {A B} (f : A -> option B) (l : list A) : option B :=
  match l with
  | [] => None
  | x :: t => match f x with Some y => Some y | None => first_some f t end
  end.

Fixpoint dedupe_outcomes (l : list (list string * list pid)) (seen : list (list pid)) : list (list string * list pid) :=
  match l with
  | [] => []
  | (s, d) :: t => if existsb (list_eqb Nat.eqb d) seen then dedupe_outcomes t seen
                   else (s, d) :: dedupe_outcomes t (d :: seen)
  end.

Fixpoint search (R : resolver) (T : list string) (ws : list cstr) (dq : list pid) (sel : list (string * pid))
    (acc : list pid * list string * list (string * pid)) (target : option (list pid))
    (trail : list (list string)) : option (list (list string)) :=
  match ws with
  | [] => match target with
          | Some t => if list_eqb Nat.eqb (fst (fst acc)) t then Some (rev trail) else None
          | None => None
          end
  | w :: ws' =>
      match get_pkg_core R w dq sel (snd acc) with
      | Ok (dq', sel', i, l, added) =>
          let init := List.map fst added in
          let inert := List.filter (fun k => negb (mem_str k T)) init in
          let need := List.filter (fun k => mem_str k T) init in
          let scheds := List.filter (fun s => forallb (fun k => mem_str k s) need) (subperms (List.length T) T) in
          let outcomes := dedupe_outcomes (List.map (fun s => (inert ++ s, iif_loop R (inert ++ s) l added)) scheds) [] in
          first_some (fun sd =>
            let acc' := track R i (fold_left (fun a j => track R j a) (snd sd) acc) in
            if match target with Some t => is_prefix_nat (fst (fst acc')) t | None => true end
            then search R T ws' dq' sel' acc' target (fst sd :: trail) else None) outcomes
      | Err => match target with None => Some (rev trail) | Some _ => None end
      | _ => None
      end
  end.

Definition find_scheds (R : resolver) (world : list string) (dq0 : list pid) (target : option (list pid)) : option (list (list string)) :=
  let cw := List.map cook_dep world in
  let ws := List.map d_pos cw in
  match constrain R cw dq0 with
  | Ok dq1 =>
      match phase1 (List.length ws) R ws dq1 [] with
      | Ok (dq2, depmap) => search R (triggers R) ws dq2 [] ([], [], depmap) target []
      | Err => match target with None => Some [] | Some _ => None end
      | _ => None
      end
  | Err => match target with None => Some [] | Some _ => None end
  | _ => None
  end.

(* every proposed schedule must be one a Go execution can follow *)
Fixpoint scheds_legal (R : resolver) (ws : list cstr) (scheds : list (list string)) (dq : list pid)
    (sel : list (string * pid)) (acc : list pid * list string * list (string * pid)) : bool :=
  match ws with
  | [] => true
  | w :: ws' =>
      match get_pkg_core R w dq sel (snd acc) with
      | Ok (dq', sel', i, l, added) =>
          legal_sched_b (List.map fst added) (hd [] scheds) &&
          scheds_legal R ws' (tl scheds) dq' sel'
            (track R i (fold_left (fun a j => track R j a) (iif_loop R (hd [] scheds) l added) acc))
      | _ => true
      end
  end.

Definition res_eqb (m : res (list pid)) (o : option (list nat)) : bool :=
  match m, o with
  | Ok l, Some l' => list_eqb Nat.eqb l l'
  | Err, None => true
  | _, _ => false
  end.

(* model vs implementation for one call; returns mismatch tags *)
Definition compare_run (R : resolver) (world : list string) (dq0 : list pid) (obs : option (list nat)) : list string :=
  match r_iif R with
  | [] =>
      (* no install_if anywhere: the schedules are irrelevant *)
      match resolve_with R world dq0 [], obs with
      | Ok l, Some l' => tag_if (negb (list_eqb Nat.eqb l l')) "mismatch:install-list"
      | Err, None => []
      | Ok _, None => ["mismatch:model-ok-impl-error"]
      | Err, Some _ => ["mismatch:model-error-impl-ok"]
      | Panic, _ => ["mismatch:model-panics"]
      | OutOfFuel, _ => ["mismatch:model-out-of-fuel"]
      end
  | _ =>
      match find_scheds R world dq0 obs with
      | None =>
          match resolve_with R world dq0 [], obs with
          | Ok _, None => ["mismatch:model-ok-impl-error"]
          | Err, Some _ => ["mismatch:model-error-impl-ok"]
          | Panic, _ => ["mismatch:model-panics"]
          | OutOfFuel, _ => ["mismatch:model-out-of-fuel"]
          | _, _ => ["mismatch:install-list/no-schedule-reproduces-it"]
          end
      | Some scheds =>
          tag_if (negb (res_eqb (resolve_with R world dq0 scheds) obs)) "mismatch:install-list/proposed-schedule-fails" ++
          tag_if (negb (let cw := List.map cook_dep world in
                        let ws := List.map d_pos cw in
                        match constrain R cw dq0 with
                        | Ok dq1 => match phase1 (List.length ws) R ws dq1 [] with
                                    | Ok (dq2, depmap) => scheds_legal R ws scheds dq2 [] ([], [], depmap)
                                    | _ => true
                                    end
                        | _ => true
                        end)) "mismatch:install-list/schedule-not-legal"
      end
  end.

Definition in_range (R : resolver) (o : option (list nat)) : bool :=
  match o with Some l => forallb (fun i => Nat.ltb i (List.length (r_pkgs R))) l | None => true end.

(* the C02 validator on the IMPLEMENTATION's result *)
Definition validate_run (R : resolver) (world : list string) (obs : option (list nat)) : list string :=
  match obs with
  | None => []
  | Some l =>
      let tags := closed_check_c (r_pkgs R) (List.map cook_str world) (List.map (getp R) l) in
      let pre := if envelope_c R (List.map cook_dep world) then "viol:in-envelope/" else "viol:" in
      List.map (String.append pre) (nodup string_dec tags)
  end.

Definition prepare (c : rcase) : list resolver * list (string * pid) :=
  (List.map (fun au => new_resolver (snd au)) (c_archs c), disqualify_difference (c_archs c)).

Definition dq0_of (c : rcase) (dqs : list (string * pid)) (r : run) : list pid :=
  if u_multi r then
    let a := fst (nth (u_arch r) (c_archs c) ("", [])) in
    List.map snd (List.filter (fun ai => String.eqb (fst ai) a) dqs)
  else [].

Definition empty_resolver : resolver := new_resolver [].

Definition check_c02 (c : rcase) : list string :=
  let '(Rs, dqs) := prepare c in
  nodup string_dec (flat_map (fun r =>
    let R := nth (u_arch r) Rs empty_resolver in
    if negb (in_range R (u_obs r)) then ["mismatch:harness-pid-out-of-range"] else
    compare_run R (u_world r) (dq0_of c dqs r) (u_obs r) ++ validate_run R (u_world r) (u_obs r)) (c_runs c)).
