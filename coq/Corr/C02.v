(* C02 (and, through Corr/C14.v, C14) correspondence: universes with the
   results the REAL PkgResolver.GetPackagesWithDependencies returned, compared
   with Model/Resolver.v and judged by the validators of Spec/ResolveSpec.v. *)
From Apko Require Export Base.Prelude Model.Version Model.Resolver Spec.ResolveSpec Spec.ResolveMultiSpec.
Open Scope string_scope. Open Scope list_scope.

(* one call of GetPackagesWithDependencies *)
Record run := {
  u_arch : nat;                        (* which architecture's resolver (index into c_archs) *)
  u_world : list string;
  u_multi : bool;                      (* true: allArchs = every architecture of the case; false: allArchs = nil *)
  u_obs : option (list nat);           (* Some pids (positions in that architecture's flattened universe) / None = error *)
  u_obs_plain : option (option (list nat))   (* single-architecture cases: the same call with allArchs = nil *)
}.
Record rcase := { c_archs : list (string * universe); c_runs : list run }.
(* short constructors used by the harness printer *)
Definition P := Build_pkg.
Definition Rn := Build_run.

(* model vs implementation for one call; returns mismatch tags.  The model is
   a function of (resolver, world, dq0) — since fix c03e0c0 the install_if loop
   has no iteration-order freedom — so the implementation's ordered list must
   EQUAL it, with or without install_if packages.  (Until then the comparison
   searched for a legal visit schedule of the map-range loop reproducing the
   observed list.) *)
Definition compare_run (R : resolver) (world : list string) (dq0 : list pid) (obs : option (list nat)) : list string :=
  match resolve_with R world dq0, obs with
  | Ok l, Some l' =>
      tag_if (negb (list_eqb Nat.eqb l l'))
        (match r_iif R with [] => "mismatch:install-list" | _ => "mismatch:install-list/universe-with-install-if" end)
  | Err, None => []
  | Ok _, None => ["mismatch:model-ok-impl-error"]
  | Err, Some _ => ["mismatch:model-error-impl-ok"]
  | Panic, _ => ["mismatch:model-panics"]
  | OutOfFuel, _ => ["mismatch:model-out-of-fuel"]
  end.

Definition in_range (R : resolver) (o : option (list nat)) : bool :=
  match o with Some l => forallb (fun i => Nat.ltb i (List.length (r_pkgs R))) l | None => true end.

(* the C02 validator on the IMPLEMENTATION's result *)
Definition validate_run (R : resolver) (world : list string) (obs : option (list nat)) : list string :=
  match obs with
  | None => []
  | Some l =>
      let tags := closed_check_c (r_pkgs R) (List.map cook_str world) (List.map (getp R) l) in
      let pre := if envelope_c R (List.map cook_dep world) then "viol:in-envelope/" else "viol:" in
      List.map (String.append pre) (nodup string_dec tags)
  end.

(* session 6: the same, plus (1) the wider envelope of c02_closed_multi_version — there, too, ANY failure of the
   closure validator on the implementation's list is a VIOLATION (tag prefix in-multi-envelope/), and so is a member
   that is not the winner of its name (the theorem's second conclusion); (2) the conflict clause
   (Spec.ResolveMultiSpec.ConflictFree) on the implementation's list, tags conflict/... *)
Definition validate_run2 (R : resolver) (world : list string) (dq0 : list pid) (obs : option (list nat)) : list string :=
  match obs with
  | None => []
  | Some l =>
      let S := List.map (getp R) l in
      let cw := List.map cook_dep world in
      let tags := nodup string_dec (closed_check_c (r_pkgs R) (List.map cook_str world) S) in
      (if envelope_c R cw then List.map (String.append "viol:in-envelope/") tags
       else if menvelope_c R cw && dq_ok_b R dq0
       then List.map (String.append "viol:in-multi-envelope/")
              (tags ++ (if forallb (is_winner R) l then [] else ["member-not-the-winner-of-its-name"]))
       else List.map (String.append "viol:") tags) ++
      List.map (String.append "viol:") (nodup string_dec (conflict_check_c S))
  end.

Definition prepare (c : rcase) : list resolver * list (string * pid) :=
  (List.map (fun au => new_resolver (snd au)) (c_archs c), disqualify_difference (c_archs c)).

Definition dq0_of (c : rcase) (dqs : list (string * pid)) (r : run) : list pid :=
  if u_multi r then
    let a := fst (nth (u_arch r) (c_archs c) ("", [])) in
    List.map snd (List.filter (fun ai => String.eqb (fst ai) a) dqs)
  else [].

Definition empty_resolver : resolver := new_resolver [].

Definition check_c02 (c : rcase) : list string :=
  let '(Rs, dqs) := prepare c in
  nodup string_dec (flat_map (fun r =>
    let R := nth (u_arch r) Rs empty_resolver in
    if negb (in_range R (u_obs r)) then ["mismatch:harness-pid-out-of-range"] else
    compare_run R (u_world r) (dq0_of c dqs r) (u_obs r) ++ validate_run2 R (u_world r) (dq0_of c dqs r) (u_obs r)) (c_runs c)).
