(* C03 correspondence and validators. *)
From Apko Require Export Base.Prelude Base.Regex Spec.VersionSpec Model.Version Model.VersionFilter Model.VersionFilterPins
  Generated.Regexes Generated.VersionConsts Generated.C03Version.
Open Scope string_scope. Open Scope list_scope. Open Scope Z_scope.

(* ---- a spec-side parser: same tokenizer, the spec's own suffix tables, no
   integer range limit — "what the grammar says the string denotes" -------- *)
Definition spec_pre_table : list (string * Z) :=
  [("_alpha", 0); ("_beta", 1); ("_pre", 2); ("_rc", 3); ("", 4)].
Definition spec_post_table : list (string * Z) :=
  [("_cvs", 1); ("_svn", 2); ("_git", 3); ("_hg", 4); ("_p", 5); ("", 0)].
Definition presuf_of_rank (z : Z) : presuf :=
  if z =? 0 then PAlpha else if z =? 1 then PBeta else if z =? 2 then PPre else if z =? 3 then PRC else PNone.
Definition postsuf_of_rank (z : Z) : postsuf :=
  if z =? 1 then SCVS else if z =? 2 then SSVN else if z =? 3 then SGit else if z =? 4 then SHG else if z =? 5 then SP else SNone.

Definition spec_parse (s : string) : option ver :=
  if matches apk_version_re (bytes_of_string s) then
    let f := tokenize_with spec_pre_table spec_post_table (bytes_of_string s) in
    Some {| nums := digits_value (f_first f) :: List.map digits_value (f_rest f);
            letter := f_letter f;
            pre := presuf_of_rank (f_pre f); pre_n := digits_value (f_pre_digits f);
            post := postsuf_of_rank (f_post f); post_n := digits_value (f_post_digits f);
            rev := digits_value (f_rev_digits f) |}
  else None.

Definition fits_int64 (v : ver) : bool :=
  forallb (fun x => x <=? max_int) (nums v) && (pre_n v <=? max_int) && (post_n v <=? max_int) && (rev v <=? max_int).

Definition sign (z : Z) : comparison := z ?= 0.
Definition comparison_eqb (a b : comparison) : bool :=
  match a, b with Eq, Eq | Lt, Lt | Gt, Gt => true | _, _ => false end.

(* ---- parse cases ---------------------------------------------------------- *)
Record obs_ver := { o_nums : list Z; o_letter : Z; o_pre : Z; o_pre_n : Z; o_post : Z; o_post_n : Z; o_rev : Z }.
Definition mver_eqb (m : mver) (o : obs_ver) : bool :=
  list_eqb Z.eqb (m_nums m) (o_nums o) && (m_letter m =? o_letter o) && (m_pre m =? o_pre o) &&
  (m_pre_n m =? o_pre_n o) && (m_post m =? o_post o) && (m_post_n m =? o_post_n o) && (m_rev m =? o_rev o).

Record parse_case := { p_str : string; p_obs : option obs_ver }.

Definition check_parse (c : parse_case) : list string :=
  (* validator: accepted iff the grammar matches *)
  (match spec_parse (p_str c), p_obs c with
   | Some v, None => if fits_int64 v then ["viol:grammar-valid-version-rejected"]
                     else ["viol:grammar-valid-version-rejected/component-above-int64"]
   | None, Some _ => ["viol:grammar-invalid-version-accepted"]
   | _, _ => []
   end) ++
  (* model vs implementation *)
  (match parse_version (p_str c), p_obs c with
   | Some m, Some o => tag_if (negb (mver_eqb m o)) "mismatch:parsed-fields"
   | None, None => []
   | Some _, None => ["mismatch:model-accepts-impl-rejects"]
   | None, Some _ => ["mismatch:model-rejects-impl-accepts"]
   end).

(* ---- compare cases: both strings were accepted by the implementation ------ *)
Record cmp_case := { k_a : string; k_b : string; k_obs : Z; k_obs_rev : Z }.

Definition check_cmp (c : cmp_case) : list string :=
  (match spec_parse (k_a c), spec_parse (k_b c) with
   | Some a, Some b =>
       tag_if (negb (comparison_eqb (sign (k_obs c)) (spec_cmp a b))) "viol:compare-disagrees-with-apk-order" ++
       tag_if (negb (comparison_eqb (sign (k_obs_rev c)) (CompOpp (spec_cmp a b)))) "viol:compare-not-antisymmetric"
   | _, _ => ["mismatch:harness-sent-ungrammatical-version"]
   end) ++
  (match parse_version (k_a c), parse_version (k_b c) with
   | Some a, Some b =>
       tag_if (negb (compare_versions a b =? k_obs c)) "mismatch:compare" ++
       tag_if (negb (compare_versions b a =? k_obs_rev c)) "mismatch:compare-reversed"
   | _, _ => ["mismatch:model-rejects-version"]
   end).

(* ---- constraint satisfaction: constraint assembled from known parts ------- *)
(* observed: 0 = false, 1 = true, 2 = error *)
Record sat_case := { s_name : string; s_op : string; s_cver : string; s_pin : string; s_ver : string; s_obs : Z;
                     (* what ResolvePackageNameVersionPin returned for the assembled string *)
                     s_rname : string; s_rver : string; s_rdep : Z; s_rpin : string;
                     s_clean : bool (* parts are in the unambiguous envelope *) }.

Definition assemble (c : sat_case) : string :=
  s_name c ++ s_op c ++ s_cver c ++ (if String.eqb (s_pin c) "" then "" else "@" ++ s_pin c).

Definition check_sat (c : sat_case) : list string :=
  let full := assemble c in
  let m := resolve_constraint full in
  (* model vs implementation on the split *)
  tag_if (negb (String.eqb (c_name m) (s_rname c) && String.eqb (c_version m) (s_rver c) &&
                (c_dep m =? s_rdep c) && String.eqb (c_pin m) (s_rpin c))) "mismatch:resolve-constraint" ++
  (* validator: a constraint assembled from clean parts splits into those parts *)
  (if s_clean c then
     tag_if (negb (String.eqb (s_rname c) (s_name c) && String.eqb (s_rver c) (s_cver c) && String.eqb (s_rpin c) (s_pin c)))
       "viol:constraint-split-loses-parts"
   else []) ++
  (* validator: the operator accepts exactly what the order dictates *)
  (if s_clean c then
     match spec_parse (s_ver c), spec_parse (s_cver c) with
     | Some a, Some r =>
         if fits_int64 a && fits_int64 r then
           tag_if (negb (s_obs c =? (if spec_sat (vop_of_string (s_op c)) a r then 1 else 0)))
             "viol:operator-disagrees-with-apk-order"
         else []
     | _, _ => []
     end
   else []) ++
  (* validator: a constraint whose version (as the implementation itself split it
     out) is not a version by the grammar dictates nothing: no version may be
     accepted under it (c03_satisfied_by_edges: the model answers with the error) *)
  (if negb (String.eqb (s_rver c) "") then
     match spec_parse (s_rver c) with
     | None => tag_if (s_obs c =? 1) "viol:ungrammatical-constraint-version-accepts"
     | Some _ => []
     end
   else []) ++
  (* model vs implementation on the verdict *)
  (match parse_version (s_ver c) with
   | Some v =>
       let want := match satisfied_by m v with Some true => 1 | Some false => 0 | None => 2 end in
       tag_if (negb (want =? s_obs c)) "mismatch:satisfied-by"
   | None => ["mismatch:model-rejects-actual-version"]
   end).

(* ---- raw resolve cases (malformed stream) ---------------------------------- *)
Record res_case := { r_str : string; r_name : string; r_ver : string; r_dep : Z; r_pin : string }.
(* validator, independent of packageNameRegex: a raw string that IS  name op version [@pin]  with clean parts (a non-empty
   name without @ = > < ~, a non-empty operator run, a non-empty version without @, an optional alphanumeric pin; so: names
   aside, their version is rescaled) must come back as exactly those parts (c03_constraint_split) *)
Definition is_alnum_b (c : N) : bool := (((48 <=? c) && (c <=? 57)) || ((65 <=? c) && (c <=? 90)) || ((97 <=? c) && (c <=? 122)))%N.
Definition clean_parts (s : list N) : option (list N * list N * list N * list N) :=
  let (name, r1) := span is_namechar s in
  let (ops, r2) := span is_opchar r1 in
  let (v, r3) := span not_at r2 in
  match name, ops, v with
  | _ :: _, _ :: _, _ :: _ =>
      match r3 with
      | [] => Some (name, ops, v, [])
      | _ :: pin => match pin with
                    | [] => None
                    | _ => if forallb is_alnum_b pin then Some (name, ops, v, pin) else None
                    end
      end
  | _, _, _ => None
  end.

Definition check_res (c : res_case) : list string :=
  let m := resolve_constraint (r_str c) in
  (match strip_prefix (bytes_of_string "so:") (bytes_of_string (r_str c)), clean_parts (bytes_of_string (r_str c)) with
   | None, Some (name, ops, v, pin) =>
       tag_if (negb (String.eqb (r_name c) (string_of_bytes name) && String.eqb (r_ver c) (string_of_bytes v) &&
                     String.eqb (r_pin c) (string_of_bytes pin) && (r_dep c =? dep_of_matcher (string_of_bytes ops))))
         "viol:constraint-split-loses-parts"
   | _, _ => []
   end) ++
  tag_if (negb (String.eqb (c_name m) (r_name c) && String.eqb (c_version m) (r_ver c) &&
                (c_dep m =? r_dep c) && String.eqb (c_pin m) (r_pin c))) "mismatch:resolve-constraint".

(* ---- filterPackages on one candidate (the resolver's operator dispatch) ---- *)
(* f_own: the candidate carries the constraint's name itself; f_provs: its provides
   (full strings).  f_obs: did the real filterPackages let it through. *)
Record flt_case := { f_name : string; f_op : string; f_cver : string; f_ver : string; f_provs : list string;
                     f_obs : bool; f_clean : bool }.

(* the version a provide carries: read off the string itself when it has clean parts (independent of packageNameRegex),
   through the model otherwise (so: names, odd shapes) *)
Definition prov_version (prov : string) : string :=
  match strip_prefix (bytes_of_string "so:") (bytes_of_string prov), clean_parts (bytes_of_string prov) with
  | None, Some (_, _, v, _) => string_of_bytes v
  | _, _ => c_version (resolve_constraint prov)
  end.

Definition spec_prov_ok (op : vop) (r : ver) (prov : string) : bool :=
  let pv := prov_version prov in
  if String.eqb pv "" then false
  else match spec_parse pv with
       | Some b => fits_int64 b && spec_sat op b r
       | None => false
       end.

Definition check_filter (c : flt_case) : list string :=
  let full := String.append (f_name c) (String.append (f_op c) (f_cver c)) in
  let m := resolve_constraint full in
  (* validator: the operator accepts exactly what the order dictates, by the candidate's own version or a provided one *)
  (if f_clean c then
     match spec_parse (f_ver c), spec_parse (f_cver c) with
     | Some a, Some r =>
         if fits_int64 a && fits_int64 r && forallb (fun p => match spec_parse (prov_version p) with
                                                              | Some b => fits_int64 b | None => true end) (f_provs c) then
           let want := spec_sat (vop_of_string (f_op c)) a r || existsb (spec_prov_ok (vop_of_string (f_op c)) r) (f_provs c) in
           tag_if (negb (Bool.eqb (f_obs c) want))
             (if f_obs c then "viol:resolver-filter-accepts-against-apk-order" else "viol:resolver-filter-rejects-against-apk-order")
         else []
     | _, _ => []
     end
   else []) ++
  (* model vs implementation *)
  tag_if (negb (Bool.eqb (filter_one m (f_ver c) (f_provs c)) (f_obs c))) "mismatch:filter-packages".

(* ---- shared-library names: provide and constraint go through the same splitter ----
   so:NAME=V is put on the scale 0.V unless V ends in a release suffix -rN (melange#1871).  Whatever that scale is, a provide and
   a constraint of the SAME kind (both with a release suffix, or both without) must compare as their versions do: the rescaling
   prefixes the same component to both or to neither.  Mixed kinds are implementation-defined and not judged.
   observed: 0 = false, 1 = true, 2 = error, 3 = the provided version did not parse *)
Record so_case := { so_name : string; so_op : string; so_cver : string; so_pver : string; so_obs : Z }.

Fixpoint all_digits (l : list N) : bool :=
  match l with [] => true | c :: t => is_digit c && all_digits t end.
(* does the byte string end in "-r" followed by at least one digit? *)
Fixpoint ends_with_release_b (l : list N) : bool :=
  match l with
  | [] => false
  | c :: t => (match t with
               | c2 :: d :: t2 => (c =? 45)%N && (c2 =? 114)%N && all_digits (d :: t2)
               | _ => false
               end) || ends_with_release_b t
  end.
Definition ends_with_release (s : string) : bool := ends_with_release_b (bytes_of_string s).

Definition check_so (c : so_case) : list string :=
  let cons := resolve_constraint (String.append (so_name c) (String.append (so_op c) (so_cver c))) in
  let prov := resolve_constraint (String.append (so_name c) (String.append "=" (so_pver c))) in
  (* validator *)
  (if Bool.eqb (ends_with_release (so_cver c)) (ends_with_release (so_pver c)) then
     match spec_parse (so_pver c), spec_parse (so_cver c) with
     | Some a, Some r =>
         if fits_int64 a && fits_int64 r then
           tag_if (negb (so_obs c =? (if spec_sat (vop_of_string (so_op c)) a r then 1 else 0)))
             (* fixed defect C03-F2 (commit 0f275a6; the tag stays armed and is not listed): the rescaling looked for the first
                "=" (strings.Cut), so a constraint with > < or ~ kept its scale while the provide it is compared with was
                moved to 0.V *)
             (if negb (existsb (fun ch => (ch =? 61)%N) (bytes_of_string (so_op c))) && negb (ends_with_release (so_cver c))
              then "viol:soname-rescaling-skips-operator-without-equals"
              else "viol:soname-constraint-disagrees-with-apk-order")
         else []
     | _, _ => []
     end
   else []) ++
  (* model vs implementation *)
  (let want := match parse_version (c_version prov) with
               | None => 3
               | Some v => match satisfied_by cons v with Some true => 1 | Some false => 0 | None => 2 end
               end in
   tag_if (negb (want =? so_obs c)) "mismatch:soname-satisfied-by").

(* ---- filterPackages over a candidate list with the dq map, the pins and the installed package (hook VerifFilterList) ----
   fl_cands: the candidates as handed over (fc_id = position; fc_url = what RepositoryPackage.URL() returned);
   fl_obs: positions of the candidates that came back, in the order they came back.
   Judged in C03's terms: whoever passes, passes by a version the order accepts (pins and dq only remove); a candidate that is
   neither disqualified nor pinned passes exactly when the order says so; nothing disqualified passes; input order is kept. *)
Record fltl_case := { fl_name : string; fl_op : string; fl_cver : string;
                      fl_allow : string; fl_prefer : string; fl_installed : option string;
                      fl_cands : list fcand; fl_obs : list N; fl_clean : bool }.

Definition spec_want (op cver : string) (k : fcand) : option bool :=
  if String.eqb op "" then Some true
  else match spec_parse (fc_ver k), spec_parse cver with
       | Some a, Some r =>
           if fits_int64 a && fits_int64 r && forallb (fun p => match spec_parse (prov_version p) with
                                                                | Some b => fits_int64 b | None => true end) (fc_provs k)
           then Some (spec_sat (vop_of_string op) a r || existsb (spec_prov_ok (vop_of_string op) r) (fc_provs k))
           else None
       | _, _ => None
       end.

Fixpoint increasing (l : list N) : bool :=
  match l with
  | a :: ((b :: _) as t) => (a <? b)%N && increasing t
  | _ => true
  end.

Definition check_filter_list (c : fltl_case) : list string :=
  let m := resolve_constraint (String.append (fl_name c) (String.append (fl_op c) (fl_cver c))) in
  let o := {| fp_allow := fl_allow c; fp_prefer := fl_prefer c; fp_installed := fl_installed c |} in
  let passed k := existsb (fun i => (i =? fc_id k)%N) (fl_obs c) in
  (if fl_clean c then
     List.concat (List.map (fun k =>
       match spec_want (fl_op c) (fl_cver c) k with
       | Some want =>
           tag_if (passed k && negb want) "viol:resolver-filter-accepts-against-apk-order" ++
           tag_if (negb (passed k) && want && negb (fc_dq k) && String.eqb (fc_pinned k) "")
             "viol:resolver-filter-rejects-against-apk-order"
       | None => []
       end) (fl_cands c))
   else []) ++
  tag_if (existsb (fun k => passed k && fc_dq k) (fl_cands c)) "viol:resolver-filter-passes-disqualified" ++
  tag_if (negb (increasing (fl_obs c))) "viol:resolver-filter-reorders-candidates" ++
  (* model vs implementation *)
  tag_if (negb (list_eqb N.eqb (List.map fc_id (filter_list m o (fl_cands c))) (fl_obs c))) "mismatch:filter-packages-list".
