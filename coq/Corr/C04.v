(* C04 correspondence: the harness's observations of the real
   parseRepositoryIndex / shouldCheckSignatureForIndex / signatureFileRegex,
   compared with the model and judged by the validators of Spec/IndexSpec.v. *)
From Apko Require Export Base.Prelude Model.Index Spec.IndexSpec Model.IndexRsa.
Open Scope string_scope. Open Scope list_scope.

(* ---- names stage: signatureFileRegex.FindStringSubmatch ------------------ *)
Record name_case := { n_name : string; o_parts : option (string * string) }.

Definition pair_eqb (a b : string * string) : bool :=
  String.eqb (fst a) (fst b) && String.eqb (snd a) (snd b).

Definition check_name (c : name_case) : list string :=
  tag_if (negb (option_eqb pair_eqb (sig_name_parts (n_name c)) (o_parts c))) "mismatch:signature-name-submatches" ++
  match o_parts c with
  | Some (alg, key) => tag_if (negb (String.eqb (n_name c) (sig_entry_name alg key))) "mismatch:submatches-do-not-rebuild-the-name"
  | None => []
  end.

(* ---- parse stage ---------------------------------------------------------- *)
(* a configured key file as the harness's own decoding sees it: no PEM block at all, a first
   block that is not PKIX DER, a PKIX key that is not RSA, a PKIX RSA key *)
Inductive key_kind := KNoPem | KBadDer | KNotRsa | KRsa.

Record parse_case := {
  p_ignore : bool; p_listed : list string; p_url : string; p_arch : string;
  p_keys : list string;
  p_members : archive;
  (* (key name, digest, signature body) triples for which crypto/rsa verifies the
     body as a signature by the key configured under that name over the raw
     bytes after the first member *)
  p_verify : list (string * halg * list N);
  (* what the harness's own pem / x509 calls make of every configured key FILE *)
  p_keykinds : list (string * key_kind);
  (* ParsePackageIndex on the bodies that can reach it *)
  p_texts : list (list N * option (list string));
  o_should_check : bool;
  o_result : option (list string * list N);     (* accepted: packages, description *)
  (* accepted: the Signature field of the returned index, None = nil; the body of an
     entry of the first member is given by the fingerprint the archive view uses *)
  o_signature : option (list N)
}.

Definition verify_of (tbl : list (string * halg * list N)) (key : string) (a : halg) (_ : unit) (sig : list N) : bool :=
  existsb (fun t => match t with (k, a', s) => String.eqb k key && halg_eqb a a' && list_eqb N.eqb s sig end) tbl.

Fixpoint text_of (tbl : list (list N * option (list string))) (b : list N) : option (list string) :=
  match tbl with
  | [] => None
  | (b', r) :: tbl' => if list_eqb N.eqb b b' then r else text_of tbl' b
  end.

(* RSAVerifyDigest in stages (Model/IndexRsa.v, the statement list read from the source), fed with
   the harness's view of the key files and the crypto/rsa truth table: the key "bytes" are the key's name *)
Definition kind_of (tbl : list (string * key_kind)) (name : string) : key_kind :=
  match assoc_str name tbl with Some k => k | None => KNoPem end.
Definition verify_staged_with (f : (string -> option string) -> (string -> option (pubkey string)) -> (string -> halg -> unit -> list N -> bool) ->
                                   string -> halg -> unit -> list N -> bool)
    (kinds : list (string * key_kind)) (tbl : list (string * halg * list N)) : string -> halg -> unit -> list N -> bool :=
  f (fun name => match kind_of kinds name with KNoPem => None | _ => Some name end)
    (fun name => match kind_of kinds name with KRsa => Some (PubRSA name) | KNotRsa => Some PubOther | _ => None end)
    (fun k a' _ sg => verify_of tbl k a' tt sg).
(* the model: the function as the source has it *)
Definition verify_staged := verify_staged_with (rsa_verify_digest string string string unit (fun _ _ => true)).
(* the validators: what "verifies under the configured key" means, independent of the source *)
Definition verify_meant := verify_staged_with (rsa_verify_digest_meaning string string string unit (fun _ _ => true)).

Definition check_parse (c : parse_case) : list string :=
  let raw := fun (_ : list member) => tt in
  let hash := fun (_ : halg) (_ : unit) => tt in
  let verify := verify_staged (p_keykinds c) (p_verify c) in
  let pt := text_of (p_texts c) in
  let chk := should_check (p_ignore c) (p_listed c) (p_url c) (p_arch c) in
  let req := check_required_b (p_ignore c) (p_listed c) (p_url c) (p_arch c) in
  tag_if (req && negb (o_should_check c)) "viol:verification-skipped-without-optout" ++
  tag_if (negb req && o_should_check c) "mismatch:verifies-although-opted-out" ++
  tag_if (negb (Bool.eqb chk (o_should_check c))) "mismatch:should-check" ++
  (if req then holds_tags unit unit raw hash (verify_meant (p_keykinds c) (p_verify c)) pt (p_keys c) (p_members c) (option_map fst (o_result c)) else []) ++
  match parse_repository_index unit unit raw hash verify pt chk (p_keys c) (p_members c), o_result c with
  | POk i, Some (pk, d) =>
      tag_if (negb (list_eqb String.eqb (i_pkgs i) pk)) "mismatch:packages" ++
      tag_if (negb (list_eqb N.eqb (i_desc i) d)) "mismatch:description" ++
      tag_if (negb (option_eqb (list_eqb N.eqb) (i_sig i) (o_signature c))) "mismatch:signature-field"
  | PErr, None => []
  | POk _, None => ["mismatch:model-accepts-impl-rejects"]
  | PErr, Some _ => ["mismatch:model-rejects-impl-accepts"]
  | PUnmodelled, _ => ["mismatch:case-outside-the-modelled-envelope"]
  end.

(* ---- repos stage: histories of GetRepositoryIndexes calls ------------------ *)
From Apko Require Export Model.IndexCache.
Record repos_case := {
  rp_signer : list (option string);     (* per repository: whose valid signature its index carries *)
  rp_locs : list string;                (* symbolic locations *)
  rp_arch : string;
  rp_calls : list repo_call }.          (* the calls with what the implementation answered *)

Definition nats_sorted_eqb (a b : list nat) : bool :=
  forallb (fun x => existsb (Nat.eqb x) b) a && forallb (fun x => existsb (Nat.eqb x) a) b.

Fixpoint outcome_tags (model obs : list repo_call) : list string :=
  match model, obs with
  | m :: ms, o :: os =>
      (match o_err m, o_err o with
       | true, false => ["mismatch:model-rejects-impl-accepts"]
       | false, true => ["mismatch:model-accepts-impl-rejects"]
       | false, false => tag_if (negb (nats_sorted_eqb (o_got m) (o_got o))) "mismatch:indexes-returned"
       | true, true => []
       end) ++ outcome_tags ms os
  | [], [] => []
  | _, _ => ["mismatch:call-count"]
  end.

Definition check_repos (c : repos_case) : list string :=
  let signer := fun r => nth r (rp_signer c) None in
  let loc := fun r => nth r (rp_locs c) "" in
  (* every result is stored except those of remote indexes served without an ETag;
     the outcome does not depend on that (cache_fixed_sound), so the model caches everything *)
  let model := run_history signer loc (rp_arch c) (fun _ => true) vctx vctx_eqb (ctx_fixed loc (rp_arch c)) [] (rp_calls c) in
  history_tags signer loc (rp_arch c) (rp_calls c) ++ outcome_tags model (rp_calls c).

(* ---- vctx stage: verificationContext on pairs of requests ------------------------
   Two requests for the same index (same URL and architecture), each with its own
   options and key map (name, key bytes). The harness hands over, for each request,
   the bytes IT computes as the hash input together with their SHA-256 (the model
   looks its own hash input up in that table: a different input finds nothing), and
   the string the real function returned. Property-level demand, independent of the
   model: equal context strings only for requests that agree on whether verification
   applies and, when it does, on the set of (name, key bytes) pairs. *)
From Apko Require Export Model.IndexVctx.
Record vctx_req := {
  vq_ignore : bool; vq_listed : list string; vq_keys : list (string * string);
  vq_hash : list (string * string);           (* hash input -> digest bytes *)
  o_ctx : string }.
Record vctx_case := { vc_url : string; vc_arch : string; vc_a : vctx_req; vc_b : vctx_req }.

Definition hash_of (tbl : list (string * string)) (x : string) : string :=
  match assoc_str x tbl with Some d => d | None => "" end.

Definition pair_mem (p : string * string) (l : list (string * string)) : bool :=
  existsb (fun q => String.eqb (fst p) (fst q) && String.eqb (snd p) (snd q)) l.
Definition same_pairs (a b : list (string * string)) : bool :=
  forallb (fun p => pair_mem p b) a && forallb (fun p => pair_mem p a) b.

Definition check_vctx (c : vctx_case) : list string :=
  let req q := check_required_b (vq_ignore q) (vq_listed q) (vc_url c) (vc_arch c) in
  let chk q := should_check (vq_ignore q) (vq_listed q) (vc_url c) (vc_arch c) in
  let model q := verification_context (hash_of (vq_hash q)) (chk q) (vq_keys q) in
  tag_if (negb (String.eqb (model (vc_a c)) (o_ctx (vc_a c)))) "mismatch:verification-context" ++
  tag_if (negb (String.eqb (model (vc_b c)) (o_ctx (vc_b c)))) "mismatch:verification-context" ++
  (if String.eqb (o_ctx (vc_a c)) (o_ctx (vc_b c)) then
     tag_if (negb (Bool.eqb (req (vc_a c)) (req (vc_b c)))) "viol:verification-context-confuses-checked-and-unchecked" ++
     tag_if (req (vc_a c) && req (vc_b c) && negb (same_pairs (vq_keys (vc_a c)) (vq_keys (vc_b c))))
            "viol:verification-context-confuses-key-sets"
   else []).

(* ---- sweep stage: mutants of signed archives, judged by the mutant oracle --------- *)
From Apko Require Export Spec.IndexBytesSpec.
Definition check_sweep (bases : list (list N)) (signed : list (list piece * list string)) (c : sweep_case) : list string :=
  mutant_tags (map (fun s => (render bases (fst s), snd s)) signed) (render bases (sw_suffix c)) (sw_ending c) (sw_verdict c).

(* ---- wiring stage (wave 3): ResolveWorld of every context of a multi-architecture build ---- *)
From Apko Require Export Model.IndexWiring Model.IndexCacheFiles Spec.IndexHistSpec.
Record wiring_case := {
  wc_ctxs : list wctx;
  wc_signer : list (list (option string));       (* context j, repository r *)
  wc_versions : list (list (list N));            (* the versions of the package the index lists *)
  wc_obs : list (option N) }.                    (* per context: None = ResolveWorld failed, Some v = the version chosen *)

Definition check_wiring (c : wiring_case) : list string :=
  let signer := fun j r => nth r (nth j (wc_signer c) []) None in
  let versions := fun j r => nth r (nth j (wc_versions c) []) [] in
  let ok := fun a => match nth a (wc_obs c) None with Some _ => true | None => false end in
  wiring_tags (wc_ctxs c) signer ok ++
  flat_map (fun a =>
    match resolve_version (wc_ctxs c) signer versions a, nth a (wc_obs c) None with
    | Some v, Some v' => tag_if (negb (N.eqb v v')) "mismatch:version-chosen"
    | None, None => []
    | Some _, None => ["mismatch:model-accepts-impl-rejects"]
    | None, Some _ => ["mismatch:model-rejects-impl-accepts"]
    end) (seq 0 (List.length (wc_ctxs c))).

(* ---- files stage (wave 3): local index files rewritten between calls ------------------------ *)
Record files_case := { fc_locs : list string; fc_arch : string; fc_events : list fevent }.

Definition pairs_eqb (a b : list (nat * nat)) : bool :=
  let mem p l := existsb (fun q => Nat.eqb (fst p) (fst q) && Nat.eqb (snd p) (snd q)) l in
  forallb (fun p => mem p b) a && forallb (fun p => mem p a) b.

Fixpoint answers_tags (evs : list fevent) (ans : list fanswer) : list string :=
  match evs, ans with
  | EvRewrite _ _ :: evs', AnsRewrite :: ans' => answers_tags evs' ans'
  | EvCall c got :: evs', AnsCall err mgot :: ans' =>
      (match err, o_err c with
       | true, false => ["mismatch:model-rejects-impl-accepts"]
       | false, true => ["mismatch:model-accepts-impl-rejects"]
       | false, false => tag_if (negb (pairs_eqb mgot got)) "mismatch:index-versions-returned"
       | true, true => []
       end) ++ answers_tags evs' ans'
  | [], [] => []
  | _, _ => ["mismatch:event-count"]
  end.

Definition check_files (c : files_case) : list string :=
  let loc := fun r => nth r (fc_locs c) "" in
  let w0 : fworld := fun _ => [] in
  files_tags loc (fc_arch c) w0 (fc_events c) ++
  answers_tags (fc_events c) (frun loc (fc_arch c) vctx vctx_eqb (ctx_fixed loc (fc_arch c)) w0 [] (fc_events c)).

(* ---- interleave stage (wave 3): concurrent loads; what a call returns for a repository is what
   THAT repository serves ---------------------------------------------------------------------- *)
Record interleave_case := {
  il_returned : list (nat * list nat) }.    (* (repository asked for, the repositories whose marker packages the returned index carries) *)

Definition check_interleave (c : interleave_case) : list string :=
  flat_map (fun p => tag_if (negb (forallb (Nat.eqb (fst p)) (snd p))) "viol:index-content-from-another-repository" ++
                     tag_if (match snd p with [] => true | _ => false end) "viol:index-without-its-repository-content")
           (il_returned c).

(* ---- etag stage (final round): the same histories over remote repositories served with an ETag
   (fv_mtime = the ETag's number); model = the per-ETag entries of indexCache.get with forget ---- *)
From Apko Require Export Model.IndexCacheEtag.
Definition check_etag (c : files_case) : list string :=
  let loc := fun r => nth r (fc_locs c) "" in
  let w0 : fworld := fun _ => [] in
  files_tags loc (fc_arch c) w0 (fc_events c) ++
  answers_tags (fc_events c) (erun loc (fc_arch c) vctx vctx_eqb (ctx_fixed loc (fc_arch c)) w0 ([], []) (fc_events c)).
