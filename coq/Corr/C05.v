(* C05 correspondence: sequences of installs (InstallPackages through the public
   API) against an origin whose bytes the harness controls, with the cache
   disabled / cold / warm and within one process or across processes; compared
   with the model and judged by the validator of Spec/PkgAuthSpec.v. *)
From Apko Require Export Base.Prelude Model.PkgAuth Spec.PkgAuthSpec.
Open Scope string_scope. Open Scope list_scope.

Record step := {
  s_new_process : bool;              (* the process-wide memo is empty again *)
  s_cache : option nat;              (* which cache directory, None = no cache *)
  s_lazy : bool;                     (* tarfs (lazy install) or a plain in-memory fs (streaming install) *)
  s_handle : handle;
  s_served : option apkfile;         (* what the origin has under the URL now *)
  o_out : option (string * list (string * list N))   (* observed: pkgdesc recorded, regular files installed *)
}.

Record seq_case := {
  q_sha1 : list (list N * list N);   (* SHA-1 of the raw control members and file bodies in play *)
  q_sha256 : list (list N * list N); (* SHA-256 of the raw data members in play *)
  q_b64 : list (string * option (list N));   (* base64.StdEncoding.DecodeString on the checksum strings in play *)
  q_steps : list step
}.

Definition table (t : list (list N * list N)) (x : list N) : list N :=
  match assoc_b x t with Some d => d | None => [] end.

Definition file_view_eqb (a b : string * list N) : bool :=
  String.eqb (fst a) (fst b) && bytes_eqb (snd a) (snd b).
Definition out_eqb (a b : string * list (string * list N)) : bool :=
  String.eqb (fst a) (fst b) && list_eqb file_view_eqb (snd a) (snd b).

(* the regular files a data section installs *)
Definition reg_view (d : data) : list (string * list N) :=
  List.flat_map (fun f => match f_kind f with FReg => [(f_name f, f_body f)] | _ => [] end)
    (data_section (d_files d)).

Fixpoint get_cache (i : nat) (cs : list (nat * cache)) : cache :=
  match cs with [] => empty_cache | (j, c) :: r => if Nat.eqb i j then c else get_cache i r end.

Section Run.
  Variable c : seq_case.
  Let sha1 := table (q_sha1 c).
  Let sha256 := table (q_sha256 c).
  Let b64 := fun s => match assoc_s s (q_b64 c) with Some r => r | None => None end.
  Let candidates : list apkfile :=
    List.flat_map (fun s => match s_served s with Some a => [a] | None => [] end) (q_steps c).

  (* what was installed, identified among everything the origin ever served:
     every (control, data) pair whose recorded description and installed regular
     files are the observed ones. Several data sections can install the same
     bytes (they differ in recorded checksums only); the installed BYTES are
     authenticated when one such explanation satisfies the chain. *)
  Definition explanations (o : string * list (string * list N)) : list exp :=
    List.flat_map (fun a1 =>
      if String.eqb (c_desc (a_ctl a1)) (fst o) then
        List.flat_map (fun a2 =>
          if list_eqb file_view_eqb (reg_view (a_dat a2)) (snd o)
          then [{| x_ctl := a_ctl a1; x_dat := a_dat a2; x_ctl_hash := [] |}] else []) candidates
      else []) candidates.

  Definition judge (sfx : string) (h : handle) (o : string * list (string * list N)) : list string :=
    match explanations o with
    | [] => ["viol:installed-content-from-nowhere"]
    | x :: more =>
        if existsb (fun y => match chain_tags sha1 sha256 b64 sfx h y with [] => true | _ => false end) (x :: more)
        then [] else chain_tags sha1 sha256 b64 sfx h x
    end.

  (* model state: memo, caches; spec-side bookkeeping: the (URL, checksum string)
     pairs expanded with a cache configured since the process started *)
  Definition same_req (a b : handle) : bool :=
    String.eqb (h_url a) (h_url b) && String.eqb (h_chk a) (h_chk b).
  (* names the mechanism when an install breaks the chain after an earlier
     request of the same process: a different request with the same memo key, or
     the same URL with another checksum (what fix 9459281 closed) *)
  Definition mechanism (seen : list handle) (h : handle) : string :=
    if existsb (fun p => String.eqb (h_url p ++ "@" ++ h_chk p) (h_url h ++ "@" ++ h_chk h) && negb (same_req p h)) seen
    then "/memo-key-ambiguous"
    else if existsb (fun p => String.eqb (h_url p) (h_url h) && negb (same_req p h)) seen
    then "/process-memo-by-url" else "".
  Fixpoint run (m : memo) (cs : list (nat * cache)) (seen : list handle) (i : N) (ss : list step) : list string :=
    match ss with
    | [] => []
    | s :: ss' =>
        let m0 := if s_new_process s then [] else m in
        let seen0 := if s_new_process s then [] else seen in
        let k := match s_cache s with Some j => Some (get_cache j cs) | None => None end in
        let '(r, k', m1) := expand_package sha1 sha256 b64 m0 k (s_handle s) (s_served s) in
        let cs' := match s_cache s, k' with Some j, Some kc => (j, kc) :: cs | _, _ => cs end in
        let predicted :=
          match r with
          | XOk x => match install (s_lazy s) x with
                     | Some files => Some (c_desc (x_ctl x), files)
                     | None => None
                     end
          | XErr _ => None
          end in
        let sfx := match s_cache s with Some _ => mechanism seen0 (s_handle s) | None => "" end in
        let seen1 := match s_cache s with Some _ => s_handle s :: seen0 | None => seen0 end in
        tag_if (negb (option_eqb out_eqb predicted (o_out s)))
          (match predicted, o_out s with
           | Some _, None => "mismatch:model-installs-impl-fails"
           | None, Some _ => "mismatch:model-fails-impl-installs"
           | _, _ => "mismatch:installed-content"
           end) ++
        match o_out s with
        | None => []
        | Some o => judge sfx (s_handle s) o
        end ++
        run m1 cs' seen1 (N.succ i) ss'
    end.
End Run.

Definition check_seq (c : seq_case) : list string := run c [] [] [] 0%N (q_steps c).
