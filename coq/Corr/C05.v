(* C05 correspondence: sequences of installs (InstallPackages through the public
   API) against an origin whose bytes the harness controls — any list of gzip
   members with anything after them — with the cache disabled / cold / warm /
   warm without the uncompressed tar, within one process or across processes;
   compared with the model and judged by the validator of Spec/PkgAuthSpec.v.
   Digests and decoders are tables the harness fills with the real SHA-1 /
   SHA-256 / base64 / gzip / tar results for the byte strings in play; member
   and tar bytes are replaced by ids of fixed length. *)
From Apko Require Export Base.Prelude Model.PkgAuth Spec.PkgAuthSpec.
Open Scope string_scope. Open Scope list_scope.

Record step := {
  s_new_process : bool;              (* the process-wide memo is empty again *)
  s_cache : option nat;              (* which cache directory, None = no cache *)
  s_drop_tar : bool;                 (* every *.dat.tar of that directory is removed before the step *)
  s_lazy : bool;                     (* tarfs (lazy install) or a plain in-memory fs (streaming install) *)
  s_http : bool;                     (* the URL is http:// (through the cache transport when a cache is configured) or a local path *)
  s_offline : bool;                  (* the cache is configured offline *)
  s_handle : handle;
  s_whole : option stream;           (* the file under the URL-derived name in the cache directory (pre-populated), if any *)
  s_served : option stream;          (* what the origin has under the URL now *)
  o_out : option (string * list (string * list N))   (* observed: pkgdesc recorded, files readable afterwards *)
}.

(* a tar entry as the harness reads it: the PAX records verbatim; the recorded checksum is
   decoded by the model (checksum_from_header) *)
Record rfile := { r_name : string; r_kind : fkind; r_body : list N; r_pax : list (string * string); r_link : string; r_sparse : bool }.

Record seq_case := {
  q_sha1 : list (list N * list N);   (* SHA-1 of the members and file bodies in play *)
  q_sha256 : list (list N * list N); (* SHA-256 of the byte strings that can be taken as data section *)
  q_b64 : list (string * option (list N));   (* base64.StdEncoding.DecodeString on the checksum strings in play *)
  q_first : list (list N * option string);                   (* first tar header name of a member *)
  q_ctl : list (list N * option (string * string));          (* a member read as control section: pkgdesc, text of .PKGINFO *)
  q_gunzip : list (list N * option (list N));                (* data bytes -> tar *)
  q_untar : list (list N * option (list rfile));             (* tar -> entries *)
  q_steps : list step
}.

(* the harness prints byte strings as one lower-case hex literal *)
Definition hexval (c : ascii) : N := let n := N_of_ascii c in if (n <? 58)%N then (n - 48)%N else (n - 87)%N.
Fixpoint hx (s : string) : list N :=
  match s with String a (String b r) => (16 * hexval a + hexval b)%N :: hx r | _ => [] end.

(* .PKGINFO texts are printed as literal pieces and runs of one byte *)
Inductive seg := L (s : string) | R (n : N) (c : ascii).
Definition txt (ss : list seg) : string :=
  List.fold_right (fun sg acc => match sg with L s => (s ++ acc)%string | R n c => N.iter n (String c) acc end) EmptyString ss.

Definition table (t : list (list N * list N)) (x : list N) : list N :=
  match assoc_b x t with Some d => d | None => [] end.
Definition otable {A} (t : list (list N * option A)) (x : list N) : option A :=
  match assoc_b x t with Some r => r | None => None end.

Definition file_view_eqb (a b : string * list N) : bool :=
  String.eqb (fst a) (fst b) && bytes_eqb (snd a) (snd b).
(* the files readable after an install, as a set: the harness reads names back in an order of its own *)
Definition files_eqb (a b : list (string * list N)) : bool :=
  Nat.eqb (List.length a) (List.length b) &&
  forallb (fun p => existsb (file_view_eqb p) b) a && forallb (fun p => existsb (file_view_eqb p) a) b.
Definition out_eqb (a b : string * list (string * list N)) : bool :=
  String.eqb (fst a) (fst b) && files_eqb (snd a) (snd b).

Fixpoint get_cache (i : nat) (cs : list (nat * cache)) : cache :=
  match cs with [] => empty_cache | (j, c) :: r => if Nat.eqb i j then c else get_cache i r end.

Section Run.
  Variable c : seq_case.
  Let sha1 := table (q_sha1 c).
  Let sha256 := table (q_sha256 c).
  Let b64 := fun s => match assoc_s s (q_b64 c) with Some r => r | None => None end.
  Let first_name := otable (q_first c).
  Let ctl_view := otable (q_ctl c).
  Let gunzip := otable (q_gunzip c).
  Let untar := fun t =>
    option_map (List.map (fun r => {| f_name := r_name r; f_kind := r_kind r; f_body := r_body r;
                                      f_sum := checksum_from_header b64 (r_pax r); f_link := r_link r; f_sparse := r_sparse r |}))
               (otable (q_untar c) t).

  (* what was installed, identified among everything in play: every (control member,
     data bytes) pair whose recorded description is the observed one and whose
     entries have every observed file's NAME. Several data sections can hold the
     same names and bytes (they differ in recorded checksums only); the
     installed BYTES are authenticated when one such explanation satisfies the chain
     and every observed file's bytes are the body of a regular entry of it that
     agrees with its recorded checksum ("what is installed was hashed"). *)
  Definition accounts (fs : list dfile) (o : list (string * list N)) : bool :=
    forallb (fun p => existsb (fun f => String.eqb (f_name f) (fst p)) fs) o.
  Definition explanations (o : string * list (string * list N)) : list exp :=
    List.flat_map (fun craw =>
      match mk_ctl ctl_view craw with
      | Some ctl =>
          if String.eqb (c_desc ctl) (fst o) then
            List.flat_map (fun gz =>
              match dat_view gunzip untar gz with
              | Some fs =>
                  if accounts fs (snd o)
                  then [{| x_ctl := ctl; x_ctl_file := craw; x_dat := {| d_raw := gz; d_files := fs |}; x_ctl_hash := [] |}]
                  else []
              | None => []
              end) (List.map fst (q_gunzip c))
          else []
      | None => []
      end) (List.map fst (q_ctl c)).

  Definition tags_of (sfx : string) (h : handle) (o : string * list (string * list N)) (x : exp) : list string :=
    chain_tags sha1 sha256 b64 ctl_view gunzip untar sfx h x ++
    tag_if (negb (installed_hashed_b sha1 x (snd o))) ("viol:installed-bytes-never-hashed" ++ sfx).
  Definition judge (sfx : string) (h : handle) (o : string * list (string * list N)) : list string :=
    match explanations o with
    | [] => ["viol:installed-content-from-nowhere"]
    | x :: more =>
        if existsb (fun y => match tags_of sfx h o y with [] => true | _ => false end) (x :: more)
        then [] else tags_of sfx h o x
    end.

  (* model state: memo, caches; spec-side bookkeeping: the (URL, checksum string)
     pairs expanded with a cache configured since the process started *)
  Definition same_req (a b : handle) : bool :=
    String.eqb (h_url a) (h_url b) && String.eqb (h_chk a) (h_chk b).
  (* names the mechanism when an install breaks the chain: a stream of the shape of
     C05-F3 was served in this history; or, after an earlier request of the same
     process, a different request with the same joined memo key, or the same URL
     with another checksum (what fixes d69e0fd / 9459281 closed) *)
  Definition any_sig2 : bool :=
    existsb (fun s => match s_served s with Some st => sig2 first_name st | None => false end ||
                      match s_whole s with Some st => sig2 first_name st | None => false end) (q_steps c).
  (* a data section with a sparse entry is in play (fixed finding C05-F4) *)
  Definition any_sparse : bool :=
    existsb (fun r => match snd r with Some fs => existsb r_sparse fs | None => false end) (q_untar c).
  Definition mechanism (seen : list handle) (h : handle) : string :=
    if any_sig2 then "/sign-first-two-members"
    else if any_sparse then "/sparse-entry-lazy"
    else if existsb (fun p => String.eqb (h_url p ++ "@" ++ h_chk p) (h_url h ++ "@" ++ h_chk h) && negb (same_req p h)) seen
    then "/memo-key-ambiguous"
    else if existsb (fun p => String.eqb (h_url p) (h_url h) && negb (same_req p h)) seen
    then "/process-memo-by-url" else "".
  Fixpoint run (m : memo) (cs : list (nat * cache)) (seen : list handle) (i : N) (ss : list step) : list string :=
    match ss with
    | [] => []
    | s :: ss' =>
        let m0 := if s_new_process s then [] else m in
        let seen0 := if s_new_process s then [] else seen in
        let k := match s_cache s with
                 | Some j => let kc := get_cache j cs in
                             Some (if s_drop_tar s then {| k_ctl := k_ctl kc; k_gz := k_gz kc; k_tar := [] |} else kc)
                 | None => None
                 end in
        let served := fetch (s_http s) (match k with Some _ => true | None => false end) (s_offline s) (s_whole s) (s_served s) in
        let '(r, k', m1) := expand_package sha1 sha256 b64 first_name ctl_view gunzip untar m0 k (s_handle s) served in
        let cs' := match s_cache s, k' with Some j, Some kc => (j, kc) :: cs | _, _ => cs end in
        let predicted :=
          match r with
          | XOk x => match install (s_lazy s) x with
                     | Some files => Some (c_desc (x_ctl x), files)
                     | None => None
                     end
          | XErr _ => None
          end in
        let sfx := match s_cache s with Some _ => mechanism seen0 (s_handle s) | None => mechanism [] (s_handle s) end in
        let seen1 := match s_cache s with Some _ => s_handle s :: seen0 | None => seen0 end in
        tag_if (negb (option_eqb out_eqb predicted (o_out s)))
          (match predicted, o_out s with
           | Some _, None => "mismatch:model-installs-impl-fails"
           | None, Some _ => "mismatch:model-fails-impl-installs"
           | _, _ => "mismatch:installed-content"
           end) ++
        match o_out s with
        | None => []
        | Some o => judge sfx (s_handle s) o
        end ++
        run m1 cs' seen1 (N.succ i) ss'
    end.
End Run.

Definition check_seq (c : seq_case) : list string := run c [] [] [] 0%N (q_steps c).
