(* C06 correspondence: the harness builds a filesystem through the FullFS
   interface (tarfs or memfs), reads its state back through the interface
   ([c_tree]), runs the real walkFS ([o_walk]) and the real
   newLayerWriter+writeTar+finalize, and reads the emitted layer with its own
   archive/tar reader ([o_tar]).  Model = implementation on both listings; the
   verified validator judges the entries found in the emitted bytes. *)
From Apko Require Export Base.Prelude Model.Tar Spec.TarSpec.
Open Scope string_scope. Open Scope list_scope.

(* compact constructors used by the harness printer *)
Definition mkm (mode : N) (uid gid mt : Z) (ns : N) (xa : list (string * string)) : meta :=
  {| m_mode := mode; m_uid := uid; m_gid := gid; m_mtime := mt; m_mnsec := ns; m_xattrs := xa |}.
Definition mke (p : path) (k : kind) (mode : N) (uid gid : Z) (un gn : option string) (lnk : string)
    (maj mi : N) (xa : list (string * string)) (mt : Z) (ns : N) (cid sz : N) : entry :=
  {| e_path := p; e_kind := k; e_mode := mode; e_uid := uid; e_gid := gid; e_uname := un; e_gname := gn;
     e_link := lnk; e_devmaj := maj; e_devmin := mi; e_xattrs := xa; e_mtime := mt; e_mnsec := ns;
     e_cid := cid; e_size := sz |}.

Record c06_case := {
  c_tree : forest;
  c_hl : list path;                 (* link names recorded with a tar header (tarfs) *)
  c_users : list (Z * string); c_groups : list (Z * string);
  o_walk : list entry;              (* headers yielded by the real walkFS *)
  o_tar : list entry                (* entries the harness's reader finds in the emitted layer *)
}.

Definition case_env (c : c06_case) : env :=
  {| users := c_users c; groups := c_groups c; has_hdr := fun p => existsb (path_eqb p) (c_hl c) |}.

Definition check_c06 (c : c06_case) : list string :=
  let w := walk (case_env c) (c_tree c) in
  tag_if (negb (list_eqb entry_eqb w (o_walk c))) "mismatch:walk-headers" ++
  tag_if (negb (list_eqb entry_eqb (map tar_written w) (o_tar c))) "mismatch:layer-entries" ++
  validate (c_users c) (c_groups c) (c_tree c) (o_tar c).
