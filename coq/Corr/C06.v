(* C06 correspondence: the harness builds a filesystem through the FullFS
   interface (tarfs or memfs), reads its state back through the interface
   ([c_tree]), runs the real walkFS ([o_walk]) and the real
   newLayerWriter+writeTar+finalize, and reads the emitted layer with its own
   archive/tar reader ([o_tar]).  Model = implementation on both listings; the
   verified validator judges the entries found in the emitted bytes. *)
From Apko Require Export Base.Prelude Model.Tar Spec.TarSpec.
Open Scope string_scope. Open Scope list_scope.

(* compact constructors used by the harness printer *)
Definition mkm (mode : N) (uid gid mt : Z) (ns : N) (xa : list (string * string)) : meta :=
  {| m_mode := mode; m_uid := uid; m_gid := gid; m_mtime := mt; m_mnsec := ns; m_xattrs := xa |}.
Definition mke (p : path) (k : kind) (mode : N) (uid gid : Z) (un gn : option string) (lnk : string)
    (maj mi : N) (xa : list (string * string)) (mt : Z) (ns : N) (cid sz : N) : entry :=
  {| e_path := p; e_kind := k; e_mode := mode; e_uid := uid; e_gid := gid; e_uname := un; e_gname := gn;
     e_link := lnk; e_devmaj := maj; e_devmin := mi; e_xattrs := xa; e_mtime := mt; e_mnsec := ns;
     e_cid := cid; e_size := sz |}.

Record c06_case := {
  c_tree : forest;
  c_hl : list path;                 (* link names recorded with a tar header (tarfs) *)
  c_users : list (Z * string); c_groups : list (Z * string);
  o_walk : list entry;              (* headers yielded by the real walkFS *)
  o_tar : list entry                (* entries the harness's reader finds in the emitted layer *)
}.

Definition case_env (c : c06_case) : env :=
  {| users := c_users c; groups := c_groups c; has_hdr := fun p => existsb (path_eqb p) (c_hl c) |}.

Definition check_c06 (c : c06_case) : list string :=
  let w := walk (case_env c) (c_tree c) in
  tag_if (negb (list_eqb entry_eqb w (o_walk c))) "mismatch:walk-headers" ++
  tag_if (negb (list_eqb entry_eqb (map tar_written w) (o_tar c))) "mismatch:layer-entries" ++
  validate (c_users c) (c_groups c) (c_tree c) (o_tar c).

(* ---- bytes stage -----------------------------------------------------------
   The harness builds a small filesystem (or a list of raw tar.Header values),
   lets the REAL code write the tar stream (writeTar over walkFS for
   filesystems, archive/tar's Writer driven as writeTar drives it for raw
   headers) and reads a stream back with archive/tar's Reader.  The byte model
   (Model/TarBytes.v) must produce the same bytes and read the same members. *)
From Apko Require Export Model.TarBytes Spec.TarBytesSpec.

(* byte strings are printed as runs: hexadecimal text or a number of NULs *)
Inductive seg := SX (hex : string) | SZ (n : N).
Definition hexval (c : ascii) : N :=
  let n := N_of_ascii c in
  if (n <? 58)%N then (n - 48)%N else (n - 87)%N.
Fixpoint unhex (s : string) : bytes :=
  match s with
  | String a (String b r) => ascii_of_N (16 * hexval a + hexval b) :: unhex r
  | _ => []
  end.
Definition seg_bytes (s : seg) : bytes :=
  match s with SX h => unhex h | SZ n => repeat Ascii.zero (N.to_nat n) end.
Definition segs (l : list seg) : bytes := List.concat (map seg_bytes l).

Definition mkh (typ : N) (name link : string) (mode uid gid size mtime : Z) (nsec : N) (uname gname : string)
    (dmaj dmin : Z) (pax : list (string * string)) : thdr :=
  {| h_type := ascii_of_N typ; h_name := lit name; h_link := lit link; h_mode := mode; h_uid := uid; h_gid := gid;
     h_size := size; h_mtime := mtime; h_mnsec := nsec; h_uname := lit uname; h_gname := lit gname;
     h_devmaj := dmaj; h_devmin := dmin; h_pax := map (fun kv => (lit (fst kv), lit (snd kv))) pax |}.
Definition mkm_ (h : thdr) (body : list seg) : member := (h, segs body).

Definition pair_eqb {A B} (ea : A -> A -> bool) (eb : B -> B -> bool) (x y : A * B) : bool :=
  ea (fst x) (fst y) && eb (snd x) (snd y).
Definition thdr_eqb (a b : thdr) : bool :=
  Ascii.eqb (h_type a) (h_type b) && beqb (h_name a) (h_name b) && beqb (h_link a) (h_link b) &&
  (h_mode a =? h_mode b)%Z && (h_uid a =? h_uid b)%Z && (h_gid a =? h_gid b)%Z && (h_size a =? h_size b)%Z &&
  (h_mtime a =? h_mtime b)%Z && (h_mnsec a =? h_mnsec b)%N && beqb (h_uname a) (h_uname b) && beqb (h_gname a) (h_gname b) &&
  (h_devmaj a =? h_devmaj b)%Z && (h_devmin a =? h_devmin b)%Z && list_eqb (pair_eqb beqb beqb) (h_pax a) (h_pax b).
Definition member_eqb : member -> member -> bool := pair_eqb thdr_eqb beqb.

Definition res_opt_eqb {A} (eq : A -> A -> bool) (r : res A) (o : option A) : bool :=
  match r, o with
  | Ok a, Some b => eq a b
  | Err, None => true
  | _, _ => false
  end.

Record c06b_case := {
  b_apko : bool;                         (* true: written by walkFS+writeTar; false: by the harness's own loop over archive/tar's Writer *)
  b_members : list member;               (* what is handed to the writer (raw cases) *)
  b_fs : option (c06_case * list (N * list seg)); (* fs cases: the tree read back and the contents by content id; the members are derived from them *)
  b_written : option (option (list seg));(* None: the writer is not part of the case; Some None: the real writer failed *)
  b_stream : option (list seg);          (* the stream read back; None: the written one *)
  b_read : option (list member)          (* archive/tar Reader: members until io.EOF; None: an error *)
}.

Definition fs_members (c : c06_case) (contents : list (N * list seg)) : list member :=
  map (member_of_entry (map (fun p => (fst p, segs (snd p))) contents)) (walk (case_env c) (c_tree c)).

Definition members_of (c : c06b_case) : list member :=
  match b_fs c with Some (base, cts) => fs_members base cts | None => b_members c end.

(* the content id of a body, through the table of the case (empty body: 0) *)
Definition cid_lookup (cs : list (N * bytes)) (b : bytes) : N :=
  match find (fun p => beqb (snd p) b) cs with Some p => fst p | None => 0%N end.

(* c06_layer_bytes_faithful_tree applied to what the REAL code did: for a tree
   inside the envelope stated on the tree, the members archive/tar's Reader found
   in the real stream must stand for exactly the entries the theorem names *)
Definition check_tree_level (c : c06b_case) : list string :=
  match b_fs c, b_read c with
  | Some (base, cts), Some ms =>
      let ev := case_env base in
      let cs := map (fun p => (fst p, segs (snd p))) cts in
      let t := c_tree base in
      if (wfl_forest (has_hdr ev) t && whole_seconds_forest t && forest_bytes_okb ev cs (cid_lookup cs) t)%bool
      then tag_if (negb (list_eqb (option_eqb entry_eqb) (map (entry_of_member (cid_lookup cs)) ms) (map (fun e => Some (tar_written e)) (walk ev t))))
                  "viol:layer-bytes-faithful"
      else []
  | _, _ => []
  end.

Definition check_c06b (c0 : c06b_case) : list string :=
  let c := {| b_apko := b_apko c0; b_members := members_of c0; b_fs := None; b_written := b_written c0; b_stream := b_stream c0; b_read := b_read c0 |} in
  check_tree_level c0 ++
  (* apko's writeTar: with the Format and the Close read from tarball.go; the
     harness's own loop: Format unset, Close called *)
  let w := if b_apko c then write_archive (b_members c) else write_archive_gen 0 true (b_members c) in
  let stream := match b_stream c, b_written c with
                | Some s, _ => segs s
                | None, Some (Some s) => segs s
                | None, _ => []
                end in
  match b_written c with
  | Some o => tag_if (negb (res_opt_eqb beqb w (option_map segs o))) "mismatch:tar-bytes"
  | None => []
  end ++
  tag_if (negb (res_opt_eqb (list_eqb member_eqb) (read_archive stream) (b_read c))) "mismatch:tar-read" ++
  (* the validator of c06_bytes_roundtrip on what the REAL writer and reader did:
     members inside the envelope must have been written, and archive/tar's Reader
     must have returned exactly their views *)
  (* a tar stream ends with two zero blocks and is a whole number of blocks *)
  match b_apko c, b_written c with
  | true, Some (Some s) =>
      let bs := segs s in
      tag_if (negb ((List.length bs mod 512 =? 0)%nat && (1024 <=? List.length bs)%nat &&
                    forallb (Ascii.eqb Ascii.zero) (skipn (List.length bs - 1024) bs))) "viol:tar-trailer"
  | _, _ => []
  end ++
  match b_written c, b_stream c with
  | Some o, None =>
      if forallb member_okb (b_members c) then
        match o, b_read c with
        | Some _, Some ms => tag_if (negb (list_eqb member_eqb ms (map read_view (b_members c)))) "viol:tar-roundtrip"
        | Some _, None => ["viol:tar-roundtrip/unreadable"]
        | None, _ => ["viol:tar-roundtrip/refused"]
        end
      else []
  | _, _ => []
  end.

(* ---- faults stage ----------------------------------------------------------
   The real ImageLayoutToLayer over a filesystem wrapped by the harness: the
   context is cancelled before the walk or while the k-th entry is produced, or
   Stat/ReadDir/Readlink/Readnod/Open fails at a chosen path.  [f_out] is what
   came back: None = an error, Some es = a layer, untarred by the harness.
   Model = implementation on the outcome; and a layer handed out despite the
   fault must be faithful to the tree (the verified validator). *)
From Apko Require Export Model.TarFaults Generated.C06Tar.

Record c06f_case := {
  f_base : c06_case;             (* tree, passwd, group (o_walk / o_tar unused) *)
  f_fault : fault;
  f_out : option (list entry)
}.

Definition fault_kind (ft : fault) : string :=
  match ft with FCancelBefore | FCancelAt _ => "cancel" | FErrEntry _ => "entry-error" | FErrRoot => "root-error" end.

Definition check_c06f (c : c06f_case) : list string :=
  let b := f_base c in
  let m := walk_under_fault c06_ctx_err_returned c06_root_err_checked (case_env b) (c_tree b) (f_fault c) in
  tag_if (negb (res_opt_eqb (list_eqb entry_eqb) (match m with Ok w => Ok (map tar_written w) | Err => Err | Panic => Panic | OutOfFuel => OutOfFuel end) (f_out c)))
         "mismatch:fault-outcome" ++
  match f_out c with
  | Some es => tag_if (negb (faithfulb (c_users b) (c_groups b) (c_tree b) es)) ("viol:fault-swallowed/" ++ fault_kind (f_fault c))
  | None => []
  end.
