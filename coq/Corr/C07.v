(* C07 correspondence: one case = an ordered package list installed by the REAL
   code on one backend, with the tree before, the error class, the tree after
   and the parsed text of lib/apk/db/installed. [check_case] compares with the
   model (mismatch:...) and runs the validators of Spec/InstallSpec.v on the
   observation (viol:...). *)
From Apko Require Export Base.Prelude Model.Install Model.InstallDb Model.InstallRead Model.InstallLinkWin Spec.InstallSpec.
Open Scope string_scope. Open Scope list_scope.

Record case := {
  c_backend : backend;
  c_pkgs : list pkg;
  c_pre : list tnode;
  o_err : eclass;
  o_conflict : option path;
  o_tree : list tnode;
  o_db : list dbpkg;
  o_db_parsed : bool
}.

(* content id 1 is the empty byte string (harness convention) *)
Definition node_of_pre (n : tnode) : node :=
  match t_kind n with
  | TDir => NDir (t_mode n)
  | TReg => NFile (t_sum n) (t_mode n) None (negb (N.eqb (t_sum n) 1))
  | TSym => NSym (t_sum n) None (t_link n)
  | TOther => NOther
  end.
Definition init_of (pre : list tnode) : fsmap := List.map (fun n => (t_path n, node_of_pre n)) pre.

Definition node_matches (nd : node) (n : tnode) : bool :=
  match nd, t_kind n with
  | NDir m, TDir => N.eqb m (t_mode n)
  | NFile sm md _ _, TReg => N.eqb sm (t_sum n) && N.eqb md (t_mode n)
  | NSym tg _ _, TSym => N.eqb tg (t_sum n)
  | NOther, TOther => true
  | _, _ => false
  end.
Definition owner_matches (nd : node) (n : tnode) : bool :=
  (t_uid n <? 0)%Z || (Z.eqb (t_uid n) (Z.of_N (node_uid nd)) && Z.eqb (t_gid n) (Z.of_N (node_gid nd))).

Definition tree_matches (m : fsmap) (t : list tnode) : bool :=
  Nat.eqb (List.length m) (List.length t) &&
  forallb (fun n => match fs_get m (t_path n) with Some nd => node_matches nd n && owner_matches nd n | None => false end) t.

Definition dbent_of (h : hdr) : dbent :=
  {| d_path := h_path h; d_dir := kind_eqb (h_kind h) KDir; d_uid := h_uid h; d_gid := h_gid h;
     d_perm := perm_of (h_mode h);
     d_sum := match h_kind h with KReg | KSym => Some (h_sum h) | _ => None end |}.
Definition dbent_eqb (a b : dbent) : bool :=
  path_eqb (d_path a) (d_path b) && Bool.eqb (d_dir a) (d_dir b) && N.eqb (d_uid a) (d_uid b) &&
  N.eqb (d_gid a) (d_gid b) && N.eqb (d_perm a) (d_perm b) && option_eqb N.eqb (d_sum a) (d_sum b).
Definition entries_match (model : list hdr) (obs : list dbent) : bool :=
  Nat.eqb (List.length model) (List.length obs) &&
  forallb (fun h => existsb (dbent_eqb (dbent_of h)) obs) model &&
  forallb (fun d => existsb (fun h => dbent_eqb (dbent_of h) d) model) obs.
Fixpoint db_matches (pkgs : list pkg) (model : list (list hdr)) (obs : list dbpkg) : bool :=
  match pkgs, model, obs with
  | [], [], [] => true
  | pk :: ps, m :: ms, o :: os => String.eqb (p_name pk) (dp_name o) && entries_match m (dp_entries o) && db_matches ps ms os
  | _, _, _ => false
  end.

(* short constructors for the generated case files *)
Definition H (p : path) (k : kind) (m u g sm : N) (l : path) : hdr :=
  {| h_path := p; h_kind := k; h_mode := m; h_uid := u; h_gid := g; h_sum := sm; h_link := l |}.
Definition P (n o : string) (r : list string) (f : list hdr) : pkg :=
  {| p_name := n; p_origin := o; p_replaces := r; p_files := f |}.
Definition T (p : path) (k : tkind) (sm m : N) (u g : Z) : tnode :=
  {| t_path := p; t_kind := k; t_sum := sm; t_mode := m; t_uid := u; t_gid := g; t_link := [] |}.
(* a symbolic link with its target string split at "/" *)
Definition TL (p : path) (sm m : N) (u g : Z) (l : path) : tnode :=
  {| t_path := p; t_kind := TSym; t_sum := sm; t_mode := m; t_uid := u; t_gid := g; t_link := l |}.
Definition D (p : path) (d : bool) (u g pm : N) (sm : option N) : dbent :=
  {| d_path := p; d_dir := d; d_uid := u; d_gid := g; d_perm := pm; d_sum := sm |}.
Definition DP (n : string) (e : list dbent) : dbpkg := {| dp_name := n; dp_entries := e |}.

Definition class_of (e : ierr) : eclass := match e with EConflict _ => EConflictClass | _ => EOtherClass end.

(* ---- where the rule table is the whole story ------------------------------
   Cases in which nothing but the rules can decide the outcome: every header's
   ancestors exist (before the install, or as directory headers earlier in the
   same package), no path is shipped twice by one package, nothing shipped as a
   file or link exists beforehand (one path shipped with different KINDS by two
   packages IS judged: a kind clash is never "identical content"), no path runs through a shipped symbolic link, hard links point at
   a regular file shipped earlier by the same package and their own path is
   shipped by nobody else (the property does not speak about hard links). *)
Definition all_hdrs (pkgs : list pkg) : list hdr := flat_map p_files pkgs.
Definition is_prefix_path (a b : path) : bool := path_eqb a (firstn (List.length a) b).
Definition pre_is_dir (pre : list tnode) (q : path) : bool :=
  match tree_get pre q with Some n => tkind_eqb (t_kind n) TDir | None => false end.
Fixpoint pkg_wellformed (pre : list tnode) (seen : list hdr) (hs : list hdr) : bool :=
  match hs with
  | [] => true
  | h :: more =>
      forallb (fun q => pre_is_dir pre q || is_dir_hdr seen q) (prefixes (parent (h_path h))) &&
      negb (existsb (fun x => path_eqb (h_path x) (h_path h)) seen) &&
      match h_kind h with
      | KLink => existsb (fun x => path_eqb (h_path x) (h_link h) && (kind_eqb (h_kind x) KReg || kind_eqb (h_kind x) KLink)) seen &&
                 match tree_get pre (h_path h) with None => true | Some _ => false end
      | KDir => true
      | _ => match tree_get pre (h_path h) with None => true | Some _ => false end
      end &&
      pkg_wellformed pre (seen ++ [h]) more
  end.
Definition rule_envelope (c : case) : bool :=
  let hs := all_hdrs (c_pkgs c) in
  forallb (fun pk => pkg_wellformed (c_pre c) [] (p_files pk)) (c_pkgs c) &&
  forallb (fun h => match h_kind h with
                    | KLink => Nat.eqb (List.length (filter (fun x => path_eqb (h_path x) (h_path h)) hs)) 1
                    | KSym => negb (existsb (fun x => is_prefix_path (h_path h) (h_path x) && negb (path_eqb (h_path h) (h_path x))) hs)
                    | KDir => match tree_get (c_pre c) (h_path h) with
                              | Some n => tkind_eqb (t_kind n) TDir | None => true end
                    | _ => true end) hs.

(* the mode a directory was first created with, from the case alone *)
Definition first_mode (c : case) (p : path) : option N :=
  match tree_get (c_pre c) p with
  | Some n => Some (N.land (t_mode n) 511)
  | None =>
      match find (fun h => kind_eqb (h_kind h) KDir && is_prefix_path p (h_path h)) (all_hdrs (c_pkgs c)) with
      | Some h => Some (perm_of (h_mode h))
      | None => None
      end
  end.

(* the path's file is also shipped under another name that (in the final tree)
   resolves to the same place: a directory reachable under two names *)
Definition aliased (c : case) (p : path) : bool :=
  match canon_path (o_tree c) p with
  | None => false
  | Some q =>
      existsb (fun h => negb (path_eqb (h_path h) p) &&
                        match canon_path (o_tree c) (h_path h) with Some q' => path_eqb q q' | None => false end)
              (all_hdrs (c_pkgs c))
  end.

(* a package ships a symbolic link at a prefix of the path (or at the path) *)
Definition thru_link (c : case) (p : path) : bool :=
  existsb (fun h => kind_eqb (h_kind h) KSym && is_prefix_path (h_path h) p) (all_hdrs (c_pkgs c)).

(* one package ships the path more than once *)
(* ... or a directory above it (the writer expands a directory once per header
   of its name: every record below is multiplied, C16-F7) *)
Definition dup_path (c : case) (p : path) : bool :=
  existsb (fun pk => existsb (fun q => Nat.ltb 1 (List.length (filter (fun h => path_eqb (h_path h) q) (p_files pk)))) (prefixes p)) (c_pkgs c).

Fixpoint stanzas_line_up (pkgs : list pkg) (db : list dbpkg) : bool :=
  match pkgs, db with
  | [], [] => true
  | pk :: ps, d :: ds => String.eqb (p_name pk) (dp_name d) && stanzas_line_up ps ds
  | _, _ => false
  end.

(* tarfs, a path shipped as a symbolic link only and not there before: the link in
   the observed tree is the one the walk of Model/InstallLinkWin.v names *)
Definition link_winner_ok (c : case) : bool :=
  match c_backend c with
  | Lazy =>
      forallb (fun h =>
        if kind_eqb (h_kind h) KSym &&
           forallb (fun x => negb (path_eqb (h_path x) (h_path h)) || kind_eqb (h_kind x) KSym) (all_hdrs (c_pkgs c)) &&
           match tree_get (c_pre c) (h_path h) with None => true | Some _ => false end &&
           (* not reached through a symbolic link in directory position (C07-F14: two names for one place) *)
           negb (existsb (fun x => kind_eqb (h_kind x) KSym && is_prefix_path (h_path x) (h_path h) &&
                                   negb (path_eqb (h_path x) (h_path h))) (all_hdrs (c_pkgs c)))
        then match sym_winner (c_pkgs c) (h_path h), tree_get (o_tree c) (h_path h) with
             | Some (_, w), Some n => tkind_eqb (t_kind n) TSym && N.eqb (t_sum n) (h_sum w)
             | _, _ => false
             end
        else true) (all_hdrs (c_pkgs c))
  | _ => true
  end.

Definition check_model (c : case) : list string :=
  match install_l (c_backend c) (c_pkgs c) (init_of (c_pre c)) with
  | RFail EUnsupported _ => ["mismatch:model-declines-case"]
  | RFail e s =>
      tag_if (negb (eclass_eqb (class_of e) (o_err c))) "mismatch:error-class" ++
      (if eclass_eqb (class_of e) (o_err c) then
         tag_if (negb (tree_matches (reader_view (c_backend c) (c_pkgs c) (s_fs s)) (o_tree c))) "mismatch:tree-after-error" ++
         tag_if (negb (option_eqb path_eqb (match e with EConflict p => Some p | _ => None end) (o_conflict c))) "mismatch:conflict-path" ++
         tag_if (match o_db c with [] => false | _ => true end) "mismatch:db-written-after-error"
       else [])
  | RDone f =>
      tag_if (negb (eclass_eqb ENoError (o_err c))) "mismatch:error-class" ++
      (if eclass_eqb ENoError (o_err c) then
         (* the tree as a READER sees it: tarfs fetches a node's bytes by the entry's name
            from the package's index (Model/InstallRead.v); the identity unless a package
            ships a name twice *)
         tag_if (negb (tree_matches (reader_view (c_backend c) (c_pkgs c) (f_fs f)) (o_tree c))) "mismatch:tree" ++
         (* the writer of Model/InstallDb.v: one header per name (the last), once
            per occurrence; equal to [f_db f] when no package ships a path twice
            (Proofs/InstallDbProofs.v: db_of_nodup) *)
         tag_if (negb (db_matches (c_pkgs c) (db_of f) (o_db c))) "mismatch:installed-db" ++
         tag_if (negb (link_winner_ok c)) "mismatch:link-winner"
       else [])
  end.

Definition check_observed (c : case) : list string :=
  nodup string_dec (
  tag_if (negb (o_db_parsed c)) "viol:installed-db-unreadable" ++
  (if rule_envelope c then check_rules (c_backend c) (c_pkgs c) (o_err c) (o_tree c) else []) ++
  (if eclass_eqb (o_err c) ENoError && o_db_parsed c then
     nodup string_dec (check_db_entries (c_backend c) (c_pre c) (o_tree c) (first_mode c) (aliased c) (thru_link c) (dup_path c) (o_db c)) ++
     check_stanza_dups (dup_path c) (o_db c) ++
     (if stanzas_line_up (c_pkgs c) (o_db c) then check_once_all (c_backend c) (c_pre c) (aliased c) (thru_link c) (dup_path c) (c_pkgs c) (o_db c) (o_tree c)
      else ["viol:db-stanza-per-package"])
   else []) ++
  (* a conflict must leave the path it names as it was: still a file or link *)
  match o_err c, o_conflict c with
  | EConflictClass, Some p =>
      tag_if (match tree_lookup (o_tree c) p with
              | Some n => negb (tkind_eqb (t_kind n) TReg || tkind_eqb (t_kind n) TSym)
              | None => true end) "viol:conflict-path-not-a-file"
  | _, _ => []
  end).

Definition check_case (c : case) : list string := check_model c ++ check_observed c.
