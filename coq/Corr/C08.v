(* C08 correspondence: histories of resolutions run on the real code through
   NewPkgResolver + GetPackagesWithDependencies, each call observed after its
   history (several repetitions of the whole history) and on fresh caches
   (several repetitions; a fresh process for corpus cases). The validator
   [history_independent_b] and the known-finding classification run here. *)
From Apko Require Export Base.Prelude Model.Caches Spec.CachesSpec Model.CachesBridge Model.CachesIndex Model.CachesGrouped.
From Apko Require Model.Resolver Corr.C02.
Open Scope string_scope. Open Scope list_scope.

Record hcase := {
  h_univ : universe;
  h_conc : bool;                            (* calls ran concurrently (after a sequential prefix) *)
  h_calls : list call;
  h_obs : list (list outcome);              (* per call: distinct outcomes seen after the history *)
  h_oracle : list (list outcome);           (* per call: distinct outcomes seen on fresh caches *)
  h_dq_before : list (option (list pid));   (* sequential only: cached dq entry found before the call *)
  h_dq_after : list (list pid);             (* sequential only: cached dq entry after the call *)
  h_ambig : list bool;                      (* the dq key of this call depends on map iteration order *)
  h_proto : list (nat * bool);              (* per index list: len(prototype.selected), maps unchanged since built *)
  h_memo_bad : list string;                 (* memo keys whose stored value differs from parsing *)
  h_rkeys : list (list idxid * option (list idxid))
                                            (* sequential only: index lists probed in the resolver trie after the history
                                               (every list some call used, its permutations and proper prefixes):
                                               None = nothing stored, Some l = the stored prototype was built from l *)
}.

(* ---- helpers ---------------------------------------------------------------- *)
Definition nil_pkg : pkg :=
  {| p_name := ""; p_version := ""; p_deps := []; p_provides := []; p_iif := []; p_origin := ""; p_prio := 0 |}.
Definition pkg_of (u : universe) (x : pid) : pkg := nth (snd x) (ix_pkgs (ix_of u (fst x))) nil_pkg.
Definition is_iif_pid (u : universe) (x : pid) : bool :=
  match p_iif (pkg_of u x) with [] => false | _ => true end.

Definition pid_leb (a b : pid) : bool :=
  Nat.ltb (fst a) (fst b) || (Nat.eqb (fst a) (fst b) && Nat.leb (snd a) (snd b)).
Fixpoint ins_pid (x : pid) (l : list pid) : list pid :=
  match l with [] => [x] | y :: t => if pid_leb x y then x :: l else y :: ins_pid x t end.
Definition sort_pids (l : list pid) : list pid := fold_right ins_pid [] l.

Fixpoint ins_nat (x : nat) (l : list nat) : list nat :=
  match l with [] => [x] | y :: t => if Nat.leb x y then x :: l else y :: ins_nat x t end.
Definition sort_nats (l : list nat) : list nat := fold_right ins_nat [] l.

Definition pids_eqb := list_eqb pid_eqb.

Fixpoint all_res (l : list outcome) : option (list (list pid)) :=
  match l with
  | [] => Some []
  | Res x :: t => match all_res t with Some t' => Some (x :: t') | None => None end
  | Fail :: _ => None
  end.

Definition all_same {A} (eqb : A -> A -> bool) (l : list A) : bool :=
  match l with [] => true | x :: t => forallb (eqb x) t end.

(* Go map equality of two allArchs values *)
Definition find_arch (a : string) (g : list (string * list idxid)) : option (list idxid) :=
  match find (fun kv => String.eqb (fst kv) a) g with Some kv => Some (snd kv) | None => None end.
Definition grouping_eqb (a b : list (string * list idxid)) : bool :=
  Nat.eqb (List.length a) (List.length b) &&
  forallb (fun kv => match find_arch (fst kv) b with Some v => list_eqb Nat.eqb (snd kv) v | None => false end) a.

(* the two calls put the same indexes (as a multiset) into the key *)
Definition same_index_multiset (a b : list (string * list idxid)) : bool :=
  list_eqb Nat.eqb (sort_nats (List.concat (List.map snd a))) (sort_nats (List.concat (List.map snd b))).

(* the precondition of the former finding C08-F2 (fixed by 3541d7b; the tag stays,
   unlisted, so that a regression is a VIOLATION): some other call of the history
   used the same indexes under another architecture grouping *)
Definition regrouped_precedent (others : list call) (c : call) : bool :=
  existsb (fun c' => same_index_multiset (cl_archs c') (cl_archs c) &&
                     negb (grouping_eqb (cl_archs c') (cl_archs c))) others.

(* ---- tags for one call's results ---------------------------------------------- *)
Definition result_tags (u : universe) (prec dq_wrong : bool) (obs oracle : list outcome) : list string :=
  if pure_b obs oracle then [] else
  match obs, oracle with
  | [], _ | _, [] => ["mismatch:harness-shape/no-outcome"]
  | _, _ =>
    let generic :=
      if prec && dq_wrong then ["viol:dq-cache-key-ignores-grouping"]
      else if Nat.eqb (List.length obs) 1 && Nat.eqb (List.length oracle) 1 then ["viol:history-dependent-result"]
      else ["viol:nondeterministic-result"] in
    match all_res (obs ++ oracle) with
    | Some ls =>
        let strips := List.map (filter (fun x => negb (is_iif_pid u x))) ls in
        let iifs := List.map (fun l => sort_pids (filter (is_iif_pid u) l)) ls in
        if all_same pids_eqb strips then
          if all_same pids_eqb iifs then ["viol:install-if-map-order"]
          else ["viol:install-if-chain-membership-by-map-order"]
        else generic
    | None => generic
    end
  end.

(* ---- tags for one call's disqualification set (sequential cases) -------------- *)
Definition dq_tags (u : universe) (prec : bool) (c : call) (before : option (list pid)) (after : list pid)
  : bool * list string :=
  let handed := match before with Some l => l | None => after end in
  let expected := dq_difference u (cl_archs c) in
  let wrong := negb (pids_eqb (sort_pids handed) expected) in
  (wrong,
   (if wrong then (if prec then ["viol:dq-cache-key-ignores-grouping"] else ["viol:dq-cache-entry-wrong"]) else []) ++
   tag_if (negb (pids_eqb (sort_pids after) (sort_pids handed))) "viol:dq-cache-entry-mutated-by-resolution").

(* ---- the model of the disqualification trie, run over the history --------------
   since fix 3541d7b a node keeps one entry per grouping: the cache layer with the
   key function CachesGrouped.grouping_key (trie path + grouping) *)
Definition unit_core (s : store) (_ : handles) (_ : list string) : store * unit := (s, tt).
Definition model_step (u : universe) (x : state) (c : call) : state :=
  fst (call_step (fun _ => []) (fun _ => []) (dq_difference u) (grouping_key u) unit unit_core true x c).
Definition model_entry (u : universe) (x : state) (c : call) : option (list pid) :=
  dq_entry (grouping_key u) x (cl_archs c).

Definition opt_pids_eqb (a b : option (list pid)) : bool :=
  match a, b with
  | None, None => true
  | Some x, Some y => pids_eqb (sort_pids x) (sort_pids y)
  | _, _ => false
  end.

(* ---- the sequential resolver model on what the cache model hands out -----------
   Every outcome observed for a call must be what Model/Resolver.v computes for
   the resolver of the call's indexes and THE DISQUALIFICATION SET THE CACHE
   MODEL SAYS THE CALL IS HANDED AFTER THIS HISTORY (for C08-F2 cases that is the
   wrongly shared entry). Corr/C02's comparison is reused: the ordered list must
   EQUAL the model's, install_if additions included (no schedule search since
   fix c03e0c0; every universe is compared, whatever its install_if structure). *)
Definition is_some {A} (o : option A) : bool := match o with Some _ => true | None => false end.
Definition flat_outcome (u : universe) (ixs : list idxid) (o : outcome) : option (option (list nat)) :=
  match o with
  | Fail => Some None
  | Res l => let fl := List.map (flat_of u ixs) l in
             if forallb is_some fl then Some (Some (filter_some fl)) else None
  end.
Definition model_result_tags (u : universe) (c : call) (handed : list pid) (obs : list outcome) : list string :=
  let R := Resolver.new_resolver (flatten u (cl_indexes c)) in
  let dq0 := flat_pids u (cl_indexes c) handed in
  flat_map (fun o => match flat_outcome u (cl_indexes c) o with
                     | None => ["mismatch:result-pid-outside-resolver"]
                     | Some fo => C02.compare_run R (cl_world c) dq0 fo
                     end) obs.

Fixpoint seq_tags (u : universe) (all : list call) (anyamb : bool) (x : state) (exact : bool)
  (calls : list call) (obs oracle : list (list outcome))
  (bef : list (option (list pid))) (aft : list (list pid)) (amb : list bool) : list string :=
  match calls, obs, oracle, bef, aft, amb with
  | [], [], [], [], [], [] => []
  | c :: calls', o :: obs', r :: oracle', b :: bef', a :: aft', m :: amb' =>
      let prec := regrouped_precedent all c in
      (* with an order-dependent key the hook's own lookup may use another key
         than the call did: no dq judgement, and a result difference counts as
         C08-F2 only under its precondition *)
      let (wrong, dt) := if m then (true, []) else dq_tags u prec c b a in
      let exact' := exact && negb m in
      let x' := model_step u x c in
      (* when some call of the history has an order-dependent key, whether the
         keys collided differs between the repetitions, and the entries were
         recorded in the last repetition only *)
      dt ++ result_tags u prec (wrong || anyamb) o r ++
      (if exact' then
         tag_if (negb (opt_pids_eqb (model_entry u x c) b)) "mismatch:dq-cache-model/entry-before-call" ++
         tag_if (negb (opt_pids_eqb (model_entry u x' c) (Some a))) "mismatch:dq-cache-model/entry-after-call" ++
         model_result_tags u c (match model_entry u x' c with Some l => l | None => [] end) o
       else []) ++
      seq_tags u all anyamb x' exact' calls' obs' oracle' bef' aft' amb'
  | _, _, _, _, _, _ => ["mismatch:harness-shape/lengths"]
  end.

Fixpoint conc_tags (u : universe) (all : list call)
  (calls : list call) (obs oracle : list (list outcome)) : list string :=
  match calls, obs, oracle with
  | [], [], [] => []
  | c :: calls', o :: obs', r :: oracle' =>
      let prec := regrouped_precedent all c in
      result_tags u prec true o r ++
      (if prec then [] else model_result_tags u c (dq_difference u (cl_archs c)) o) ++
      conc_tags u all calls' obs' oracle'
  | _, _, _ => ["mismatch:harness-shape/lengths"]
  end.

Definition proto_tags (l : list (nat * bool)) : list string :=
  tag_if (existsb (fun p => negb (Nat.eqb (fst p) 0)) l) "viol:cached-prototype-selected-nonempty" ++
  tag_if (existsb (fun p => negb (snd p)) l) "viol:cached-prototype-maps-changed".

Fixpoint dedup_tags (l : list string) : list string :=
  match l with
  | [] => []
  | t :: r => if existsb (String.eqb t) r then dedup_tags r else t :: dedup_tags r
  end.

(* ---- the resolver trie as an object ----------------------------------------------
   the model's rcache after the history must hold a prototype under exactly the
   probed lists the real trie holds one under, built from that very list (the
   ORDER of the list is part of the key: name-version ties go to the index listed first) *)
Definition model_final (u : universe) (calls : list call) : state :=
  fold_left (model_step u) calls empty_state.
Definition model_rkey (x : state) (k : list idxid) : option (list idxid) :=
  match find_key k (rcache x) with
  | Some h => match sget (st x) (h_idx h) with Some (OIdx l) => Some l | _ => Some [] end
  | None => None
  end.
Definition rkeys_tags (u : universe) (calls : list call) (probes : list (list idxid * option (list idxid))) : list string :=
  let x := model_final u calls in
  flat_map (fun p =>
    tag_if (match snd p with Some l => negb (list_eqb Nat.eqb l (fst p)) | None => false end)
           "viol:resolver-cache-entry-built-from-another-list" ++
    tag_if (negb (option_eqb (list_eqb Nat.eqb) (model_rkey x (fst p)) (snd p))) "mismatch:resolver-cache-model/key") probes.

Definition check_history (c : hcase) : list string :=
  dedup_tags (
    (if h_conc c then [] else rkeys_tags (h_univ c) (h_calls c) (h_rkeys c)) ++
    (if h_conc c then conc_tags (h_univ c) (h_calls c) (h_calls c) (h_obs c) (h_oracle c)
     else seq_tags (h_univ c) (h_calls c) (existsb (fun b => b) (h_ambig c)) empty_state true (h_calls c) (h_obs c) (h_oracle c)
                   (h_dq_before c) (h_dq_after c) (h_ambig c)) ++
    proto_tags (h_proto c) ++
    tag_if (match h_memo_bad c with [] => false | _ => true end) "viol:memo-entry-differs-from-parse").

(* ---- the index cache (GetRepositoryIndexes over local repositories) ------------ *)
Record icase := {
  i_steps : list (list (string * nat) * list string);   (* repositories as (pin name, directory id); world *)
  i_names : list (list string);                          (* Name() of every index returned *)
  i_obs : list (option (list (string * string)));        (* (name, version) install list or error *)
  i_oracle : list (option (list (string * string)))      (* the same step on never-seen copies of the directories *)
}.

Definition nv_eqb (a b : string * string) : bool := String.eqb (fst a) (fst b) && String.eqb (snd a) (snd b).
Definition ires_eqb := option_eqb (list_eqb nv_eqb).

(* an earlier step named the same directory with a different pin *)
Definition repinned_precedent (earlier : list (list (string * nat) * list string)) (repos : list (string * nat)) : bool :=
  existsb (fun r => existsb (fun st => existsb (fun r' => Nat.eqb (snd r) (snd r') && negb (String.eqb (fst r) (fst r'))) (fst st)) earlier) repos.

Fixpoint istep_tags (earlier steps : list (list (string * nat) * list string)) (names : list (list string))
  (obs oracle : list (option (list (string * string)))) : list string :=
  match steps, names, obs, oracle with
  | [], [], [], [] => []
  | s :: steps', n :: names', o :: obs', r :: oracle' =>
      let prec := repinned_precedent earlier (fst s) in
      let names_ok := list_eqb String.eqb n (List.map fst (fst s)) in
      tag_if (negb names_ok) (if prec then "viol:index-cache-ignores-pin-name" else "viol:index-name-differs-from-repository-line") ++
      tag_if (negb (ires_eqb o r)) (if prec && negb names_ok then "viol:index-cache-ignores-pin-name" else "viol:history-dependent-result") ++
      istep_tags (earlier ++ [s]) steps' names' obs' oracle'
  | _, _, _, _ => ["mismatch:harness-shape/lengths"]
  end.

Definition check_indexcache (c : icase) : list string :=
  dedup_tags (istep_tags [] (i_steps c) (i_names c) (i_obs c) (i_oracle c)).

(* ---- the index cache over histories WITH REWRITES (stage indexhist) ---------------
   Events: a repository's index file is (re)written - the harness sets its
   modification time explicitly -, or GetRepositoryIndexes + a resolution run
   over some repository lines.  Per request the harness reports, for every index
   returned, its Name(), the directory it was read from and its packages, and the
   install list; the oracle is the same request on copies of the directories'
   present contents that the process has never read.

   Convention for [rr_ctx] (one per request: the keys / signature options of the
   call): "unverified" = signatures ignored; "k1" / "k12" = verified with a keyring
   that holds the signing key; "k2" = verified with a keyring that does not (every
   parse is an error, which the cache stores like a result). *)
Definition content := list (string * string).
Record rref := { rr_pin : string; rr_dir : nat; rr_ctx : string; rr_http : bool; rr_hdr : string }.
Definition ixobs := (nat * string * content)%type.               (* directory, Name(), packages *)
Definition jres := option (list (string * string * nat)).        (* (name, version, directory) install list *)
Inductive jev :=
| JWrite (d : nat) (mt : Z) (c : content)
| JGet (repos : list rref) (world : list string) (obs : option (list ixobs)) (res oracle : jres).
Record jcase := { j_events : list jev }.

Definition jkey (r : rref) : ekey := {| ek_path := rr_dir r; ek_ctx := rr_ctx r; ek_name := rr_pin r |}.
Definition j_parse (k : ekey) (c : content) : option ixobs :=
  if String.eqb (ek_ctx k) "k2" then None else Some (ek_path k, ek_name k, c).

(* a remote index is keyed by its ETag and NOT cached at all when the server sends
   no ETag - with or without a Last-Modified header, which the code does not look
   at (Model/CachesIndex.rc_get).  [rr_hdr]: what the harness' server sends for the
   line: "etag" (or "") = an ETag derived from the bytes (modelled as the bytes
   themselves) and Last-Modified, "lastmod" = Last-Modified only, "none" = neither.
   A missing remote index is a 404, an error. *)
Definition content_eqb : content -> content -> bool := list_eqb nv_eqb.
Definition j_served (fs : files content) (r : rref) : rfiles content content :=
  match fget fs (rr_dir r) with
  | Some (_, c) => [(rr_dir r, (if String.eqb (rr_hdr r) "etag" || String.eqb (rr_hdr r) "" then Some c else None, c))]
  | None => []
  end.
Definition j_remote (fs : files content) (r : rref) : gres ixobs := rcurrent j_parse (j_served fs r) (jkey r).

(* the local lines go through the cache model in repository order (any schedule
   gives the same slots and an equivalent cache: c08_index_list_schedule_independent),
   the remote ones through the model of the remote branch *)
Definition jstate := (icache ixobs * remote_cache ixobs content)%type.
Fixpoint j_slots (fs : files content) (x : jstate) (repos : list rref) : jstate * list (option (gres ixobs)) :=
  match repos with
  | [] => (x, [])
  | r :: t =>
      if rr_http r then
        let (y1, g) := rc_get content_eqb j_parse (j_served fs r) (snd x) (jkey r) in
        let (x', sl) := j_slots fs (fst x, y1) t in (x', Some g :: sl)
      else let (x1, g) := ic_get j_parse fs (fst x) (jkey r) in
           let (x', sl) := j_slots fs (x1, snd x) t in (x', Some g :: sl)
  end.
Definition j_fresh (fs : files content) (repos : list rref) : option (list ixobs) :=
  assemble (List.map (fun r => Some (if rr_http r then j_remote fs r else current j_parse fs (jkey r))) repos).

Definition ixobs_eqb (a b : ixobs) : bool :=
  Nat.eqb (fst (fst a)) (fst (fst b)) && String.eqb (snd (fst a)) (snd (fst b)) && content_eqb (snd a) (snd b).
Definition nvd_eqb (a b : string * string * nat) : bool :=
  String.eqb (fst (fst a)) (fst (fst b)) && String.eqb (snd (fst a)) (snd (fst b)) && Nat.eqb (snd a) (snd b).
Definition jres_eqb : jres -> jres -> bool := option_eqb (list_eqb nvd_eqb).

Definition stale_tag (known : bool) : string :=
  if known then "viol:index-cache-stale-after-rewrite-with-unchanged-mtime" else "viol:index-cache-stale".

Fixpoint jrun (fs : files content) (x : jstate) (bad : list nat) (evs : list jev) : list string :=
  match evs with
  | [] => []
  | JWrite d mt c :: t =>
      (* a rewrite that does not move the time past EVERY time the file ever had: outside ic_fresh's
         hypothesis (finding C08-F5); a later rewrite past all of them repairs every entry *)
      let older := forallb (fun e => negb (Nat.eqb (fst e) d) || Z.ltb (fst (snd e)) mt) fs in   (* [fs] keeps every earlier binding *)
      let bad' := if older then filter (fun x => negb (Nat.eqb x d)) bad else d :: bad in
      jrun (fwrite fs d mt c) x bad' t
  | JGet repos world obs res oracle :: t =>
      let (x', sl) := j_slots fs x repos in
      let model := assemble sl in
      let fresh := j_fresh fs repos in
      (* the former finding's mechanism explains a stale answer only for LOCAL lines of a directory rewritten
         without moving its time forward: every index that differs from the present contents must be one *)
      let survivors := List.filter (fun r => match (if rr_http r then j_remote fs r else current j_parse fs (jkey r)) with
                                             | GGot (Some _) => true | _ => false end) repos in
      let known := match obs, fresh with
                   | Some o, Some f =>
                       forallb (fun t => content_eqb (snd (fst (snd t))) (snd (snd (snd t))) ||
                                         (negb (rr_http (fst t)) && existsb (Nat.eqb (rr_dir (fst t))) bad))
                               (List.combine survivors (List.combine o f))
                   | _, _ => false
                   end in
      tag_if (negb (option_eqb (list_eqb ixobs_eqb) obs model)) "mismatch:index-cache-model" ++
      (if option_eqb (list_eqb ixobs_eqb) obs fresh then
         tag_if (negb (jres_eqb res oracle)) "viol:history-dependent-result"
       else
         match obs, fresh with
         | Some o, Some f =>
             if negb (list_eqb Nat.eqb (List.map (fun i => fst (fst i)) o) (List.map (fun i => fst (fst i)) f))
             then ["viol:index-order-differs-from-repository-order"]
             else if negb (list_eqb String.eqb (List.map (fun i => snd (fst i)) o) (List.map (fun i => snd (fst i)) f))
             then ["viol:index-name-differs-from-repository-line"]
             else [stale_tag known]
         | _, _ => ["viol:index-request-outcome-differs-from-fresh-process"]
         end ++
         tag_if (negb (jres_eqb res oracle) && negb known) "viol:history-dependent-result") ++
      jrun fs x' bad t
  end.

Definition check_indexhist (c : jcase) : list string := dedup_tags (jrun [] (ic_empty, rc_empty) [] (j_events c)).
