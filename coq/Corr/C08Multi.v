(* C08 correspondence, stage multiarch: REPEATED multi-architecture resolutions through
   real APK objects wired by build.NewMultiArch (every context's APK.ResolveWorld with
   its ByArch siblings), in one process.  Purity: the R repetitions of one
   architecture's ResolveWorld give ONE outcome; it is the outcome of the model
   (Model/MultiArch.resolve_arch: wiring + Model/Resolver.v, i.e. the list filtered
   by what the siblings lack); and the verified validator foreign_check of C14 finds
   no member that a sibling lacks.  Uses C14's correspondence definitions
   (compare_lists, foreign_tags, repos_fn); kept apart from Corr/C08.v because the
   two developments use the same names for different things. *)
From Apko Require Export Corr.C14.
Open Scope string_scope. Open Scope list_scope.

Record mcase := {
  m_archs : list string;                                               (* as handed to NewMultiArch *)
  m_repos : list (string * list nindex);                               (* architecture -> its index objects *)
  m_world : list string;                                               (* what GetWorld returns *)
  m_reps : nat;
  m_obs : list (string * list (option (list (string * string))))       (* context -> the DISTINCT outcomes of its repetitions *)
}.

Definition check_multi (c : mcase) : list string :=
  let repos := repos_fn (m_repos c) in
  let ctx := contexts (m_archs c) in
  nodup string_dec (
    tag_if (negb (set_eqb String.eqb ctx (List.map fst (m_obs c)))) "mismatch:contexts" ++
    flat_map (fun ao =>
      let a := fst ao in
      let own := flatten (repos a) in
      let others := List.map (fun b => flatten (repos b)) (List.filter (fun b => negb (String.eqb b a)) ctx) in
      match snd ao with
      | [] => ["mismatch:harness-shape/no-outcome"]
      | [_] => []
      | _ => ["viol:nondeterministic-result"]
      end ++
      flat_map (fun o =>
        compare_lists (resolve_arch repos ctx (m_world c) a) o (has_iif_pkgs own) ++
        match o with Some l => foreign_tags own others l | None => [] end) (snd ao)) (m_obs c)).
