(* C09 correspondence: what the harness observed of the real unify /
   LockImageConfiguration / apko lock / apko build --lockfile, compared with the
   model (mismatch:...) and judged by the validators of Spec/LockSpec.v (viol:...). *)
From Apko Require Export Base.Prelude Base.Regex Base.C12Lib Model.Version Model.Lock Spec.LockSpec
  Generated.C09Lock.
Open Scope string_scope. Open Scope list_scope.

(* ---- stage "unify": unify through the verif hook ----------------------------- *)
Inductive uobs := UOk (bya mba : bymap) | UErr | UPanic.

Record unify_case := {
  u_originals : list string;
  u_inputs : list resolved;
  u_runs : list uobs           (* the same call repeated: Go randomises set/map iteration *)
}.

Definition sort_by_key (m : bymap) : bymap := isort fst m.
Definition entry_eqb (x y : string * list string) : bool :=
  String.eqb (fst x) (fst y) && list_eqb String.eqb (snd x) (snd y).
Definition bymap_eqb (a b : bymap) : bool := list_eqb entry_eqb a b.

Definition uobs_eqb (a b : uobs) : bool :=
  match a, b with
  | UOk x y, UOk x' y' => bymap_eqb x x' && bymap_eqb y y'
  | UErr, UErr | UPanic, UPanic => true
  | _, _ => false
  end.
Definition model_obs (r : res (bymap * bymap)) : option uobs :=
  match r with
  | Ok (a, b) => Some (UOk (sort_by_key a) (sort_by_key b))
  | Err => Some UErr
  | Panic => Some UPanic
  | OutOfFuel => None
  end.

(* inputs as LockImageConfiguration builds them: packages = keys(versions),
   provided only for listed packages, distinct architectures, none called "index" *)
Definition set_eqb (a b : list string) : bool := forallb (fun x => smem x b) a && forallb (fun x => smem x a) b.
Fixpoint nodupb (l : list string) : bool :=
  match l with [] => true | x :: t => negb (smem x t) && nodupb t end.
Definition wf_resolved_b (r : resolved) : bool :=
  set_eqb (r_packages r) (akeys (r_versions r)) && nodupb (r_packages r) && nodupb (akeys (r_versions r)) &&
  nodupb (akeys (r_provided r)) && forallb (fun k => smem k (r_packages r)) (akeys (r_provided r)) &&
  forallb (fun kv => nodupb (snd kv) && negb (Nat.eqb (List.length (snd kv)) 0)) (r_provided r).
Definition wf_inputs_b (l : list resolved) : bool :=
  forallb wf_resolved_b l && nodupb (List.map r_arch l) && negb (smem unify_index_key (List.map r_arch l)).
Definition clean_originals_b (l : list string) : bool := forallb (full_match lock_package_name_regex) l.

(* the validators on one observed result *)
Definition judge_unify (originals : list string) (inputs : list resolved) (o : uobs) : list string :=
  match o, inputs, originals with
  | UOk bya _, r0 :: rest, _ :: _ =>
      let pin := spec_pin originals in
      tag_if (negb (index_sound_b pin r0 rest (pget unify_index_key bya))) "viol:index-entry-not-agreed-on-every-arch" ++
      tag_if (negb (forallb (fun r => match alookup (r_arch r) bya with
                                      | Some l => arch_lock_exact_b pin r l
                                      | None => false
                                      end) inputs)) "viol:arch-lock-differs-from-resolution"
  | _, _, _ => []
  end.

Definition check_unify (c : unify_case) : list string :=
  let m := unify id_ord id_ordp (u_originals c) (u_inputs c) in
  let m' := unify rev_ord rev_ordp (u_originals c) (u_inputs c) in
  match model_obs m, model_obs m' with
  | Some mo, Some mo' =>
      tag_if (negb (uobs_eqb mo mo')) "mismatch:model-depends-on-iteration-order" ++
      tag_if (negb (forallb (uobs_eqb mo) (u_runs c))) "mismatch:unify-result" ++
      (if wf_inputs_b (u_inputs c) && clean_originals_b (u_originals c)
       then List.concat (List.map (judge_unify (u_originals c) (u_inputs c)) (firstn 1 (u_runs c)))
       else []) ++
      tag_if (match u_runs c with
              | o :: more => negb (forallb (uobs_eqb o) more)
              | [] => false
              end) "viol:unify-result-varies-between-identical-calls"
  | _, _ => ["mismatch:model-out-of-fuel"]
  end.

(* provided-name extraction of LockImageConfiguration (parts[0][1]) *)
Record provname_case := { pn_in : string; pn_out : option string }.
Definition check_provname (c : provname_case) : list string :=
  tag_if (negb (option_eqb String.eqb (provided_name (pn_in c)) (pn_out c))) "mismatch:provided-name".
