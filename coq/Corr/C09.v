(* C09 correspondence: what the harness observed of the real unify /
   LockImageConfiguration / apko lock / apko build --lockfile, compared with the
   model (mismatch:...) and judged by the validators of Spec/LockSpec.v (viol:...). *)
From Apko Require Export Base.Prelude Base.Regex Base.C12Lib Model.Version Model.Lock Spec.LockSpec
  Generated.C09Lock Model.LockArchOrder.
From Apko Require Model.Resolver Model.LockBuild Model.LockGuard.
Open Scope string_scope. Open Scope list_scope.

(* ---- stage "unify": unify through the verif hook ----------------------------- *)
Inductive uobs := UOk (bya mba : bymap) | UErr | UPanic.

Record unify_case := {
  u_originals : list string;
  u_inputs : list resolved;
  u_runs : list uobs;          (* the same call repeated: Go randomises set/map iteration *)
  u_runs_rot : list uobs       (* the same with the first architecture moved to the end: the order of
                                  [inputs] is the order of a Go map range in LockImageConfiguration *)
}.
Definition rotate {A} (l : list A) : list A := match l with [] => [] | x :: t => t ++ [x] end.

Definition sort_by_key (m : bymap) : bymap := isort fst m.
Definition entry_eqb (x y : string * list string) : bool :=
  String.eqb (fst x) (fst y) && list_eqb String.eqb (snd x) (snd y).
Definition bymap_eqb (a b : bymap) : bool := list_eqb entry_eqb a b.

Definition uobs_eqb (a b : uobs) : bool :=
  match a, b with
  | UOk x y, UOk x' y' => bymap_eqb x x' && bymap_eqb y y'
  | UErr, UErr | UPanic, UPanic => true
  | _, _ => false
  end.
Definition model_obs (r : res (bymap * bymap)) : option uobs :=
  match r with
  | Ok (a, b) => Some (UOk (sort_by_key a) (sort_by_key b))
  | Err => Some UErr
  | Panic => Some UPanic
  | OutOfFuel => None
  end.

(* inputs as LockImageConfiguration builds them: packages = keys(versions),
   provided only for listed packages, distinct architectures, none called "index" *)
Definition set_eqb (a b : list string) : bool := forallb (fun x => smem x b) a && forallb (fun x => smem x a) b.
Fixpoint nodupb (l : list string) : bool :=
  match l with [] => true | x :: t => negb (smem x t) && nodupb t end.
Definition wf_resolved_b (r : resolved) : bool :=
  set_eqb (r_packages r) (akeys (r_versions r)) && nodupb (r_packages r) && nodupb (akeys (r_versions r)) &&
  nodupb (akeys (r_provided r)) && forallb (fun k => smem k (r_packages r)) (akeys (r_provided r)) &&
  forallb (fun kv => nodupb (snd kv) && negb (Nat.eqb (List.length (snd kv)) 0)) (r_provided r).
Definition wf_inputs_b (l : list resolved) : bool :=
  forallb wf_resolved_b l && nodupb (List.map r_arch l) && negb (smem unify_index_key (List.map r_arch l)).
Definition clean_originals_b (l : list string) : bool := forallb (full_match lock_package_name_regex) l.

(* the validators on one observed result *)
Definition judge_unify (originals : list string) (inputs : list resolved) (o : uobs) : list string :=
  match o, inputs, originals with
  | UOk bya _, r0 :: rest, _ :: _ =>
      let pin := spec_pin originals in
      tag_if (negb (index_sound_b pin r0 rest (pget unify_index_key bya))) "viol:index-entry-not-agreed-on-every-arch" ++
      tag_if (negb (forallb (fun r => match alookup (r_arch r) bya with
                                      | Some l => arch_lock_exact_b pin r l
                                      | None => false
                                      end) inputs)) "viol:arch-lock-differs-from-resolution"
  | _, _, _ => []
  end.

Definition check_unify (c : unify_case) : list string :=
  let m := unify id_ord id_ordp (u_originals c) (u_inputs c) in
  let m' := unify rev_ord rev_ordp (u_originals c) (u_inputs c) in
  let mr := unify id_ord id_ordp (u_originals c) (rotate (u_inputs c)) in
  match model_obs m, model_obs m', model_obs mr with
  | Some mo, Some mo', Some mor =>
      let wf := wf_inputs_b (u_inputs c) in
      tag_if (negb (uobs_eqb mo mo')) "mismatch:model-depends-on-iteration-order" ++
      tag_if (negb (forallb (uobs_eqb mo) (u_runs c))) "mismatch:unify-result" ++
      tag_if (negb (forallb (uobs_eqb mor) (u_runs_rot c))) "mismatch:unify-result-rotated-inputs" ++
      (if wf && clean_originals_b (u_originals c)
       then List.concat (List.map (judge_unify (u_originals c) (u_inputs c)) (firstn 1 (u_runs c))) ++
            List.concat (List.map (judge_unify (u_originals c) (rotate (u_inputs c))) (firstn 1 (u_runs_rot c)))
       else []) ++
      tag_if (match u_runs c with
              | o :: more => negb (forallb (uobs_eqb o) more)
              | [] => false
              end) "viol:unify-result-varies-between-identical-calls" ++
      tag_if (wf && match u_runs c, u_runs_rot c with
                    | o :: _, o' :: _ => negb (uobs_eqb o o')
                    | _, _ => false
                    end) "viol:unify-depends-on-architecture-order"
  | _, _, _ => ["mismatch:model-out-of-fuel"]
  end.

(* provided-name extraction of LockImageConfiguration (parts[0][1]) *)
Record provname_case := { pn_in : string; pn_out : option string }.
Definition check_provname (c : provname_case) : list string :=
  tag_if (negb (option_eqb String.eqb (provided_name (pn_in c)) (pn_out c))) "mismatch:provided-name".

(* ---- stage "api": LockImageConfiguration on synthetic repositories ----------- *)
(* one resolved package as observed: name/version/provides, its dependencies,
   and whether this (name, version) is only obtainable from a tagged repository *)
Record opkg := { q_pkg : rpkg; q_deps : list string; q_tagged_only : bool }.

Record api_case := {
  e_originals : list string;
  e_resolution : option (list (string * list opkg));         (* per architecture, install order; None = failed *)
  e_lock_runs : list uobs;                                   (* LockImageConfiguration, repeated *)
  e_relock : list (string * option (list (string * string))); (* each per-arch lock resolved again *)
  e_index_relock : option (option (list (string * list (string * string))));  (* the shared lock, when nothing is missing *)
  e_universe : list (string * list cand)                     (* per architecture: every package of every repository *)
}.

Fixpoint insert_everywhere {A} (x : A) (l : list A) : list (list A) :=
  match l with
  | [] => [[x]]
  | y :: t => (x :: l) :: List.map (cons y) (insert_everywhere x t)
  end.
Fixpoint perms {A} (l : list A) : list (list A) :=
  match l with
  | [] => [[]]
  | x :: t => flat_map (insert_everywhere x) (perms t)
  end.

Definition nv_of (ps : list opkg) : list (string * string) :=
  List.map (fun q => (p_name (q_pkg q), p_version (q_pkg q))) ps.

(* is dependency [d] satisfied inside the observed set? (negative "!x" entries
   are not requirements) *)
Definition version_ok (c : constraint) (v : string) : bool :=
  match c_version c with
  | EmptyString => true
  | _ => match parse_version v with
         | Some av => match satisfied_by c av with Some b => b | None => false end
         | None => false
         end
  end.
Definition dep_satisfied (ps : list opkg) (d : string) : bool :=
  match d with
  | String "!" _ => true
  | _ =>
    let c := resolve_constraint d in
    existsb (fun q =>
      (String.eqb (p_name (q_pkg q)) (c_name c) && version_ok c (p_version (q_pkg q))) ||
      existsb (fun prov => let pc := resolve_constraint prov in
                           String.eqb (c_name pc) (c_name c) &&
                           match c_version c with
                           | EmptyString => true
                           | _ => match c_version pc with EmptyString => false | pv => version_ok c pv end
                           end) (p_provides (q_pkg q))) ps
  end.
Definition closed_b (ps : list opkg) : bool :=
  forallb (fun q => forallb (dep_satisfied ps) (q_deps q)) ps.

(* an entry of the lock list for package [n] that carries no pin *)
Definition has_at (s : string) : bool := has_char "@"%char s.
Definition entry_for (n : string) (l : list string) : option string :=
  find (fun e => match cut_at "="%char e with Some (a, _) => String.eqb a n | None => false end) l.
Definition unpinned_tagged (ps : list opkg) (lockl : list string) : bool :=
  existsb (fun q => q_tagged_only q &&
                    match entry_for (p_name (q_pkg q)) lockl with Some e => negb (has_at e) | None => true end) ps.

(* why a re-resolution may legitimately be expected to fail today: each
   alternative is one recorded finding's mechanism *)
(* outside the envelope of c09_fixpoint_partial: the exact entry of some member
   admits another package of the universe (one that provides name=version) *)
Definition same_cand (k : cand) (q : opkg) : bool :=
  String.eqb (k_name k) (p_name (q_pkg q)) && String.eqb (k_version k) (p_version (q_pkg q)).
Definition entry_admits_other (U : list cand) (ps : list opkg) : bool :=
  existsb (fun q =>
    let n := p_name (q_pkg q) in
    existsb (fun k => negb (same_cand k q))
            (filter_for (resolve_constraint (n ++ "=" ++ p_version (q_pkg q))) (cands_of U n))) ps.

(* C09-F6: the observed origin holds a member that another member excludes with a
   conflict entry "!x" (the resolver applies "!x" when the excluding package is
   expanded; a package chosen BEFORE stays in the list) — inside the envelopes of
   c09_fixpoint_resolver_partial, see c09_fixpoint_resolver_refuted *)
(* ... "excluded" as disqualifyProviders computes it: what filterPackages lets through for the constraint after the "!"
   (Model/Lock.filter_for on the members — the own version OR ANY provides entry, of whatever name, may pass the version
   test: n1-1.0-r0 with `provides n5=2.0-r0` is excluded by its own `!n1>=2.0-r0`); this is hypothesis
   no_member_excluded of c09_fixpoint_resolver_partial, negated, on the observed origin *)
Definition cand_of_opkg (q : opkg) : cand :=
  {| k_name := p_name (q_pkg q); k_version := p_version (q_pkg q); k_provides := p_provides (q_pkg q);
     k_deps := q_deps q; k_pinned := ""; k_dq := false |}.
Definition member_excluded_by_member (ps : list opkg) : bool :=
  existsb (fun q => existsb (fun d => match d with
                                      | String "!" rest =>
                                          dep_satisfied ps rest ||
                                          let c := resolve_constraint rest in
                                          match filter_for c (cands_of (List.map cand_of_opkg ps) (c_name c)) with
                                          | [] => false
                                          | _ => true
                                          end
                                      | _ => false
                                      end) (q_deps q)) ps.

(* C09-F7: a member q' provides the NAME of another member q at another version (or without one): the
   exact entry name(q)=version(q) makes `constrain` disqualify q' (its provide does not satisfy the entry;
   an unversioned provide is a parse error there), and the entry of q' then has no candidate *)
Definition member_disqualified_by_entry (ps : list opkg) : bool :=
  existsb (fun q =>
    existsb (fun q' =>
      negb (String.eqb (p_name (q_pkg q')) (p_name (q_pkg q))) &&
      existsb (fun prov =>
        let pc := resolve_constraint prov in
        String.eqb (c_name pc) (p_name (q_pkg q)) &&
        negb (match c_version pc with
              | EmptyString => false
              | pv => version_ok (resolve_constraint (p_name (q_pkg q) ++ "=" ++ p_version (q_pkg q))) pv
              end)) (p_provides (q_pkg q'))) ps) ps.

(* C09-F8: a member that only the tagged repository offers is needed by another member under a name it merely
   PROVIDES (hypothesis pinned_by_own_name of c09_fixpoint_pinned_partial, negated, on the observed origin): the walk
   that reaches it admits a tagged provider only when it happens to carry the tag *)
Definition tagged_provider_of_virtual (ps : list opkg) : bool :=
  existsb (fun y => q_tagged_only y &&
    existsb (fun m => existsb (fun d =>
      match d with
      | String "!" _ => false
      | _ => let c := resolve_constraint d in
             negb (String.eqb (c_name c) (p_name (q_pkg y))) &&
             existsb (fun prov => String.eqb (c_name (resolve_constraint prov)) (c_name c)) (p_provides (q_pkg y))
      end) (q_deps m)) ps) ps.

Definition relock_failure_tag (what : string) (U : list cand) (ps : list opkg) (lockl : list string) : string :=
  if unpinned_tagged ps lockl then "viol:fixpoint/unpinned-entry-for-package-from-tagged-repo"
  else if tagged_provider_of_virtual ps then "viol:fixpoint/tagged-provider-reached-through-provided-name"
  else if negb (closed_b ps) then "viol:fixpoint/origin-resolution-not-closed"
  else if entry_admits_other U ps then "viol:fixpoint/entry-admits-other-package"
  else if member_excluded_by_member ps then "viol:fixpoint/member-excluded-by-conflict-entry-of-member"
  else if member_disqualified_by_entry ps then "viol:fixpoint/entry-disqualifies-member-providing-its-name"
  else "viol:" ++ what.

Definition judge_relock (univ : list (string * list cand)) (res : list (string * list opkg)) (locks : bymap)
    (relock : list (string * option (list (string * string)))) : list string :=
  List.concat (List.map (fun ar =>
    let '(arch, r) := ar in
    match alookup arch res with
    | None => ["mismatch:relock-of-unknown-arch"]
    | Some ps =>
        match r with
        | None => [relock_failure_tag "relock-fails" (match alookup arch univ with Some u => u | None => [] end) ps (pget arch locks)]
        | Some l => if same_members_b l (nv_of ps) then []
                    else [relock_failure_tag "relock-differs" (match alookup arch univ with Some u => u | None => [] end) ps (pget arch locks)]
        end
    end) relock).

(* the resolver MODEL (Model/Resolver.v, the one c09_fixpoint_resolver_partial is about) on what the
   implementation was asked when a per-architecture lock was resolved again: that architecture's universe,
   no cross-architecture disqualification (a single-architecture configuration), the lock list as world.
   Compared as ORDERED lists of (name, version) — the model is a function of its inputs, the
   implementation's install order must be the model's —, or error with error.  synthrepo packages: origin = name,
   provider priority 0, no install_if; the tagged repository is the second index. *)
Definition rpkg_of_cand (k : cand) : Resolver.pkg :=
  {| Resolver.p_name := k_name k; Resolver.p_version := k_version k; Resolver.p_origin := k_name k;
     Resolver.p_deps := k_deps k; Resolver.p_provides := k_provides k; Resolver.p_install_if := [];
     Resolver.p_prio := 0%N; Resolver.p_pin := k_pinned k;
     Resolver.p_repo := if String.eqb (k_pinned k) "" then "repo-main" else "repo-tagged" |}.
Definition model_relock (U : list cand) (L : list string) : option (option (list (string * string))) :=
  let RU := List.filter (fun p => String.eqb (Resolver.p_pin p) "") (List.map rpkg_of_cand U) ++
            List.filter (fun p => negb (String.eqb (Resolver.p_pin p) "")) (List.map rpkg_of_cand U) in
  match Resolver.resolve RU L [] with
  | Ok l => Some (Some (List.map (fun j => let p := nth j RU Resolver.dummy_pkg in (Resolver.p_name p, Resolver.p_version p)) l))
  | Err => Some None
  | Panic | OutOfFuel => None
  end.
Definition check_relock_model (univ : list (string * list cand)) (locks : bymap)
    (relock : list (string * option (list (string * string)))) : list string :=
  List.concat (List.map (fun ar =>
    let '(arch, r) := ar in
    match alookup arch univ with
    | None => []
    | Some U =>
        match model_relock U (pget arch locks), r with
        | Some (Some m), Some l =>
            if negb (same_members_b m l) then ["mismatch:relock-resolver-model-differs"]
            else tag_if (negb (list_eqb nv_eqb m l)) "mismatch:relock-resolver-model-differs/order"
        | Some None, None => []
        | Some None, Some _ => ["mismatch:relock-model-error-impl-ok"]
        | Some (Some _), None => ["mismatch:relock-model-ok-impl-error"]
        | None, _ => ["mismatch:relock-model-panic-or-out-of-fuel"]
        end
    end) relock).

(* the ORIGIN itself through the resolver model: each architecture's universe, the world file of the request list
   (sorted, duplicate-free), the cross-architecture disqualification of C14's model (Resolver.dq_for). Ordered
   (name, version) lists; when the implementation failed, the model must fail on some architecture. This is the
   hypothesis `resolve U W dq0 = Ok S` of the fixpoint theorems, observed. *)
Definition runiverse (U : list cand) : Resolver.universe :=
  List.filter (fun p => String.eqb (Resolver.p_pin p) "") (List.map rpkg_of_cand U) ++
  List.filter (fun p => negb (String.eqb (Resolver.p_pin p) "")) (List.map rpkg_of_cand U).
Definition check_origin_model (c : api_case) : list string :=
  let by_arch := List.map (fun au => (fst au, runiverse (snd au))) (e_universe c) in
  let W := LockBuild.world_of (e_originals c) in
  let models := List.map (fun au =>
      (fst au, match Resolver.resolve (snd au) W (Resolver.dq_for by_arch (fst au)) with
               | Ok l => Some (Some (List.map (fun j => let p := nth j (snd au) Resolver.dummy_pkg in (Resolver.p_name p, Resolver.p_version p)) l))
               | Err => Some None
               | Panic | OutOfFuel => None
               end)) by_arch in
  match e_resolution c with
  | None => tag_if (forallb (fun m => match snd m with Some (Some _) => true | _ => false end) models) "mismatch:origin-model-ok-impl-error"
  | Some res =>
      List.concat (List.map (fun m =>
        match snd m, alookup (fst m) res with
        | Some (Some l), Some ps => tag_if (negb (list_eqb nv_eqb l (nv_of ps))) "mismatch:origin-resolver-model-differs"
        | Some None, Some _ => ["mismatch:origin-model-error-impl-ok"]
        | None, _ => ["mismatch:origin-model-panic-or-out-of-fuel"]
        | _, None => ["mismatch:origin-of-unknown-arch"]
        end) models)
  end.

Definition judge_index_relock (univ : list (string * list cand)) (res : list (string * list opkg)) (locks : bymap)
    (ir : option (option (list (string * list (string * string))))) : list string :=
  match ir with
  | None => []
  | Some None =>
      match res with
      | (_, ps) :: _ =>
          (* the failing architecture is not reported: classify on any of them *)
          let tags := List.map (fun ap => relock_failure_tag "index-relock-fails"
                                   (match alookup (fst ap) univ with Some u => u | None => [] end) (snd ap) (pget unify_index_key locks)) res in
          match find (fun t => negb (String.eqb t "viol:index-relock-fails")) tags with
          | Some t => [t]
          | None => ["viol:index-relock-fails"]
          end
      | [] => []
      end
  | Some (Some per) =>
      List.concat (List.map (fun al =>
        match alookup (fst al) res with
        | Some ps => if same_members_b (snd al) (nv_of ps) then []
                     else [relock_failure_tag "index-relock-differs" (match alookup (fst al) univ with Some u => u | None => [] end) ps (pget unify_index_key locks)]
        | None => ["mismatch:index-relock-of-unknown-arch"]
        end) per)
  end.

Definition check_api (c : api_case) : list string :=
  check_origin_model c ++
  match e_resolution c with
  | None =>
      tag_if (negb (forallb (fun o => match o with UErr => true | _ => false end) (e_lock_runs c)))
             "mismatch:lock-succeeds-where-resolution-fails"
  | Some res =>
      let archs := List.map (fun ap => (fst ap, List.map q_pkg (snd ap))) res in
      (* since fix 8c1f464 the architectures are visited in sorted order (goextract reads it from the loop:
         lock_archs_order); were the loop a map range again, any order of the architectures would be a possible run *)
      let models := if String.eqb lock_archs_order "sorted"
                    then [model_obs (lock_image_configuration_now id_ord id_ordp (e_originals c) archs)]
                    else List.map (fun p => model_obs (lock_image_configuration id_ord id_ordp (e_originals c) p)) (perms archs) in
      let inputs := List.map (fun ap => resolved_of (fst ap) (snd ap)) archs in
      tag_if (negb (forallb (fun o => existsb (fun m => match m with Some mo => uobs_eqb mo o | None => false end) models) (e_lock_runs c)))
             "mismatch:lock-image-configuration" ++
      (* one call, one result (c09_shared_lock_sorted_order_deterministic): the repeated runs agree *)
      tag_if (match e_lock_runs c with
              | o :: more => negb (forallb (uobs_eqb o) more)
              | [] => false
              end) "viol:lock-image-configuration-varies-between-identical-calls" ++
      match find (fun o => match o with UOk _ _ => true | _ => false end) (e_lock_runs c) with
      | Some (UOk bya mba as o) =>
          (if clean_originals_b (e_originals c) then judge_unify (e_originals c) inputs o else []) ++
          judge_relock (e_universe c) res bya (e_relock c) ++
          check_relock_model (e_universe c) bya (e_relock c) ++
          judge_index_relock (e_universe c) res bya (e_index_relock c)
      | _ => []
      end
  end.

(* ---- stage "cli": apko lock / apko build [--lockfile] --------------------------- *)
Record lf_pkg := {
  f_name : string; f_version : string; f_arch : string;
  f_file_known : bool;               (* the url names a file byte-equal to the package the harness built *)
  f_sig : section; f_ctl : section; f_dat : section; f_checksum : string;     (* as written in lock.json *)
  f_sig_nums : section_nums; f_ctl_nums : section_nums; f_dat_nums : section_nums;  (* the ranges, parsed (hi = -2: unparsable) *)
  f_file_len : Z;
  f_sizes : Z * Z * Z;                                 (* true member sizes: signature, control, data *)
  f_true_hashes : string * string * string;            (* base64 of sha1(sig), sha1(control), sha256(data) of the true members *)
  f_range_hashes : string * string * string;           (* the same hashes recomputed over the RECORDED ranges of the file *)
  f_true_q1 : string                                   (* "Q1" + base64 sha1 of the control member *)
}.
Record lockfile_case := {
  lf_archs : list string; lf_resolvable : bool; lf_locked : bool;
  lf_resolution : list (string * list (string * string));   (* per architecture, install order *)
  lf_pkgs : list lf_pkg
}.
Record build_case := {
  b_arch : string; b_repo_changed : bool;
  b_world : list string;                 (* contents.packages of the configuration, in file order *)
  b_universe : list cand;                (* every package of every repository, this architecture *)
  b_listed : list (string * string);
  b_locked_ok : bool; b_plain_ok : bool;
  b_locked_installed : list (string * string); b_plain_installed : list (string * string);
  b_locked_manifest : string; b_plain_manifest : string;
  b_locked_scripts : list string; b_plain_scripts : list string   (* members of lib/apk/db/scripts.tar: name mode mtime content-hash *)
}.
(* wave 3: a lock file that outlives its configuration.  `apko lock apko.yaml`; builds with --lockfile that name the configuration by
   several spellings of the same file, before and after the configuration is edited without locking again (spelling, succeeded, installed) *)
Record stale_case := {
  sl_locked : bool;
  sl_lock_name : string; sl_lock_sum : string;      (* lock.Config.Name / DeepChecksum as recorded *)
  sl_now_sum : string;                               (* the deep checksum of the configuration after the edit (what a fresh lock records) *)
  sl_listed : list (string * string);
  sl_plain_ok : bool; sl_plain_installed : list (string * string);     (* the unlocked build of the EDITED configuration *)
  sl_fresh : list (string * bool * list (string * string));
  sl_stale : list (string * bool * list (string * string))
}.
(* wave 3: an image on top of a base image, locked and built from the lock: (name, version, checksum) *)
Record base_case := {
  ba_locked : bool; ba_built : bool;
  ba_listed : list (string * string * string);
  ba_installed : list (string * string * string);
  ba_base : list (string * string * string)
}.
Inductive cli_case := CLock (l : lockfile_case) | CBuild (b : build_case) | CStale (s : stale_case) | CBase (b : base_case).

Definition section_eqb (a b : section) : bool :=
  String.eqb (s_range a) (s_range b) && String.eqb (s_checksum a) (s_checksum b).

Definition check_lf_pkg (p : lf_pkg) : list string :=
  let '(zs, zc, zd) := f_sizes p in
  let '(hs, hc, hd) := f_true_hashes p in
  let '(rs, rc, rd) := f_range_hashes p in
  let sig_present := negb (String.eqb (s_range (f_sig p)) "") in
  tag_if (negb (f_file_known p)) "viol:lock-url-is-not-the-package-file" ++
  tag_if (negb (ranges_tile_b sig_present (f_sig_nums p) (f_ctl_nums p) (f_dat_nums p) (f_file_len p)))
         "viol:lock-ranges-do-not-tile-the-file" ++
  tag_if (negb ((if sig_present then String.eqb (s_checksum (f_sig p)) ("sha1-" ++ rs) else true) &&
                String.eqb (s_checksum (f_ctl p)) ("sha1-" ++ rc) &&
                String.eqb (s_checksum (f_dat p)) ("sha256-" ++ rd)))
         "viol:lock-checksum-is-not-the-hash-of-the-recorded-range" ++
  (if f_file_known p then
     let e := {| e_signature_size := zs; e_control_size := zc; e_package_size := zd;
                 e_signature_hash := bytes_of_string hs; e_control_hash := bytes_of_string hc;
                 e_package_hash := bytes_of_string hd |} in
     tag_if (negb (String.eqb (f_checksum p) (f_true_q1 p))) "viol:lock-apk-checksum-is-not-the-control-hash" ++
     tag_if (negb (section_eqb (control_section string_of_bytes e) (f_ctl p) &&
                   section_eqb (data_section string_of_bytes e) (f_dat p) &&
                   section_eqb (signature_section string_of_bytes e) (f_sig p))) "mismatch:lock-section-text"
   else []).

Definition check_lockfile (c : lockfile_case) : list string :=
  tag_if (lf_resolvable c && negb (lf_locked c)) "viol:apko-lock-fails-on-a-resolvable-configuration" ++
  tag_if (negb (lf_resolvable c) && lf_locked c) "viol:apko-lock-succeeds-on-an-unresolvable-configuration" ++
  (if lf_locked c && lf_resolvable c then
     tag_if (negb (forallb (fun a =>
        list_eqb nv_eqb
          (List.map (fun p => (f_name p, f_version p)) (filter (fun p => String.eqb (f_arch p) a) (lf_pkgs c)))
          (match alookup a (lf_resolution c) with Some l => l | None => [] end)) (lf_archs c)))
        "viol:lockfile-packages-differ-from-resolution" ++
     tag_if (negb (forallb (fun p => smem (f_arch p) (lf_archs c)) (lf_pkgs c))) "viol:lockfile-package-of-unrequested-arch" ++
     List.concat (List.map check_lf_pkg (lf_pkgs c))
   else []).

Definition model_install (listed : list (string * string)) (arch : string) : res (list (string * string)) :=
  build_from_lock (fun i => Some (i_name i, i_url i))
    (List.map (fun nv => {| lp_name := fst nv; lp_url := snd nv; lp_version := snd nv; lp_arch := arch; lp_checksum := "Q1x" |}) listed) arch.

(* where the two install orders come from (Model/LockBuild.v, c09_locked_vs_unlocked_install_order): lock.json lists
   the architecture's packages in the order in which the sorted, duplicate-free REQUEST list resolves; the unlocked
   build installs in the order in which the LOCK list (LockImageConfiguration over that one architecture) resolves.
   Both through Model/Resolver.v on the scenario's universe. *)
Definition rpkgs_of (U : list cand) (nv : list (string * string)) : list rpkg :=
  List.map (fun x => {| p_name := fst x; p_version := snd x;
                        p_provides := match find (fun k => String.eqb (k_name k) (fst x) && String.eqb (k_version k) (snd x)) U with
                                      | Some k => k_provides k
                                      | None => []
                                      end |}) nv.
Definition check_build_order (b : build_case) : list string :=
  if b_repo_changed b then [] else
  match model_relock (b_universe b) (LockBuild.world_of (b_world b)) with
  | None => ["mismatch:build-order-model-panic-or-out-of-fuel"]
  | Some None => tag_if (b_locked_ok b || b_plain_ok b) "mismatch:build-order-model-error-impl-ok"
  | Some (Some nv) =>
      tag_if (b_locked_ok b && negb (list_eqb nv_eqb nv (b_listed b))) "mismatch:lockfile-order-differs-from-model" ++
      match lock_image_configuration_now id_ord id_ordp (b_world b) [(b_arch b, rpkgs_of (b_universe b) nv)] with
      | Ok (bya, _) =>
          match alookup (b_arch b) bya with
          | None => []
          | Some L =>
              match model_relock (b_universe b) (LockBuild.world_of L) with
              | Some (Some nv') => tag_if (b_plain_ok b && negb (list_eqb nv_eqb nv' (b_plain_installed b)))
                                          "mismatch:unlocked-install-order-differs-from-model"
              | Some None => tag_if (b_plain_ok b) "mismatch:unlocked-build-model-error-impl-ok"
              | None => ["mismatch:build-order-model-panic-or-out-of-fuel"]
              end
          end
      | _ => tag_if (b_plain_ok b) "mismatch:unlocked-build-model-error-impl-ok"
      end
  end.

Definition check_build (b : build_case) : list string :=
  check_build_order b ++
  tag_if (b_plain_ok b && negb (b_locked_ok b)) "viol:locked-build-fails" ++
  (if b_locked_ok b then
     tag_if (negb (same_members_b (b_locked_installed b) (b_listed b))) "viol:locked-build-installs-other-than-listed" ++
     tag_if (match model_install (b_listed b) (b_arch b) with
             | Ok l => negb (list_eqb nv_eqb l (b_locked_installed b))
             | _ => true
             end) "mismatch:locked-install-order" ++
     (if negb (b_repo_changed b) && b_plain_ok b then
        tag_if (negb (String.eqb (b_locked_manifest b) (b_plain_manifest b)))
               (if same_members_b (b_locked_installed b) (b_plain_installed b) &&
                   negb (list_eqb nv_eqb (b_locked_installed b) (b_plain_installed b))
                then "viol:locked-image-differs/same-packages-other-install-order"
                else "viol:locked-image-differs-from-unlocked") ++
        tag_if (negb (same_members_b (b_locked_installed b) (b_plain_installed b))) "viol:locked-build-installs-other-than-unlocked" ++
        (* the install scripts kept in lib/apk/db/scripts.tar: same members (name, mode, mtime, content) whatever the install order *)
        tag_if (same_members_b (b_locked_installed b) (b_plain_installed b) &&
                negb (set_eqb (b_locked_scripts b) (b_plain_scripts b))) "viol:locked-image-differs/scripts-tar-members"
      else [])
   else []).

(* the stale-lock guard (buildImage, Lockfile branch): a lock emitted for an earlier state of the configuration lists the package set
   of that state.  Before the edit every spelling of the configuration's path builds and installs the listed set; after the edit a
   build from the lock is refused - or installs what the edited configuration resolves to - under EVERY spelling *)
Definition check_stale (c : stale_case) : list string :=
  if negb (sl_locked c) then ["viol:apko-lock-fails-on-a-resolvable-configuration"] else
  List.concat (List.map (fun r : string * bool * list (string * string) => let '(sp, ok, inst) := r in
     if ok then tag_if (negb (same_members_b inst (sl_listed c))) "viol:locked-build-installs-other-than-listed"
     else ["viol:locked-build-fails/configuration-named-by-another-spelling"]) (sl_fresh c)) ++
  List.concat (List.map (fun r : string * bool * list (string * string) => let '(sp, ok, inst) := r in
     tag_if (ok && negb (sl_plain_ok c && same_members_b inst (sl_plain_installed c)))
            "viol:stale-lock-accepted-after-configuration-edit") (sl_stale c)) ++
  (* the guard as goextract reads it (Model/LockGuard.lock_refused over Generated.C09Build.lock_guard_refuse): a build succeeds iff
     the model does not refuse — before the edit the configuration's checksum is the recorded one, after it the new one *)
  let model given sum := LockGuard.lock_refused {| LockGuard.gi_config_present := true; LockGuard.gi_cfg_sum := sum;
       LockGuard.gi_cfg_file := given; LockGuard.gi_lock_sum := sl_lock_sum c; LockGuard.gi_lock_name := sl_lock_name c |} in
  tag_if (negb (forallb (fun r : string * bool * list (string * string) => let '(given, ok, _) := r in
                           Bool.eqb ok (negb (model given (sl_lock_sum c)))) (sl_fresh c)) ||
          negb (forallb (fun r : string * bool * list (string * string) => let '(given, ok, _) := r in
                           Bool.eqb ok (negb (model given (sl_now_sum c)))) (sl_stale c)))
         "mismatch:stale-lock-guard-model-differs".

(* on top of a base image: what the lock lists is what the build from it adds to the base image, each in the listed build *)
Definition nvc_eqb (a b : string * string * string) : bool :=
  String.eqb (fst (fst a)) (fst (fst b)) && String.eqb (snd (fst a)) (snd (fst b)) && String.eqb (snd a) (snd b).
Definition check_base (c : base_case) : list string :=
  if negb (ba_locked c) then ["viol:apko-lock-fails-on-a-resolvable-configuration"] else
  if negb (ba_built c) then ["viol:locked-build-fails"] else
  tag_if (negb (forallb (fun l => existsb (nvc_eqb l) (ba_installed c)) (ba_listed c)))
         "viol:locked-build-has-another-build-of-a-listed-package" ++
  tag_if (negb (forallb (fun i => existsb (nvc_eqb i) (ba_listed c) || existsb (nvc_eqb i) (ba_base c)) (ba_installed c)))
         "viol:locked-build-on-base-installs-other-than-listed" ++
  (* InstallPackages on the base image as modelled (a package whose name is installed is skipped): same set of (name, checksum) *)
  let bp (x : string * string * string) := {| LockGuard.bp_name := fst (fst x); LockGuard.bp_checksum := snd x |} in
  let m := List.map (fun p => (LockGuard.bp_name p ++ " " ++ LockGuard.bp_checksum p)%string)
                    (LockGuard.install_on (List.map bp (filter (fun b => existsb (fun i => String.eqb (fst (fst i)) (fst (fst b))) (ba_installed c)) (ba_base c)))
                                          (List.map bp (ba_listed c))) in
  tag_if (negb (set_eqb m (List.map (fun x : string * string * string => (fst (fst x) ++ " " ++ snd x)%string) (ba_installed c)))) "mismatch:base-install-model-differs".

Definition check_cli (c : cli_case) : list string :=
  match c with CLock l => check_lockfile l | CBuild b => check_build b | CStale s => check_stale s | CBase b => check_base b end.
