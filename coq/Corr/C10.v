(* C10 correspondence.
   groups stage: the real groupByOriginAndSize is run several times on the same
   input (Go randomises map iteration), every run must equal the model and is
   judged by the grouping validator.
   split stage: a tarfs filesystem with package ownership is built, the real
   splitLayers and the real single-layer writer run on it, every emitted layer
   is untarred by the harness's own reader; the layer lists must equal the
   model's and are judged by the layer validator (flatten = single layer, each
   file exactly once in its owner's layer, per-layer parent directories). *)
From Apko Require Export Base.Prelude Model.Tar Spec.TarSpec Model.Layers Spec.LayersSpec.
From Apko Require Export Corr.C06.
From Apko Require Import Model.BuildSteps Generated.C10Steps.
Open Scope string_scope. Open Scope list_scope.

Definition mkp (n v o : string) (sz : N) (reps : list string) : pkg :=
  {| p_name := n; p_version := v; p_origin := o; p_size := sz; p_replaces := reps |}.

(* the real ResolvePackageNameVersionPin / ParseVersion+SatisfiedBy, tabulated by
   the harness for the `replaces` strings of the case: rep -> (name, outcome for
   the installed package of that name: Some b, or None = error) *)
Definition rep_table := list (string * (string * option bool)).
Fixpoint rt_find (t : rep_table) (rep : string) : option (string * option bool) :=
  match t with [] => None | (r, v) :: more => if String.eqb r rep then Some v else rt_find more rep end.
Definition rt_name (t : rep_table) (rep : string) : string :=
  match rt_find t rep with Some (n, _) => n | None => "" end.
Definition rt_sat (t : rep_table) (rep : string) (q : pkg) : res bool :=
  match rt_find t rep with Some (_, Some b) => Ok b | _ => Err end.

Inductive gout := GOk (gs : list (list string)) | GErr | GPanic.

Record c10g_case := {
  g_pkgs : list pkg; g_budget : Z; g_reps : rep_table;
  o_runs : list gout                  (* one observation per repetition *)
}.

Definition gout_eqb (a b : gout) : bool :=
  match a, b with
  | GOk x, GOk y => list_eqb (list_eqb String.eqb) x y
  | GErr, GErr | GPanic, GPanic => true
  | _, _ => false
  end.

Definition model_gout (c : c10g_case) : option gout :=
  match group (rt_name (g_reps c)) (rt_sat (g_reps c)) (g_pkgs c) (g_budget c) with
  | Ok gs => Some (GOk (map names_of gs))
  | Err => Some GErr
  | Panic => Some GPanic
  | OutOfFuel => None
  end.

Definition check_c10g (c : c10g_case) : list string :=
  match o_runs c with
  | [] => ["mismatch:no-observation"]
  | r0 :: more =>
      tag_if (negb (forallb (gout_eqb r0) more)) "viol:grouping-depends-on-map-order" ++
      (* regression of fix d47e591 (make([]*group, 0, budget)) or any other crash *)
      tag_if (existsb (fun r => match r with GPanic => true | _ => false end) (o_runs c)) "viol:grouping-panics" ++
      tag_if (negb (match model_gout c with Some m => forallb (gout_eqb m) (o_runs c) | None => false end))
        "mismatch:groups" ++
      flat_map (fun r => match r with
                         | GOk gs => groups_tags (rt_name (g_reps c)) (rt_sat (g_reps c)) (g_pkgs c) (g_budget c) gs
                         | _ => []
                         end) [r0]
  end.

Record c10s_case := {
  s_tree : forest; s_hl : list path; s_users : list (Z * string); s_groups : list (Z * string);
  s_gs : list (list string);                (* package names of each group, as handed to splitLayers *)
  s_own : list (path * string);             (* file -> owning package (memFileInfo.Package) *)
  o_single : list entry;                    (* single-layer build, untarred *)
  o_layers : option (list (list entry))     (* None = splitLayers panicked *)
}.

Fixpoint own_find (t : list (path * string)) (p : path) : option string :=
  match t with [] => None | (q, n) :: r => if path_eqb p q then Some n else own_find r p end.

Definition check_c10s (c : c10s_case) : list string :=
  let ev := {| users := s_users c; groups := s_groups c; has_hdr := fun p => existsb (path_eqb p) (s_hl c) |} in
  let w := walk ev (s_tree c) in
  let own := own_find (s_own c) in
  tag_if (negb (list_eqb entry_eqb (map tar_written w) (o_single c))) "mismatch:single-layer-entries" ++
  match split_layers (s_gs c) own w, o_layers c with
  | Ok ls, Some ols =>
      tag_if (negb (list_eqb (list_eqb entry_eqb) (map (map tar_written) ls) ols)) "mismatch:layers" ++
      layers_tags (s_gs c) own (o_single c) ols
  | Panic, None => []
  | Panic, Some _ => ["mismatch:model-panics-impl-does-not"]
  | _, None => ["viol:split-panics"]
  | _, _ => ["mismatch:model-split-failed"]
  end.

(* ---- end-to-end stage: Context.BuildLayers with and without a layering block ------------
   [e_single]: the one layer of the build without `layering`; [e_layers]: the
   layers of the build of the same configuration with budget [e_budget]; both
   untarred by the harness.  [e_gs]: the groups the real grouping gives for the
   installed packages (read back from the image's own database); [e_own]: the
   owner of every non-directory path, taken from what the installed PACKAGES
   ship (synthrepo's file lists) — not from tarfs's Package() side channel, so a
   file that loses its owner inside apko (e.g. when a later build step rewrites
   /etc/passwd) is still expected in its package's layer.
   etc/apko.json embeds the configuration, layering request included, so its
   content and size are not compared.  Judged by the verified validator
   [layers_tags] (flatten = single layer; every non-directory entry exactly once,
   unchanged, in the layer of its owner's group or the top layer; per-layer
   parent directories; one layer per group plus the top layer) and the budget. *)
Record c10e_case := { e_budget : Z; e_gs : list (list string); e_own : list (path * string);
                      e_single : list entry; e_layers : list (list entry);
                      (* the order of the build steps, as observed on the filesystem interface by a recording
                         wrapper around the real tarfs (first occurrence of each marker), and the conditions of
                         the source that hold in the configuration (all others are false) *)
                      e_conds_single : list (string * bool); e_events_single : list string;
                      e_conds_multi : list (string * bool); e_events_multi : list string }.

(* Model/BuildSteps.v over the step lists goextract read from the source: the markers of the
   primitive calls the configuration executes, first occurrences, restricted to the markers that
   are always observable plus those this run showed *)
Fixpoint first_occ (seen : list string) (l : list string) : list string :=
  match l with
  | [] => []
  | x :: r => if in_list x seen then first_occ seen r else x :: first_occ (x :: seen) r
  end.
Definition model_markers (cond : string -> bool) (observed : list string) : list string :=
  let t := build_trace c10_steps cond in
  filter (fun m => in_list m always_observable || in_list m observed) (first_occ [] (markers (fst t))).
(* [conds]: the conditions the harness knows the truth of, by their text; a condition of the source
   it does not list (a text it has never seen) may take either value: the observed order must be the
   model's order for SOME completion of the valuation *)
Definition check_order (conds : list (string * bool)) (observed : list string) : list string :=
  let unknown := filter (fun c => match assoc_b conds c with Some _ => false | None => true end) (dedup (conds_of c10_steps)) in
  tag_if (negb (existsb (fun v => str_list_eqb (model_markers (val_fun (conds ++ v)) observed) observed) (all_vals unknown)))
    "mismatch:build-step-order".

Definition blank_content (p : path) (e : entry) : entry :=
  if path_eqb (e_path e) p then
    {| e_path := e_path e; e_kind := e_kind e; e_mode := e_mode e; e_uid := e_uid e; e_gid := e_gid e;
       e_uname := e_uname e; e_gname := e_gname e; e_link := e_link e; e_devmaj := e_devmaj e;
       e_devmin := e_devmin e; e_xattrs := e_xattrs e; e_mtime := e_mtime e; e_mnsec := e_mnsec e;
       e_cid := 0; e_size := 0 |}
  else e.
Definition apko_json : path := ["etc"; "apko.json"].
Definition apk_repositories : path := ["etc"; "apk"; "repositories"].

(* diagnosis only: the paths at which the last entry written by the layers is not the single layer's entry *)
Definition last_entry (L : list entry) (p : path) : option entry :=
  find (fun e => path_eqb (e_path e) p) (rev L).
Definition diff_paths (single flat : list entry) : list path :=
  flat_map (fun e => match last_entry flat (e_path e) with
                     | Some o => if entry_eqb e o then [] else [e_path e]
                     | None => [e_path e]
                     end) single ++
  flat_map (fun o => match last_entry single (e_path o) with Some _ => [] | None => [e_path o] end) flat.

Definition check_c10e (c : c10e_case) : list string :=
  let single := map (blank_content apko_json) (e_single c) in
  let layers := map (map (blank_content apko_json)) (e_layers c) in
  let own := own_find (e_own c) in
  (* finding C10-F2 has its own tag: the ONLY difference is the content of
     etc/apk/repositories; everything else is still judged, with that content blanked *)
  (if list_eqb path_eqb (diff_paths single (List.concat layers)) [apk_repositories]
   then "viol:flatten-differs/etc-apk-repositories" ::
        layers_tags (e_gs c) own (map (blank_content apk_repositories) single) (map (map (blank_content apk_repositories)) layers)
   else layers_tags (e_gs c) own single layers) ++
  check_order (e_conds_single c) (e_events_single c) ++ check_order (e_conds_multi c) (e_events_multi c) ++
  (if (e_budget c =? 0)%Z then
     tag_if (Nat.ltb 1 (List.length layers)) "viol:group-count-exceeds-budget/budget-zero" ++
     tag_if (Nat.ltb 2 (List.length layers)) "viol:layer-count-exceeds-budget-plus-top"
   else tag_if (negb (Z.of_nat (List.length layers) <=? e_budget c + 1)%Z) "viol:layer-count-exceeds-budget-plus-top").
