(* C11 correspondence: what the harness observed of the real stringToIdentifier,
   Generate and GenerateIndex, compared with the model and judged by the
   validators of Spec/SbomSpec.v (run on the OBSERVED documents). *)
From Apko Require Export Base.Prelude Base.C01Lib Model.Sbom Spec.SbomSpec Model.SbomLic Spec.SbomLicSpec Model.SbomProv Spec.SbomProvSpec Model.SbomRelease Spec.SbomReleaseSpec.
Open Scope string_scope. Open Scope list_scope.

Definition mkp (i n v : string) (s : list (string * string)) : pkg :=
  {| p_id := i; p_name := n; p_version := v; p_sums := s |}.
Definition mkr (e t r : string) : rel := {| r_elem := e; r_type := t; r_related := r |}.
Definition mkd (ps : list pkg) (rs : list rel) (ds : list string) : doc :=
  {| d_pkgs := ps; d_rels := rs; d_desc := ds |}.
Definition mka (n v : string) (s : list N) : apk := {| a_name := n; a_version := v; a_sum := s |}.
Definition mkl (i t : string) : linfo := {| l_id := i; l_text := t |}.
Definition mki (n v : string) (s : list N) (a : string) : inst := {| i_apk := mka n v s; i_arch := a |}.

Definition pkg_eqb (a b : pkg) : bool :=
  String.eqb (p_id a) (p_id b) && String.eqb (p_name a) (p_name b) &&
  String.eqb (p_version a) (p_version b) && sums_eqb (p_sums a) (p_sums b).
Definition rel_eqb (a b : rel) : bool :=
  String.eqb (r_elem a) (r_elem b) && String.eqb (r_type a) (r_type b) && String.eqb (r_related a) (r_related b).

Inductive obs := ODoc (d : doc) | OErr | OPanic.

(* ---- stringToIdentifier ---------------------------------------------------- *)
Record ident_case := { i_in : string; i_out : string; i_out2 : string (* impl applied to i_out *) }.
Definition check_ident (c : ident_case) : list string :=
  tag_if (negb (String.eqb (sti (i_in c)) (i_out c))) "mismatch:string-to-identifier" ++
  tag_if (negb (id_alphabet_b (i_out c))) "viol:id-alphabet" ++
  tag_if (negb (String.eqb (i_out2 c) (i_out c))) "viol:id-not-idempotent".

(* ---- comparison of a model result with an observation ---------------------- *)
Definition diff_doc (what : string) (m o : doc) : list string :=
  tag_if (negb (list_eqb pkg_eqb (d_pkgs m) (d_pkgs o))) ("mismatch:" +++ what +++ "-packages") ++
  tag_if (negb (list_eqb rel_eqb (d_rels m) (d_rels o))) ("mismatch:" +++ what +++ "-relationships") ++
  tag_if (negb (list_eqb String.eqb (d_desc m) (d_desc o))) ("mismatch:" +++ what +++ "-describes").
Definition diff_res (what : string) (m : res doc) (o : obs) : list string :=
  match m, o with
  | Ok dm, ODoc d => diff_doc what dm d
  | Err, OErr | Panic, OPanic => []
  | OutOfFuel, _ => ["mismatch:" +++ what +++ "-model-out-of-fuel"]
  | _, _ => ["mismatch:" +++ what +++ "-outcome"]
  end.

(* ---- Generate ----------------------------------------------------------------- *)
Record gen_case := { gc_in : gen_in; gc_obs : obs }.

Definition embedded_docs (g : gen_in) : list doc :=
  List.concat (List.map (fun kv => match snd kv with FDoc e => [e] | _ => [] end) (g_fs g)).
(* [located]: the embedded document ProcessInternalApkSBOM uses for an apk (Spec/SbomSpec.v) *)
Definition targets_of (g : gen_in) (a : apk) : list string :=
  match located g a with Some e => targets (a_name a) e | None => [] end.
(* target ids of the apks whose embedded document describes three or more
   elements carrying the apk's name: the only ids the replace loop can still
   leave dangling after fix 494ce81 *)
Definition all_targets (g : gen_in) : list string :=
  List.concat (List.map (fun a => let t := targets_of g a in if Nat.leb 3 (List.length t) then t else []) (g_apks g)).

(* target ids of the apks whose embedded document describes exactly TWO elements
   carrying the apk's name, one of which is already the id of a package carrying
   that name that can be in the document (Spec fresh_for fails): finding C11-F4 *)
Fixpoint unfresh_two_from (g : gen_in) (l1 rest : list apk) : list string :=
  match rest with
  | [] => []
  | a :: t =>
      (match located g a with
       | Some e => let tg := targets (a_name a) e in
                   if Nat.eqb (List.length tg) 2 && negb (fresh_for_b g l1 a tg) then tg else []
       | None => []
       end) ++ unfresh_two_from g (l1 ++ [a]) t
  end.
Definition unfresh_two_targets (g : gen_in) : list string := unfresh_two_from g [] (g_apks g).

Definition structural_ids (g : gen_in) : list string := List.map p_id (d_pkgs (base_doc g)).

Fixpoint count_true {A} (f : A -> bool) (l : list A) : nat :=
  match l with [] => 0 | x :: t => (if f x then 1 else 0) + count_true f t end.

Definition uniq_tags (l : list string) : list string := dedup l.

Definition validate_gen (g : gen_in) (d : doc) : list string :=
  let imported := List.concat (List.map d_pkgs (embedded_docs g)) in
  let own := filter (fun p => negb (mem (p_id p) (structural_ids g)) && negb (existsb (pkg_eqb p) imported)) (d_pkgs d) in
  let apk_id a := p_id (apk_package (nonce_of g) a) in
  tag_if (negb (ids_unique_b d)) "viol:dup-id" ++
  tag_if (negb (forallb valid_id_b (ids d))) "viol:id-syntax" ++
  uniq_tags (List.map (fun x => if mem x (all_targets g) then "viol:dangling-ref/replace-loop-three-targets"
                                else if mem x (unfresh_two_targets g) then "viol:dangling-ref/replace-loop-two-targets-reused-id"
                                else "viol:dangling-ref")
                      (dangling_rel_ends d)) ++
  tag_if (match dangling_described d with [] => false | _ => true end) "viol:dangling-described" ++
  uniq_tags (List.concat (List.map (fun a =>
      match targets_of g a with
      | [] =>
          match count_true (elem_of_b a) own with
          | 1 => []
          | 0 => if Nat.ltb 1 (count_true (fun b => String.eqb (apk_id b) (apk_id a)) (g_apks g))
                 then ["viol:apk-element-missing/id-collision"] else ["viol:apk-element-missing"]
          | _ => ["viol:apk-element-duplicated"]
          end
      | _ =>
          (* the apk's own element may have been replaced by the imported one; some
             element must still carry its name.  When it does not and the apk's own id
             coincides with another apk's, that other apk's replacePackage (which
             removes by id) or the de-duplication took it: the collision defect C11-F1 (fixed by
             7c2586e, own ids are numbered now; the tag is armed and no longer listed) *)
          if existsb (fun p => String.eqb (p_name p) (a_name a)) (d_pkgs d) then []
          else if Nat.ltb 1 (count_true (fun b => String.eqb (apk_id b) (apk_id a)) (g_apks g))
               then ["viol:apk-element-missing/id-collision"]
               (* two targets one of which reuses the id Generate mints for the apk itself: the
                  loop removes the apk's element and both imported ones (C11-F4) *)
               else if existsb (fun t => mem t (unfresh_two_targets g)) (targets_of g a)
               then ["viol:apk-name-missing/replace-loop-two-targets-reused-id"]
               else ["viol:apk-name-missing"]
      end) (g_apks g))) ++
  tag_if (negb (forallb (fun p => existsb (fun a => elem_of_b a p) (g_apks g)) own)) "viol:element-not-installed" ++
  (if String.eqb (g_image g) "" then []
   else tag_if (negb (existsb (fun p => String.eqb (p_name p) (g_image g) &&
                                        sums_eqb (p_sums p) [("SHA256", trim_prefix "sha256:" (g_image g))] &&
                                        list_eqb String.eqb (d_desc d) [p_id p]) (d_pkgs d))) "viol:image-digest") ++
  tag_if (negb (forallb (fun h => existsb (fun p => String.eqb (p_name p) (hash_to_string h)) (d_pkgs d)) (g_layers g))) "viol:layer-digest".

(* the orders in which Go may range over the targetElementIDs map: the k-th
   permutation of the list (all of them for up to three targets) *)
Fixpoint insert_all {A} (x : A) (l : list A) : list (list A) :=
  match l with
  | [] => [[x]]
  | y :: t => (x :: l) :: List.map (cons y) (insert_all x t)
  end.
Fixpoint all_perms {A} (l : list A) : list (list A) :=
  match l with
  | [] => [[]]
  | x :: t => List.concat (List.map (insert_all x) (all_perms t))
  end.
Definition perm_k (k : nat) (l : list string) : list string := nth k (all_perms l) l.

Fixpoint try_perms_m (m : (list string -> list string) -> res doc) (o : obs) (ks : list nat) (first : list string) : list string :=
  match ks with
  | [] => first
  | k :: t =>
      match diff_res "generate" (m (perm_k k)) o with
      | [] => []
      | tg => try_perms_m m o t (match first with [] => tg | _ => first end)
      end
  end.
Definition try_perms (g : gen_in) := try_perms_m (fun p => generate p g).

Definition check_gen (c : gen_case) : list string :=
  let g := gc_in c in
  try_perms g (gc_obs c) [0; 1; 2; 3; 4; 5] [] ++
  match gc_obs c with
  | ODoc d => validate_gen g d
  | OErr => []
  | OPanic => match g_layers g with [] => [] | _ => ["viol:generate-panics"] end
  end.

(* ---- GenerateIndex --------------------------------------------------------------- *)
Record idx_case := { xc_in : idx_in; xc_obs : obs }.

Definition validate_index (x : idx_in) (d : doc) : list string :=
  tag_if (negb (ids_unique_b d)) "viol:index-dup-id" ++
  tag_if (negb (forallb valid_id_b (ids d))) "viol:index-id-syntax" ++
  tag_if (negb (refs_resolve_b d)) "viol:index-dangling-ref" ++
  tag_if (negb (existsb (fun p => String.eqb (p_name p) (hash_string (x_index x)) &&
                                  sums_eqb (p_sums p) [("SHA256", snd (x_index x))] &&
                                  list_eqb String.eqb (d_desc d) [p_id p]) (d_pkgs d))) "viol:index-digest" ++
  tag_if (negb (forallb (fun h => existsb (fun p => sums_eqb (p_sums p) [("SHA256", snd h)] &&
                                                    existsb (fun r => String.eqb (r_related r) (p_id p) &&
                                                                      String.eqb (r_type r) "VARIANT_OF") (d_rels d))
                                          (d_pkgs d)) (x_images x))) "viol:index-image-digest".

Definition check_index (c : idx_case) : list string :=
  diff_res "generate-index" (generate_index (xc_in c)) (xc_obs c) ++
  match xc_obs c with
  | ODoc d => validate_index (xc_in c) d
  | OErr => []
  | OPanic => ["viol:generate-index-panics"]
  end.

(* ---- end to end: the SBOMs of a real `apko build` against what was built, read back from
        the emitted artifacts (layout blobs, flattened layers).  The MODEL side goes through
        Model/SbomProv.v (what pkg/build/sbom.go hands to the generator, as goextract reads
        it); the VALIDATORS use Spec/SbomProvSpec.v's expected_input, written down directly. *)
(* [lfs]: the extracted licensing infos of the embedded documents by file name; [lics]: those of the emitted SBOM *)
Inductive e2e_case := EImg (b : built) (lfs : list (string * list linfo)) (o : obs) (lics : list linfo) | EIdx (bi : built_index) (o : obs).
Definition check_e2e (c : e2e_case) : list string :=
  match c with
  | EImg b lfs o lics =>
      let g := expected_input b in
      let used := used_lists (g_fs g) lfs (g_apks g) in
      (match o with ODoc _ => [] | _ => ["viol:e2e-image-sbom-missing"] end) ++
      try_perms_m (fun p => image_sbom p b) o [0; 1; 2; 3; 4; 5] [] ++
      match o with
      | ODoc d =>
          (* the merged licensing infos do not depend on the map order *)
          (match image_sbom_full (fun l => l) b lfs with
           | Ok (_, l) => tag_if (negb (list_eqb linfo_eqb l lics)) "mismatch:generate-licensing-infos"
           | Err => match image_sbom (fun l => l) b with Ok _ => ["mismatch:generate-licensing-outcome"] | _ => [] end
           | _ => []
           end) ++
          validate_gen g d ++
          tag_if (negb (nodup_b (lic_ids lics))) "viol:licensing-dup-id" ++
          tag_if (negb (forallb (fun l => forallb (fun i => lmem i lics) l) used)) "viol:licensing-info-lost" ++
          tag_if (negb (forallb (fun i => existsb (fun l => lmem i l) used) lics)) "viol:licensing-info-from-nowhere"
      | OErr => []
      | OPanic => match g_layers g with [] => [] | _ => ["viol:generate-panics"] end
      end
  | EIdx bi o =>
      let x := expected_index_input bi in
      (match o with
       | ODoc d =>
           (* the image elements (targets of VARIANT_OF), in document order, are exactly the
              recomputed manifest digests in the order of their architecture strings *)
           let variants := filter (fun p => existsb (fun r => String.eqb (r_related r) (p_id p) && String.eqb (r_type r) "VARIANT_OF") (d_rels d)) (d_pkgs d) in
           tag_if (negb (list_eqb String.eqb (List.map p_name variants) (List.map (fun h => "sha256:" +++ snd h) (x_images x))))
                  "viol:e2e-index-images-not-the-built-ones-in-architecture-order"
       | _ => ["viol:e2e-index-sbom-missing"]
       end) ++
      diff_res "generate-index" (index_sbom (fun l => l) bi) o ++
      match o with
      | ODoc d => validate_index x d
      | OErr => []
      | OPanic => ["viol:generate-index-panics"]
      end
  end.

(* ---- licensing infos ------------------------------------------------------------------------- *)
(* unit: mergeLicensingInfos(source, target); the observation is the target afterwards, None = error *)
Record mlic_case := { ml_src : list linfo; ml_tgt : list linfo; ml_obs : option (list linfo) }.
Definition check_mlic (c : mlic_case) : list string :=
  match merge_licensing (ml_src c) (ml_tgt c), ml_obs c with
  | Ok m, Some o => tag_if (negb (list_eqb linfo_eqb m o)) "mismatch:merge-licensing-infos"
  | Err, None => []
  | _, _ => ["mismatch:merge-licensing-outcome"]
  end ++
  match ml_obs c with
  | Some o => tag_if (negb (lic_union_b (ml_src c) (ml_tgt c) o)) "viol:licensing-merge-not-the-union"
  | None => tag_if (consistent_b (ml_tgt c ++ ml_src c)) "viol:licensing-merge-fails-on-consistent-infos"
  end.

(* Generate on embedded documents that carry hasExtractedLicensingInfos (single-target documents:
   the map order plays no part) *)
Record lic_case := { lc_in : gen_in; lc_lfs : list (string * list linfo); lc_obs : obs; lc_lics : list linfo }.
Definition check_lic (c : lic_case) : list string :=
  let g := lc_in c in
  let used := used_lists (g_fs g) (lc_lfs c) (g_apks g) in
  match generate_full (fun l => l) g (lc_lfs c), lc_obs c with
  | Ok (d, l), ODoc od => diff_doc "generate" d od ++ tag_if (negb (list_eqb linfo_eqb l (lc_lics c))) "mismatch:generate-licensing-infos"
  | Err, OErr | Panic, OPanic => []
  | OutOfFuel, _ => ["mismatch:generate-model-out-of-fuel"]
  | _, _ => ["mismatch:generate-outcome"]
  end ++
  match lc_obs c with
  | ODoc od =>
      validate_gen g od ++
      tag_if (negb (nodup_b (lic_ids (lc_lics c)))) "viol:licensing-dup-id" ++
      tag_if (negb (forallb (fun l => forallb (fun i => lmem i (lc_lics c)) l) used)) "viol:licensing-info-lost" ++
      tag_if (negb (forallb (fun i => existsb (fun l => lmem i l) used) (lc_lics c))) "viol:licensing-info-from-nowhere"
  | OErr => []
  | OPanic => match g_layers g with [] => [] | _ => ["viol:generate-panics"] end
  end.

(* readReleaseData on the content of /etc/os-release (None: no such file); observation = (ID, NAME,
   VERSION_ID), None = error *)
Record rel_case := { rl_file : option string; rl_obs : option (string * string * string) }.
Definition check_release (c : rel_case) : list string :=
  match read_release (rl_file c), rl_obs c with
  | Ok r, Some (i, n, v) =>
      tag_if (negb (String.eqb (rd_id r) i && String.eqb (rd_name r) n && String.eqb (rd_version r) v)) "mismatch:read-release-data"
  | Err, None => []
  | _, _ => ["mismatch:read-release-data-outcome"]
  end ++
  match rl_file c, rl_obs c with
  | Some s, Some (i, n, v) =>
      let want k := match last_assign k (scan_lines s) with Some x => x | None => "" end in
      tag_if (negb (String.eqb v (want "VERSION_ID"))) "viol:os-release-version-id-not-the-last-assignment" ++
      tag_if (negb (String.eqb i (want "ID") && String.eqb n (want "NAME"))) "viol:os-release-field-not-the-last-assignment" ++
      tag_if (existsb malformed_b (scan_lines s)) "viol:os-release-malformed-line-accepted"
  | Some s, None => tag_if (negb (existsb malformed_b (scan_lines s))) "viol:os-release-well-formed-file-refused"
  | None, Some (i, n, v) => tag_if (negb (String.eqb v "unknown" && String.eqb i "unknown")) "viol:os-release-missing-file-defaults"
  | None, None => ["viol:os-release-missing-file-refused"]
  end.

(* one stage, one Cases file for the three kinds *)
Inductive licx_case := LMerge (c : mlic_case) | LGen (c : lic_case) | LRelease (c : rel_case).
Definition check_licx (c : licx_case) : list string :=
  match c with LMerge m => check_mlic m | LGen g => check_lic g | LRelease r => check_release r end.

(* ---- units: replacePackage / copySBOMElements on arbitrary documents ----------- *)
Record repl_case := { rc_doc : doc; rc_old : string; rc_new : string; rc_obs : doc }.
Definition check_repl (c : repl_case) : list string :=
  diff_doc "replace-package" (replace_package (rc_doc c) (rc_old c) (rc_new c)) (rc_obs c).

Record copy_case := { cc_src : doc; cc_tgt : doc; cc_todo : list string; cc_obs : obs }.
Definition check_copy (c : copy_case) : list string :=
  diff_res "copy-elements" (copy_elements (cc_src c) (cc_tgt c) (dedup (cc_todo c))) (cc_obs c).
