(* C12 correspondence: the harness's observations of the real emitters,
   compared with the model and judged by the validators. *)
From Apko Require Export Base.Prelude Base.C12Lib Generated.C12Oci Model.Oci Spec.OciSpec.
Open Scope string_scope. Open Scope list_scope.

(* one bundle written by BuildIndex: [bc_archs] = architecture keys in the order
   of the index manifest, [bc_ntags] = number of tags passed, [bc_included] =
   per manifest, whether its config and all of its layers are members of the
   archive; [bc_pos] = offset of manifest.json's data (the stream position after
   its header), [bc_size] = its size, [bc_next] = offset of the first non-zero
   byte after it in the file = where the first appended header was written *)
Record bundle_case := {
  bc_archs : list string; bc_ntags : nat; bc_included : list bool;
  bc_pos : Z; bc_size : Z; bc_next : Z }.

Definition bundle_complete_tags := bundle_complete_tags_with (fun a => fst (spec_platform a)).

Definition check_bundle (c : bundle_case) : list string :=
  tag_if (negb (next_boundary_b tar_block (bc_pos c + bc_size c) (bc_next c)))
         "viol:append-offset-not-next-block-boundary" ++
  tag_if (negb (Z.eqb (append_offset (bc_pos c) (bc_size c)) (bc_next c)))
         "mismatch:append-offset" ++
  bundle_complete_tags (bc_archs c) (bc_included c) ++
  tag_if (negb (list_eqb Bool.eqb (bundle_included (bc_ntags c) (bc_archs c)) (bc_included c)))
         "mismatch:bundle-included-images".
