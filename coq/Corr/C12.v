(* C12 correspondence: the harness's observations of the real emitters,
   compared with the model and judged by the validators. *)
From Apko Require Export Base.Prelude Base.C12Lib Generated.C12Oci Model.Oci Spec.OciSpec.
Open Scope string_scope. Open Scope list_scope.

(* one bundle written by BuildIndex: [bc_archs] = architecture keys in the order
   of the index manifest, [bc_ntags] = number of tags passed, [bc_included] =
   per manifest, whether its config and all of its layers are members of the
   archive; [bc_pos] = offset of manifest.json's data (the stream position after
   its header), [bc_size] = its size, [bc_next] = offset of the first non-zero
   byte after it in the file = where the first appended header was written *)
Record bundle_case := {
  bc_archs : list string; bc_ntags : nat; bc_included : list bool;
  bc_pos : Z; bc_size : Z; bc_next : Z }.

Definition bundle_complete_tags := bundle_complete_tags_with (fun a => fst (spec_platform a)).

Definition check_bundle (c : bundle_case) : list string :=
  tag_if (negb (next_boundary_b tar_block (bc_pos c + bc_size c) (bc_next c)))
         "viol:append-offset-not-next-block-boundary" ++
  tag_if (negb (Z.eqb (append_offset (bc_pos c) (bc_size c)) (bc_next c)))
         "mismatch:append-offset" ++
  bundle_complete_tags (bc_archs c) (bc_included c) ++
  tag_if (negb (list_eqb Bool.eqb (bundle_included (bc_ntags c) (bc_archs c)) (bc_included c)))
         "mismatch:bundle-included-images".

(* ---- the header scan: abstract tar stream vs archive/tar on an *os.File, and vs the
        real BuildIndex ------------------------------------------------------------------
   [sc_members]: what a raw block-by-block walk finds (header blocks incl. extension
   headers, size field); [sc_trace]: what the standard reader placed directly on the
   file reports after each Next() (f.Seek(0, io.SeekCurrent), hdr.Size);
   [sc_target]: offset of the first end-of-archive block (kind stdlib) or of the first
   header BuildIndex appended (kind bundle, members = those MultiWrite wrote) *)
Record scan_case := { sc_members : list member; sc_trace : list (Z * Z); sc_target : Z }.
Definition zpair_eqb (a b : Z * Z) : bool := Z.eqb (fst a) (fst b) && Z.eqb (snd a) (snd b).
Definition check_scan (c : scan_case) : list string :=
  tag_if (negb (list_eqb zpair_eqb (reader_trace 0 (sc_members c)) (sc_trace c))) "mismatch:scan-reader-trace" ++
  tag_if (negb (Z.eqb (stream_len (sc_members c)) (sc_target c))) "mismatch:scan-stream-length" ++
  (match scan_offset (sc_members c) with
   | Ok o => tag_if (negb (Z.eqb o (sc_target c))) "mismatch:scan-offset"
   | _ => ["mismatch:scan-outcome"]
   end) ++
  (* the translated arithmetic on what the real reader reported last *)
  (let '(p, z) := List.last (sc_trace c) (0, 0)%Z in
   tag_if (negb (Z.eqb (append_offset p z) (sc_target c))) "viol:append-offset-not-first-end-of-archive-block").

(* ---- config ----------------------------------------------------------------------- *)
(* [cc_shlex]: the real shlex.Split on the command strings of the case
   (None = it returned an error); [cc_rfc3339]: the real created.Format(time.RFC3339);
   [co_cfg]: the config read back from the built image's config JSON *)
Record config_case := {
  cc_ic : image_config; cc_base : oci_config; cc_created : Z; cc_arch : string;
  cc_shlex : list (string * option (list string)); cc_rfc3339 : string;
  co_err : bool; co_cfg : oci_config }.

Definition oracle_shlex (tbl : list (string * option (list string))) (s : string) : option (list string) :=
  match alookup s tbl with Some r => r | None => None end.

Definition str_list_eqb := list_eqb String.eqb.
Definition same_set (a b : list string) : bool := incl_b a b && incl_b b a.
Definition labels_eqb (a b : list (string * string)) : bool :=
  list_eqb (fun x y => String.eqb (fst x) (fst y) && String.eqb (snd x) (snd y)) (isort fst a) (isort fst b).

Definition config_diff (m o : oci_config) : list string :=
  tag_if (negb (String.eqb (oc_author m) (oc_author o))) "mismatch:config-author" ++
  tag_if (negb (String.eqb (oc_os m) (oc_os o))) "mismatch:config-os" ++
  tag_if (negb (String.eqb (oc_architecture m) (oc_architecture o) && String.eqb (oc_variant m) (oc_variant o))) "mismatch:config-platform" ++
  tag_if (negb (Z.eqb (oc_created m) (oc_created o))) "mismatch:config-created" ++
  tag_if (negb (str_list_eqb (oc_entrypoint m) (oc_entrypoint o))) "mismatch:config-entrypoint" ++
  tag_if (negb (str_list_eqb (oc_cmd m) (oc_cmd o))) "mismatch:config-cmd" ++
  tag_if (negb (String.eqb (oc_workdir m) (oc_workdir o))) "mismatch:config-workdir" ++
  tag_if (negb (String.eqb (oc_user m) (oc_user o))) "mismatch:config-user" ++
  tag_if (negb (String.eqb (oc_stop_signal m) (oc_stop_signal o))) "mismatch:config-stop-signal" ++
  tag_if (negb (same_set (oc_volumes m) (oc_volumes o))) "mismatch:config-volumes" ++
  tag_if (negb (str_list_eqb (oc_env m) (oc_env o))) "mismatch:config-env" ++
  tag_if (negb (labels_eqb (oc_labels m) (oc_labels o))) "mismatch:config-labels".

Definition check_config (c : config_case) : list string :=
  let shlex := oracle_shlex (cc_shlex c) in
  let rfc := fun _ : Z => cc_rfc3339 c in
  let dord := akeys default_env in
  let eord := akeys (with_defaults default_env dord (ic_env (cc_ic c))) in
  (* the map-order parameters must not matter: also run the model with both orders reversed *)
  let dord' := rev dord in
  let eord' := rev (akeys (with_defaults default_env dord' (ic_env (cc_ic c)))) in
  (if co_err c then []
   else config_tags shlex rfc (expected_platform (cc_arch c)) (cc_base c) (cc_ic c) (cc_created c) (co_cfg c)) ++
  match build_config shlex rfc (cc_base c) (cc_ic c) (cc_created c) (cc_arch c) dord eord,
        build_config shlex rfc (cc_base c) (cc_ic c) (cc_created c) (cc_arch c) dord' eord' with
  | Ok m, Ok m' =>
      if co_err c then ["mismatch:model-succeeds-impl-fails"]
      else config_diff m (co_cfg c) ++ tag_if (negb (str_list_eqb (oc_env m) (oc_env m'))) "mismatch:model-order-dependent"
  | Err, Err => tag_if (negb (co_err c)) "mismatch:model-fails-impl-succeeds"
  | _, _ => ["mismatch:model-inconsistent"]
  end.

(* ---- index ------------------------------------------------------------------------ *)
(* [xc_keys]: requested architecture keys; [xo_manifests]: per manifest of the
   generated index, in order: (key of the image whose digest the descriptor
   carries, platform architecture, variant, os); [xo_annotations]: the index
   manifest's annotations *)
Record index_case := {
  xc_keys : list string; xc_docker : bool; xc_ic : image_config; xc_created : Z; xc_rfc3339 : string;
  xo_manifests : list (string * (string * string * string));
  xo_annotations : list (string * string) }.

Definition entry_eqb (a b : string * (string * string * string)) : bool :=
  match a, b with (k, (x, v, o)), (k', (x', v', o')) =>
    String.eqb k k' && String.eqb x x' && String.eqb v v' && String.eqb o o' end.

Definition check_index (c : index_case) : list string :=
  let rfc := fun _ : Z => xc_rfc3339 c in
  let model := List.map (fun e => (ie_key e, (ie_arch e, ie_variant e, ie_os e)))
                 (generate_index (List.map (fun k => (k, tt)) (xc_keys c)) (xc_keys c)) in
  let model' := List.map (fun e => (ie_key e, (ie_arch e, ie_variant e, ie_os e)))
                 (generate_index (List.map (fun k => (k, tt)) (xc_keys c)) (rev (xc_keys c))) in
  let want_ann := if xc_docker c then []
                  else index_annotations rfc (ic_vcs_url (xc_ic c)) (xc_created c) (ic_annotations (xc_ic c)) in
  index_tags expected_platform (xc_keys c) (xo_manifests c) ++
  tag_if (negb (xc_docker c) &&
          negb (forallb (fun k => option_eqb String.eqb (alookup k (xo_annotations c)) (expected_label rfc (xc_ic c) (xc_created c) k))
                        ([created_key; revision_key; source_key] ++ akeys (ic_annotations (xc_ic c)) ++ akeys (xo_annotations c))))
         "viol:index-annotations" ++
  tag_if (negb (list_eqb entry_eqb model (xo_manifests c))) "mismatch:index-manifests" ++
  tag_if (negb (list_eqb entry_eqb model model')) "mismatch:model-order-dependent" ++
  tag_if (negb (labels_eqb want_ann (xo_annotations c))) "mismatch:index-annotations".
