(* C12 correspondence: the harness's observations of the real emitters,
   compared with the model and judged by the validators. *)
From Apko Require Export Base.Prelude Base.C12Lib Generated.C12Oci Model.Oci Model.OciTime Model.OciShlex Model.OciImage Model.OciOptions
  Spec.OciSpec Spec.OciTimeSpec Spec.OciShlexSpec Spec.OciImageSpec Spec.OciOptionsSpec.
Open Scope string_scope. Open Scope list_scope.

(* one bundle written by BuildIndex: [bc_archs] = architecture keys in the order
   of the index manifest, [bc_ntags] = number of tags passed, [bc_included] =
   per manifest, whether its config and all of its layers are members of the
   archive; [bc_pos] = offset of manifest.json's data (the stream position after
   its header), [bc_size] = its size, [bc_next] = offset of the first non-zero
   byte after it in the file = where the first appended header was written *)
Record bundle_case := {
  bc_archs : list string; bc_ntags : nat; bc_included : list bool;
  bc_pos : Z; bc_size : Z; bc_next : Z }.

Definition bundle_complete_tags := bundle_complete_tags_with (fun a => fst (spec_platform a)).

Definition check_bundle (c : bundle_case) : list string :=
  tag_if (negb (next_boundary_b tar_block (bc_pos c + bc_size c) (bc_next c)))
         "viol:append-offset-not-next-block-boundary" ++
  tag_if (negb (Z.eqb (append_offset (bc_pos c) (bc_size c)) (bc_next c)))
         "mismatch:append-offset" ++
  bundle_complete_tags (bc_archs c) (bc_included c) ++
  tag_if (negb (list_eqb Bool.eqb (bundle_included (bc_ntags c) (bc_archs c)) (bc_included c)))
         "mismatch:bundle-included-images".

(* ---- the header scan: tar stream of raw header records vs archive/tar on an *os.File,
        and vs the real BuildIndex ---------------------------------------------------------
   [sc_records]: what a raw block-by-block walk finds (kind from the type flag, size field);
   [sc_trace]: what the standard reader placed directly on the file reports after each
   Next() (f.Seek(0, io.SeekCurrent), hdr.Size);
   [sc_target]: offset of the first end-of-archive block (kind stdlib) or of the first
   header BuildIndex appended (kind bundle, records = those MultiWrite wrote) *)
Record scan_case := { sc_records : list rawrec; sc_trace : list (Z * Z); sc_target : Z }.
Definition zpair_eqb (a b : Z * Z) : bool := Z.eqb (fst a) (fst b) && Z.eqb (snd a) (snd b).
Definition check_scan (c : scan_case) : list string :=
  let '(p, z) := List.last (sc_trace c) (0, 0)%Z in
  (* the reader's position bookkeeping per record kind, model vs the real reader *)
  tag_if (negb (list_eqb zpair_eqb (reader_trace (sc_records c)) (sc_trace c))) "mismatch:scan-reader-trace" ++
  (* the layout statement on the real reader: after the i-th Next() the file offset is the start of the i-th body *)
  tag_if (forallb raw_ok_b (sc_records c) && negb (list_eqb zpair_eqb (body_starts 0 (sc_records c)) (sc_trace c)))
         "mismatch:scan-position-not-at-body-start" ++
  tag_if (negb (Z.eqb (stream_len (sc_records c)) (sc_target c))) "mismatch:scan-stream-length" ++
  (match scan_offset (sc_records c) with
   | Ok o => tag_if (negb (Z.eqb o (append_offset p z))) "mismatch:scan-offset"
   | _ => ["mismatch:scan-outcome"]
   end) ++
  (* inside the envelope of c12_append_offset_scan: the translated arithmetic on what the real
     reader reported last is the offset of the first end-of-archive block *)
  tag_if (ends_ok_b (sc_records c) && negb (Z.eqb (append_offset p z) (sc_target c)))
         "viol:append-offset-not-first-end-of-archive-block".

(* ---- the time printers and the splitter, model vs the real functions ------------------- *)
(* TFormat sec nsec off  real created.Format(time.RFC3339)  real MarshalJSON (None = error)
   TParse text  real time.Parse(time.RFC3339, text).Unix() (None = error) *)
Inductive time_case :=
| TFormat (sec nsec off : Z) (fmt : string) (json : option string)
| TParse (text : string) (go : option Z).
Definition check_time (c : time_case) : list string :=
  match c with
  | TFormat sec nsec off fmt json =>
      tag_if (negb (String.eqb (go_format_rfc3339 sec off) fmt)) "mismatch:rfc3339" ++
      tag_if (negb (option_eqb String.eqb (go_marshal_time sec nsec off) json)) "mismatch:rfc3339-json" ++
      (* the Spec's reading of what the REAL printer wrote, inside the range of c12_rfc3339_roundtrip *)
      (if Z.eqb off 0 && Z.leb rfc3339_min sec && Z.leb sec rfc3339_max then
         tag_if (negb (rfc3339_utc_shape fmt)) "viol:created-text-shape" ++
         tag_if (negb (option_eqb Z.eqb (parse_rfc3339 fmt) (Some sec))) "viol:created-text-does-not-denote-the-creation-time"
       else [])
  | TParse text go =>
      (* the Spec's meaning of a UTC timestamp vs Go's parser, on texts of the 20-character shape *)
      tag_if (rfc3339_utc_shape text && negb (option_eqb Z.eqb (parse_rfc3339 text) go)) "mismatch:rfc3339-parse"
  end.

(* [sx_real]: the real shlex.Split (None = error); [sx_words] (when [sx_quoted]): the word list
   the harness single-quoted and joined to make [sx_input] *)
Record shlex_case := { sx_input : string; sx_real : option (list string); sx_quoted : bool; sx_words : list string }.
Definition words_eqb := option_eqb (list_eqb String.eqb).
Definition check_shlex (c : shlex_case) : list string :=
  let u := utf8_sanitize (sx_input c) in
  tag_if (negb (words_eqb (shlex_split (sx_input c)) (sx_real c))) "mismatch:shlex" ++
  tag_if (all_chars (fun ch => negb (quoting_char ch)) u && negb (words_eqb (sx_real c) (Some (fields u))))
         "viol:plain-command-line-not-split-at-blanks" ++
  (if sx_quoted c then
     tag_if (negb (String.eqb (quote_words (sx_words c)) (sx_input c))) "mismatch:shlex-quote-harness" ++
     tag_if (String.eqb (utf8_sanitize (sx_input c)) (sx_input c) && negb (words_eqb (sx_real c) (Some (sx_words c))))
            "viol:quoted-words-not-preserved"
   else []).

(* ---- config ----------------------------------------------------------------------- *)
(* [cc_created]: the Go time handed to BuildImageFromLayers; [cc_etype], [cc_validated]: entrypoint.type and
   whether ImageConfiguration.Validate ran first (as build.New does); [cc_nlayers]; [cc_base_history];
   [cc_shlex], [cc_rfc3339]: the REAL shlex.Split / created.Format(time.RFC3339) on the strings of the case
   (compared with the models); [co_cfg]: the config read back from the built image's config JSON;
   [co_created], [co_history]: its created / history as written; [co_ser_err]: the config could not be serialised *)
Record config_case := {
  cc_ic : image_config; cc_base : oci_config; cc_base_history : list history_entry;
  cc_created : go_time; cc_arch : string; cc_etype : string; cc_validated : bool; cc_nlayers : nat;
  cc_shlex : list (string * option (list string)); cc_rfc3339 : string;
  co_err : bool; co_ser_err : bool; co_cfg : oci_config; co_created : option string; co_history : list history_entry }.

Definition oracle_shlex (tbl : list (string * option (list string))) (s : string) : option (list string) :=
  match alookup s tbl with Some r => r | None => None end.

Definition str_list_eqb := list_eqb String.eqb.
Definition same_set (a b : list string) : bool := incl_b a b && incl_b b a.
Definition labels_eqb (a b : list (string * string)) : bool :=
  list_eqb (fun x y => String.eqb (fst x) (fst y) && String.eqb (snd x) (snd y)) (isort fst a) (isort fst b).

Definition config_diff (m o : oci_config) : list string :=
  tag_if (negb (String.eqb (oc_author m) (oc_author o))) "mismatch:config-author" ++
  tag_if (negb (String.eqb (oc_os m) (oc_os o))) "mismatch:config-os" ++
  tag_if (negb (String.eqb (oc_architecture m) (oc_architecture o) && String.eqb (oc_variant m) (oc_variant o))) "mismatch:config-platform" ++
  tag_if (negb (Z.eqb (oc_created m) (oc_created o))) "mismatch:config-created" ++
  tag_if (negb (str_list_eqb (oc_entrypoint m) (oc_entrypoint o))) "mismatch:config-entrypoint" ++
  tag_if (negb (str_list_eqb (oc_cmd m) (oc_cmd o))) "mismatch:config-cmd" ++
  tag_if (negb (String.eqb (oc_workdir m) (oc_workdir o))) "mismatch:config-workdir" ++
  tag_if (negb (String.eqb (oc_user m) (oc_user o))) "mismatch:config-user" ++
  tag_if (negb (String.eqb (oc_stop_signal m) (oc_stop_signal o))) "mismatch:config-stop-signal" ++
  tag_if (negb (same_set (oc_volumes m) (oc_volumes o))) "mismatch:config-volumes" ++
  tag_if (negb (str_list_eqb (oc_env m) (oc_env o))) "mismatch:config-env" ++
  tag_if (negb (labels_eqb (oc_labels m) (oc_labels o))) "mismatch:config-labels".

Definition check_config (c : config_case) : list string :=
  let t := cc_created c in
  let rfc := fun sec : Z => go_format_rfc3339 sec (t_off t) in
  let ic' := if cc_validated c then declared_ic (cc_etype c) (cc_ic c) else cc_ic c in
  let dord := akeys default_env in
  let eord := akeys (with_defaults default_env dord (ic_env (cc_ic c))) in
  (* the map-order parameters must not matter: also run the model with both orders reversed *)
  let dord' := rev dord in
  let eord' := rev (akeys (with_defaults default_env dord' (ic_env (cc_ic c)))) in
  let obs := {| io_config := co_cfg c; io_created := co_created c; io_history := co_history c |} in
  let utc_in_range := Z.eqb (t_off t) 0 && Z.eqb (t_nsec t) 0 && Z.leb rfc3339_min (t_sec t) && Z.leb (t_sec t) rfc3339_max in
  (* the models of the two library functions vs the real ones, on the strings of this case *)
  tag_if (negb (forallb (fun kv => words_eqb (shlex_split (fst kv)) (snd kv)) (cc_shlex c))) "mismatch:shlex" ++
  tag_if (negb (String.eqb (rfc (t_sec t)) (cc_rfc3339 c))) "mismatch:rfc3339" ++
  (* the validators on the observed image *)
  (if co_err c then []
   else if co_ser_err c then tag_if utc_in_range "viol:config-not-serialisable"
   else config_tags shlex_split rfc (expected_platform (cc_arch c)) (cc_base c) ic' (t_sec t) (co_cfg c) ++
        (if utc_in_range then image_time_tags (cc_base_history c) (cc_nlayers c) (t_sec t) obs else [])) ++
  match build_image (cc_validated c) (cc_etype c) (cc_base c) (cc_base_history c) (cc_ic c) t (cc_arch c) (cc_nlayers c) dord eord,
        build_image (cc_validated c) (cc_etype c) (cc_base c) (cc_base_history c) (cc_ic c) t (cc_arch c) (cc_nlayers c) dord' eord' with
  | Ok m, Ok m' =>
      if co_err c then ["mismatch:model-succeeds-impl-fails"]
      else tag_if (negb (str_list_eqb (oc_env (io_config m)) (oc_env (io_config m')))) "mismatch:model-order-dependent" ++
           (match io_created m with
            | None => tag_if (negb (co_ser_err c)) "mismatch:model-unserialisable-impl-serialises"
            | Some s => if co_ser_err c then ["mismatch:model-serialises-impl-does-not"]
                        else config_diff (io_config m) (co_cfg c) ++
                             tag_if (negb (option_eqb String.eqb (Some s) (co_created c))) "mismatch:config-created-text" ++
                             tag_if (negb (list_eqb history_entry_eqb (io_history m) (co_history c))) "mismatch:config-history"
            end)
  | Err, Err => tag_if (negb (co_err c)) "mismatch:model-fails-impl-succeeds"
  | _, _ => ["mismatch:model-inconsistent"]
  end.

(* ---- index ------------------------------------------------------------------------ *)
(* [xc_keys]: requested architecture keys; [xo_manifests]: per manifest of the
   generated index, in order: (key of the image whose digest the descriptor
   carries, platform architecture, variant, os); [xo_annotations]: the index
   manifest's annotations *)
Record index_case := {
  xc_keys : list string; xc_docker : bool; xc_ic : image_config; xc_created : Z; xc_rfc3339 : string;
  xo_manifests : list (string * (string * string * string));
  xo_annotations : list (string * string) }.

Definition entry_eqb (a b : string * (string * string * string)) : bool :=
  match a, b with (k, (x, v, o)), (k', (x', v', o')) =>
    String.eqb k k' && String.eqb x x' && String.eqb v v' && String.eqb o o' end.

Definition check_index (c : index_case) : list string :=
  let rfc := fun _ : Z => xc_rfc3339 c in
  let model := List.map (fun e => (ie_key e, (ie_arch e, ie_variant e, ie_os e)))
                 (generate_index (List.map (fun k => (k, tt)) (xc_keys c)) (xc_keys c)) in
  let model' := List.map (fun e => (ie_key e, (ie_arch e, ie_variant e, ie_os e)))
                 (generate_index (List.map (fun k => (k, tt)) (xc_keys c)) (rev (xc_keys c))) in
  let want_ann := if xc_docker c then []
                  else index_annotations rfc (ic_vcs_url (xc_ic c)) (xc_created c) (ic_annotations (xc_ic c)) in
  index_tags expected_platform (xc_keys c) (xo_manifests c) ++
  tag_if (negb (xc_docker c) &&
          negb (forallb (fun k => option_eqb String.eqb (alookup k (xo_annotations c)) (expected_label rfc (xc_ic c) (xc_created c) k))
                        ([created_key; revision_key; source_key] ++ akeys (ic_annotations (xc_ic c)) ++ akeys (xo_annotations c))))
         "viol:index-annotations" ++
  tag_if (negb (list_eqb entry_eqb model (xo_manifests c))) "mismatch:index-manifests" ++
  tag_if (negb (list_eqb entry_eqb model model')) "mismatch:model-order-dependent" ++
  tag_if (negb (labels_eqb want_ann (xo_annotations c))) "mismatch:index-annotations".

(* ---- the option layer: command line over configuration ---------------------------------
   [op_ic]: the configuration (annotations = the configuration file's, vcs-url); [op_cl]: the
   --annotations map, given [op_times] times; [op_dates], [op_env]: the date options in order
   and SOURCE_DATE_EPOCH; observed through the real build.New: [oo_err] an option failed,
   [oo_annotations]/[oo_vcs] the configuration the build works on, [oo_date] the creation time
   (Unix seconds); through the real emitters on those: [oo_labels] config labels,
   [oo_manifest] image manifest annotations, [oo_index] index annotations *)
Record options_case := {
  op_ic : image_config; op_cl : list (string * string); op_times : nat;
  op_dates : list date_opt; op_env : option string;
  oo_err : bool; oo_annotations : list (string * string); oo_vcs : string; oo_date : Z;
  oo_labels : list (string * string); oo_manifest : list (string * string); oo_index : list (string * string) }.

Definition emitted_as_model (rfc : Z -> string) (ic : image_config) (date : Z) (emitted : list (string * string)) : bool :=
  forallb (fun k => option_eqb String.eqb (alookup k emitted) (expected_label rfc ic date k))
          ([created_key; revision_key; source_key] ++ akeys (ic_annotations ic) ++ akeys emitted).

Definition check_options (c : options_case) : list string :=
  let cfg := ic_annotations (op_ic c) in
  let merged := with_annotations_n (op_times c) cfg (op_cl c) (akeys (op_cl c)) in
  let merged' := with_annotations_n (op_times c) cfg (op_cl c) (rev (akeys (op_cl c))) in
  let ic' := set_annotations (op_ic c) merged in
  match declared_date_env (op_dates c) (op_env c) with
  | Ok date =>
      let in_range := Z.leb rfc3339_min date && Z.leb date rfc3339_max in
      if oo_err c then ["mismatch:options-model-succeeds-impl-fails"]
      else
        tag_if (negb (labels_eqb merged (oo_annotations c))) "mismatch:options-annotations" ++
        tag_if (negb (labels_eqb merged merged')) "mismatch:model-order-dependent" ++
        tag_if (negb (String.eqb (ic_vcs_url (op_ic c)) (oo_vcs c))) "mismatch:options-vcs-url" ++
        tag_if (negb (Z.eqb date (oo_date c))) "mismatch:options-date" ++
        (* outside the serialisable range the emitters are not run (BuildImageFromLayers fails: c12_image_unserialisable_time) *)
        tag_if (in_range && negb (emitted_as_model format_rfc3339 ic' date (oo_labels c))) "mismatch:options-labels" ++
        tag_if (in_range && negb (emitted_as_model format_rfc3339 ic' date (oo_index c))) "mismatch:options-index-annotations" ++
        (* what the property demands of the REAL output *)
        (if Nat.eqb (op_times c) 0 || negb in_range then []
         else cmdline_annotations_tags "config-labels" (op_ic c) (op_cl c) (oo_labels c) ++
              cmdline_annotations_tags "manifest-annotations" (op_ic c) (op_cl c) (oo_manifest c) ++
              cmdline_annotations_tags "index-annotations" (op_ic c) (op_cl c) (oo_index c)) ++
        (match op_env c with
         | Some v => match parse_int64 v with
                     | Some e => tag_if (Z.leb rfc3339_min e && Z.leb e rfc3339_max &&
                                         negb (denotes (alookup created_key (oo_labels c)) e &&
                                               denotes (alookup created_key (oo_index c)) e)) "viol:source-date-epoch-not-the-created-text"
                     | None => []
                     end
         | None => []
         end)
  | Err => tag_if (negb (oo_err c)) "mismatch:options-model-fails-impl-succeeds"
  | _ => ["mismatch:model-inconsistent"]
  end.
