(* C13 correspondence: what the harness observed of the real mutateAccounts /
   mutatePaths (on apkfs.NewMemFS() and tarfs.New()), compared with the model
   and judged by the validators of Spec/AccountsSpec.v and Spec/PathMutSpec.v. *)
From Apko Require Export Base.Prelude Model.C13Fs Model.Accounts Model.PathMut Model.C13Build Generated.C13Consts Spec.AccountsSpec Spec.PathMutSpec.
From Apko Require Import Proofs.AccountsCodec Spec.AccountsClean.
Open Scope string_scope. Open Scope list_scope.

(* ---- building the initial tree: the same calls on both sides -------------- *)
Inductive setup_op :=
| SMkdirAll (p : string) (perm : N)
| SWrite (p : string) (content : string) (perm : N)
| SSymlink (target p : string)
| SLink (old new : string)
| SChmod (p : string) (perm : N)
| SChown (p : string) (u g : N)
| SFill (p : string) (size : N) (perm : N)       (* a regular file of [size] bytes whose content does not matter *)
| SPkgFile (p : string) (content : string) (perm : N)   (* tarfs: a file backed by a package's tar entry (lazy installation) *)
| SPkgFill (p : string) (size : N) (perm : N).

Fixpoint fill_nat (n : nat) : string := match n with O => "" | S k => String "x"%char (fill_nat k) end.

Definition backend_maxl (backend : nat) : nat :=
  N.to_nat (match backend with O => memfs_max_links | _ => tarfs_max_links end).

Definition write_file (maxl : nat) (f : fs) (p : path) (content : string) (perm : N) : fres fs :=
  fdo r <- openfile maxl maxl f p perm;
  let (f', i) := r in FOk (upd f' i (fun n => trunc_write n content)).

Definition pkg_file (maxl : nat) (f : fs) (p : path) (content : string) (perm : N) : fres fs :=
  fdo r <- openfile maxl maxl f p perm;
  let (f', i) := r in
  FOk (upd f' i (fun n => mkNode (nkind n) (nperm n) (nuid n) (ngid n) (ntarget n) "" (nchildren n) content)).

Definition run_setup_op (maxl : nat) (f : fs) (o : setup_op) : fres fs :=
  match o with
  | SMkdirAll p perm => mkdirall maxl f (path_of p) perm
  | SWrite p c perm => write_file maxl f (path_of p) c perm
  | SSymlink t p => symlink maxl f t (path_of p)
  | SLink o n => link maxl f (path_of o) (path_of n)
  | SChmod p perm => chmod maxl f (path_of p) perm
  | SChown p u g => chown maxl f (path_of p) u g
  | SFill p size perm => write_file maxl f (path_of p) (fill_nat (N.to_nat size)) perm
  | SPkgFile p c perm => pkg_file maxl f (path_of p) c perm
  | SPkgFill p size perm => pkg_file maxl f (path_of p) (fill_nat (N.to_nat size)) perm
  end.
Fixpoint run_setup (maxl : nat) (f : fs) (os : list setup_op) : fres fs :=
  match os with
  | [] => FOk f
  | o :: t => fdo f1 <- run_setup_op maxl f o; run_setup maxl f1 t
  end.
Definition root_perm : N := 493.   (* both constructors: fs.ModeDir | 0o755 *)

Definition stat_info (maxl : nat) (f : fs) (p : string) : option sinfo :=
  match stat maxl f (path_of p) with FOk n => Some (sinfo_of n) | _ => None end.
Definition file_text (maxl : nat) (f : fs) (p : path) : string :=
  match gnode maxl f p with FOk n => edata n | _ => "" end.

(* ---- accounts --------------------------------------------------------------- *)
Record acc_case := {
  a_backend : nat;                       (* 0 = apkfs.NewMemFS, 1 = tarfs.New *)
  a_setup : list setup_op;
  a_users : list cuser; a_groups : list cgroup; a_run_as : string;
  (* observed *)
  ao_validate_ok : bool;                 (* ImageConfiguration.Validate accepted the configuration *)
  ao_err : bool;
  ao_run_as : string;
  ao_passwd : string; ao_group : string;                                  (* final text *)
  ao_old_users : option (list user_entry); ao_old_groups : option (list group_entry);   (* harness's own reader, initial text *)
  ao_users : option (list user_entry); ao_groups : option (list group_entry);           (* harness's own reader, final text *)
  (* the repository's own readers (passwd.ReadUserFile / ReadGroupFile) on the initial and on the final file:
     None = not compared (no regular file there), Some None = the reader returned an error *)
  ao_impl_old_users : option (option (list user_entry)); ao_impl_old_groups : option (option (list group_entry));
  ao_impl_users : option (option (list user_entry)); ao_impl_groups : option (option (list group_entry));
  ao_homes : list (option sinfo * option sinfo);                          (* Stat(home) before / after, per configured user *)
  ao_dump : list dentry;
  ao_layer : list dentry
}.

Fixpoint zip3 {A B} (a : list A) (b : list B) : list (A * B) :=
  match a, b with x :: a', y :: b' => (x, y) :: zip3 a' b' | _, _ => [] end.

Definition tidy_comp (s : string) : bool :=
  negb (String.eqb s "") && negb (String.eqb s ".") && negb (String.eqb s "..").
Definition rel_name (p : string) : string := join "/" (parts p).

Definition find_dentry (p : string) (l : list dentry) : option dentry :=
  find (fun d => String.eqb (d_path d) p) l.

Fixpoint is_prefix_s (a b : list string) : bool :=
  match a, b with
  | [], _ => true
  | x :: a', y :: b' => String.eqb x y && is_prefix_s a' b'
  | _ :: _, [] => false
  end.

(* One user's home, judged on observed data.  [fst h] is Stat(home) at the time
   this user is processed: the harness obtains it by running the real
   mutateAccounts with only the EARLIER configured users on a fresh copy of the
   tree (the code creates the missing homes of pre-existing entries and of
   earlier users first, so a home shared with one of those, or a parent of one,
   "already existed"). *)
Definition home_violations (c_dump c_layer : list dentry) (u : cuser)
  (h : option sinfo * option sinfo) : list string :=
  let home := spec_home u in
  if String.eqb home spec_no_home then [] else
    tag_if (negb (home_realised_b (cu_uid u) (spec_gid u) (fst h) (snd h)))
      (match fst h with
       | None => if ends_with_slash home && negb (match parts home with [] => true | _ => false end)
                 then "viol:home-trailing-slash-creates-nested-dir"
                 else "viol:home-not-0700-owned-by-user"
       | Some _ => "viol:existing-home-modified" end) ++
    (* the layer half: a created home that the tree shows under its own name
       carries the same mode and owner in the serialised layer *)
    match fst h, find_dentry (rel_name home) c_dump with
    | None, Some _ =>
        match find_dentry (rel_name home) c_layer with
        | Some l => tag_if (negb (kind_eqb (d_kind l) KDir && N.eqb (d_perm l) spec_home_mode &&
                                  N.eqb (d_uid l) (cu_uid u) && N.eqb (d_gid l) (spec_gid u)))
                           "viol:layer-home-mode-or-owner"
        | None => ["viol:layer-home-missing"]
        end
    | _, _ => []
    end.
Definition homes_violations (c_dump c_layer : list dentry)
  (l : list (cuser * (option sinfo * option sinfo))) : list string :=
  List.concat (List.map (fun uh : cuser * (option sinfo * option sinfo) =>
                           home_violations c_dump c_layer (fst uh) (snd uh)) l).

(* A configured field that holds ':' or a newline (or a name starting / a last
   field ending with a blank) is written verbatim and the file no longer reads
   back as old ++ configured: that failure carries its own tag (was finding C13-F5;
   Validate refuses such fields since fix 3dfd539, the tag stays armed)
   when Validate accepted the configuration; a configuration Validate refuses
   never reaches mutateAccounts in a build.  Clean configurations keep the
   generic tags. *)
Definition field_tag (clean validated : bool) (generic : string) : list string :=
  if clean then [generic] else if validated then ["viol:account-field-breaks-passwd-syntax"] else [].

(* the validators, on observed data only *)
Definition acc_violations (c : acc_case) : list string :=
  if ao_err c then [] else
  (match ao_old_users c, ao_users c with
   | Some old, Some new =>
       (if passwd_realised_b old (a_users c) new then []
        else field_tag (forallb clean_user (a_users c)) (ao_validate_ok c) "viol:passwd-not-old-plus-configured") ++
       tag_if (negb (run_as_resolved_b (a_run_as c) new (ao_run_as c))) "viol:run-as-not-first-match" ++
       homes_violations (ao_dump c) (ao_layer c) (zip3 (a_users c) (ao_homes c))
   | _, _ => field_tag (forallb clean_user (a_users c)) (ao_validate_ok c) "viol:passwd-unreadable"
   end) ++
  (match a_groups c with
   | [] => []
   | _ => match ao_old_groups c, ao_groups c with
          | Some old, Some new =>
              if group_file_realised_b old (a_groups c) new then []
              else field_tag (forallb clean_group (a_groups c)) (ao_validate_ok c) "viol:group-not-old-plus-configured"
          | _, _ => field_tag (forallb clean_group (a_groups c)) (ao_validate_ok c) "viol:group-unreadable"
          end
   end).

Definition parse_agrees {E} (eqb : E -> E -> bool) (model : option (list E)) (impl : option (option (list E))) : bool :=
  match impl with
  | None => true
  | Some i => option_eqb (list_eqb eqb) model i
  end.

Definition acc_mismatches (c : acc_case) : list string :=
  let maxl := backend_maxl (a_backend c) in
  match run_setup maxl (empty_fs root_perm) (a_setup c) with
  | FOk f0 =>
      (* the parsers, on the text that was there before *)
      tag_if (negb (parse_agrees ue_eqb (parse_users (file_text maxl f0 etc_passwd)) (ao_impl_old_users c))) "mismatch:passwd-parse-initial" ++
      tag_if (negb (parse_agrees ge_eqb (parse_groups (file_text maxl f0 etc_group)) (ao_impl_old_groups c))) "mismatch:group-parse-initial" ++
      (* Validate's verdict on the configured accounts *)
      tag_if (negb (Bool.eqb (validate_accounts (a_users c) (a_groups c)) (ao_validate_ok c))) "mismatch:validate" ++
      match mutate_accounts maxl f0 (a_users c) (a_groups c) (a_run_as c) with
      | FFuel => ["mismatch:model-out-of-fuel"]
      | FOk (f1, ra) =>
          if ao_err c then ["mismatch:impl-error-model-ok"] else
          tag_if (negb (String.eqb ra (ao_run_as c))) "mismatch:run-as" ++
          tag_if (negb (String.eqb (file_text maxl f1 etc_passwd) (ao_passwd c))) "mismatch:passwd-text" ++
          tag_if (negb (String.eqb (file_text maxl f1 etc_group) (ao_group c))) "mismatch:group-text" ++
          tag_if (negb (list_eqb (fun a b => option_eqb sinfo_eqb (fst a) (fst b) && option_eqb sinfo_eqb (snd a) (snd b))
                          (List.map (fun ku : nat * cuser =>
                             (match mutate_accounts maxl f0 (firstn (fst ku) (a_users c)) [] "" with
                              | FOk (fk, _) => stat_info maxl fk (spec_home (snd ku))
                              | _ => None end,
                              stat_info maxl f1 (spec_home (snd ku))))
                           (zip3 (seq 0 (List.length (a_users c))) (a_users c)))
                          (ao_homes c))) "mismatch:home-stat" ++
          tag_if (negb (dump_same (dump f1) (ao_dump c))) "mismatch:tree" ++
          tag_if (negb (dump_same (layer_of f1) (ao_layer c))) "mismatch:layer" ++
          (* the harness's own reader and the model's reader agree on the final text *)
          tag_if (negb (parse_agrees ue_eqb (parse_users (ao_passwd c)) (ao_impl_users c))) "mismatch:passwd-parse-final" ++
          tag_if (negb (parse_agrees ge_eqb (parse_groups (ao_group c)) (ao_impl_groups c))) "mismatch:group-parse-final" ++
          tag_if (negb (match parse_users (ao_passwd c), ao_users c with
                        | Some a, Some b => list_eqb ue_eqb a b | None, None => true | _, _ => false end))
                 "mismatch:passwd-readers-disagree"
      | _ => tag_if (negb (ao_err c)) "mismatch:model-error-impl-ok"
      end
  | _ => ["mismatch:setup"]
  end.

Definition check_acc (c : acc_case) : list string := acc_violations c ++ acc_mismatches c.

(* ---- path mutations ----------------------------------------------------------
   The harness runs the real mutatePaths on every prefix of the sequence (each
   on a freshly built tree) and observes the path of the prefix's last mutation;
   the whole sequence's tree and layer are observed at the end. *)
Record path_case := {
  p_backend : nat;
  p_setup : list setup_op;
  p_muts : list mutation;
  po_ok : nat;                       (* number of prefixes (1..) on which mutatePaths returned nil *)
  po_steps : list step_obs;          (* one per successful prefix *)
  po_dump : list dentry;             (* after the whole sequence, when it succeeded *)
  po_layer : list dentry
}.

Definition strip_path (d : dentry) : dentry :=
  mkDentry "" (d_kind d) (d_perm d) (d_uid d) (d_gid d) (d_target d) (d_size d).

Definition model_step (maxl : nat) (f : fs) (m : mutation) : step_obs :=
  let p := path_of (m_path m) in
  mkStep (match direct maxl f p with FOk n => Some (dentry_of "" n) | _ => None end)
         (match stat maxl f p with FOk n => Some (sinfo_of n) | _ => None end)
         (match stat maxl f p with FOk n => strlen (edata n) | _ => 0%N end)
         (match stat maxl f (path_of (m_source m)) with FOk n => Some (sinfo_of n) | _ => None end)
         (match gn maxl f p with FOk i => dump_from (S (List.length f)) f i "" | _ => [] end).

Definition step_same (a b : step_obs) : bool :=
  option_eqb dentry_eqb (so_direct a) (so_direct b) && option_eqb sinfo_eqb (so_stat a) (so_stat b) &&
  N.eqb (so_size a) (so_size b) && option_eqb sinfo_eqb (so_src a) (so_src b) &&
  dump_same (so_desc a) (so_desc b).

Definition special_bits_ok (m : mutation) : bool := (m_perm m <? 4096)%N.

(* prefixes 1..n of a list *)
Fixpoint prefixes_from {A} (acc l : list A) : list (list A) :=
  match l with [] => [] | x :: t => (acc ++ [x]) :: prefixes_from (acc ++ [x]) t end.

Definition last_mut (ms : list mutation) : option mutation :=
  match rev ms with m :: _ => Some m | [] => None end.

Definition path_violations (c : path_case) : list string :=
  List.concat (List.map (fun pm : list mutation * step_obs =>
      match last_mut (fst pm) with Some m => realised_tags m (snd pm) | None => [] end)
    (zip3 (prefixes_from [] (p_muts c)) (po_steps c))) ++
  (* layer: the last mutation of a fully successful sequence, when the tree
     shows its path under its own name and the entry is not a symlink *)
  (if Nat.eqb (po_ok c) (List.length (p_muts c)) then
     match last_mut (p_muts c) with
     | Some m =>
         let nm := rel_name (m_path m) in
         match find_dentry nm (po_dump c), find_dentry nm (po_layer c) with
         | Some d, Some l =>
             if kind_eqb (d_kind d) KSym then
               (if String.eqb (m_type m) "symlink"
                then tag_if (negb (N.eqb (d_uid l) (m_uid m) && N.eqb (d_gid l) (m_gid m))) "viol:symlink-owner-not-applied"
                else [])
             else layer_tags m l
         | Some _, None => ["viol:layer-entry-missing"]
         | None, _ => []
         end
     | None => []
     end
   else []).

Definition path_mismatches (c : path_case) : list string :=
  let maxl := backend_maxl (p_backend c) in
  match run_setup maxl (empty_fs root_perm) (p_setup c) with
  | FOk f0 =>
      let results := List.map (fun ms => (ms, mutate_paths maxl f0 ms)) (prefixes_from [] (p_muts c)) in
      let ok := List.length (filter (fun r => match snd r with FOk _ => true | _ => false end) results) in
      tag_if (existsb (fun r => match snd r with FFuel => true | _ => false end) results) "mismatch:model-out-of-fuel" ++
      tag_if (negb (Nat.eqb ok (po_ok c))) "mismatch:successful-prefixes" ++
      tag_if (negb (list_eqb step_same
                (List.concat (List.map (fun r : list mutation * fres fs =>
                   match snd r, last_mut (fst r) with
                   | FOk f, Some m => [model_step maxl f m]
                   | _, _ => [] end) results))
                (po_steps c))) "mismatch:step-observation" ++
      match mutate_paths maxl f0 (p_muts c) with
      | FOk f1 =>
          tag_if (negb (dump_same (dump f1) (po_dump c))) "mismatch:tree" ++
          tag_if (negb (dump_same (layer_of f1) (po_layer c))) "mismatch:layer"
      | _ => []
      end
  | _ => ["mismatch:setup"]
  end.

Definition check_path (c : path_case) : list string := path_violations c ++ path_mismatches c.

(* ---- end to end ----------------------------------------------------------------
   One generated image configuration went through the real pipeline (build.New,
   BuildLayer and oci.BuildImageFromLayer, or the apko CLI); everything below
   [eo_] is what the harness's own tar reader and resolver saw in the emitted
   layer and image config.
   - [eo_old_*]: the passwd/group text the selected packages ship, read by the
     harness's reader ([Some []] when no package ships the file);
   - [eo_homes]: per configured user (judged?, (Stat(home) in a build of the same
     packages with the EARLIER users only and NO path mutations, Stat(home) in
     the final layer)); "already existed" means: existed once the packages and
     the earlier accounts were in place — a directory made by this build's own
     path mutations does not count.  Not judged when a declared mutation names
     the home itself, resolves to it, is recursive above it or links to it (the
     mutation's own post-condition then speaks about it);
   - [eo_steps]: per mutation (judged?, observation of its path in the final
     layer); judged when no LATER mutation may touch what it reads or changes
     (an over-approximation computed by the harness; last declaration wins);
   - [e_setup]: the layer of a build of the same packages with nothing
     declared, as setup operations: the model of the pipeline is run on it and
     the whole final layer compared ([None] when that build failed).  On tarfs
     the regular files shipped by packages are backed by their tar entries. *)
Record e2e_case := {
  e_backend : nat;                         (* filesystem handed to build.New: 0 = apkfs.NewMemFS, 1 = tarfs.New (what `apko build` uses) *)
  e_setup : option (list setup_op);
  e_users : list cuser; e_groups : list cgroup; e_run_as : string; e_muts : list mutation;
  eo_err : bool;
  eo_old_users : option (list user_entry); eo_old_groups : option (list group_entry);
  eo_users : option (list user_entry); eo_groups : option (list group_entry);
  eo_passwd : string; eo_group : string;
  eo_config_user : string;
  eo_homes : list (bool * (option sinfo * option sinfo));
  eo_steps : list (bool * step_obs);
  eo_layer : list dentry
}.

Definition e2e_home_violations (uh : cuser * (bool * (option sinfo * option sinfo))) : list string :=
  let (u, jh) := uh in
  let (judged, h) := jh in
  if String.eqb (spec_home u) spec_no_home || negb judged then [] else
  tag_if (negb (home_realised_b (cu_uid u) (spec_gid u) (fst h) (snd h)))
    (match fst h with None => "viol:home-not-0700-owned-by-user" | Some _ => "viol:existing-home-modified" end).

Definition e2e_violations (c : e2e_case) : list string :=
  if eo_err c then [] else
  (* the build succeeded, so Validate (inside build.New) accepted the configuration *)
  (match eo_old_users c, eo_users c with
   | Some old, Some new =>
       (if passwd_realised_b old (e_users c) new then []
        else field_tag (forallb clean_user (e_users c)) true "viol:passwd-not-old-plus-configured") ++
       tag_if (negb (run_as_resolved_b (e_run_as c) new (eo_config_user c))) "viol:run-as-not-first-match"
   | _, _ => field_tag (forallb clean_user (e_users c)) true "viol:passwd-unreadable"
   end) ++
  (match e_groups c with
   | [] => []
   | _ => match eo_old_groups c, eo_groups c with
          | Some old, Some new =>
              if group_file_realised_b old (e_groups c) new then []
              else field_tag (forallb clean_group (e_groups c)) true "viol:group-not-old-plus-configured"
          | _, _ => field_tag (forallb clean_group (e_groups c)) true "viol:group-unreadable"
          end
   end) ++
  List.concat (List.map e2e_home_violations (zip3 (e_users c) (eo_homes c))) ++
  tag_if (negb (Nat.eqb (List.length (eo_homes c)) (List.length (e_users c)) &&
                Nat.eqb (List.length (eo_steps c)) (List.length (e_muts c)))) "viol:e2e-observation-incomplete" ++
  List.concat (List.map (fun mo : mutation * (bool * step_obs) =>
                 if fst (snd mo) then realised_tags (fst mo) (snd (snd mo)) else [])
               (zip3 (e_muts c) (eo_steps c))).

(* /dev and /tmp belong to other steps of the pipeline (device nodes, Go's
   sticky bit); the size of etc/apko.json depends on the JSON text *)
Definition e2e_outside (d : dentry) : bool :=
  String.eqb (d_path d) "tmp" || String.eqb (d_path d) "dev" || String.prefix "dev/" (d_path d).
Definition e2e_norm (l : list dentry) : list dentry :=
  List.map (fun d => if String.eqb (d_path d) (rel_name apko_config_path)
                     then mkDentry (d_path d) (d_kind d) (d_perm d) (d_uid d) (d_gid d) (d_target d) 0 else d)
           (filter (fun d => negb (e2e_outside d)) l).

Definition e2e_mismatches (c : e2e_case) : list string :=
  let maxl := backend_maxl (e_backend c) in
  match e_setup c with
  | None => []
  | Some ops =>
      match run_setup maxl (empty_fs root_perm) ops with
      | FOk f0 =>
          (* build.New runs Validate before anything is built *)
          match (if validate_accounts (e_users c) (e_groups c)
                 then build_image maxl f0 (e_users c) (e_groups c) (e_run_as c) (e_muts c) else FErr) with
          | FFuel => ["mismatch:model-out-of-fuel"]
          | FOk (f1, ra) =>
              if eo_err c then ["mismatch:impl-error-model-ok"] else
              tag_if (negb (String.eqb ra (eo_config_user c))) "mismatch:run-as" ++
              tag_if (negb (String.eqb (file_text maxl f1 etc_passwd) (eo_passwd c))) "mismatch:passwd-text" ++
              tag_if (negb (String.eqb (file_text maxl f1 etc_group) (eo_group c))) "mismatch:group-text" ++
              tag_if (negb (dump_same (e2e_norm (layer_of f1)) (e2e_norm (eo_layer c)))) "mismatch:layer"
          | _ => tag_if (negb (eo_err c)) "mismatch:model-error-impl-ok"
          end
      | _ => ["mismatch:setup"]
      end
  end.

Definition check_e2e (c : e2e_case) : list string := e2e_violations c ++ e2e_mismatches c.
