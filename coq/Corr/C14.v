(* C14 correspondence: families of per-architecture universes resolved together
   by the real GetPackagesWithDependencies(allArchs); the model gets the initial
   disqualification set of Model/Resolver.disqualify_difference; the validator
   is Spec/ResolveSpec.foreign_check on the IMPLEMENTATION's install sets. *)
From Apko Require Export Corr.C02.
Open Scope string_scope. Open Scope list_scope.

Definition obs_eqb (a b : option (list nat)) : bool := option_eqb (list_eqb Nat.eqb) a b.

Definition check_c14 (c : rcase) : list string :=
  let '(Rs, dqs) := prepare c in
  nodup string_dec (flat_map (fun r =>
    let R := nth (u_arch r) Rs empty_resolver in
    let au := nth (u_arch r) (c_archs c) ("", []) in
    if negb (in_range R (u_obs r)) then ["mismatch:harness-pid-out-of-range"] else
    (* model = implementation, with the model's own cross-architecture set *)
    compare_run R (u_world r) (dq0_of c dqs r) (u_obs r) ++
    (* no member is missing from another architecture *)
    (match u_obs r with
     | Some l =>
         if u_multi r then
           let others := List.map snd (List.filter (fun bv => negb (String.eqb (fst bv) (fst au))) (c_archs c)) in
           List.map (String.append "viol:") (nodup string_dec (foreign_check others (List.map (fun i => nth i (snd au) dummy_pkg) l)))
         else []
     | None => []
     end) ++
    (* a single architecture is unaffected: the answer with allArchs = {arch} is the
       answer of the PLAIN resolution (dq0 = []), as is the answer with allArchs =
       nil: both observed lists must equal the plain model's (and hence each
       other), install_if additions included (their order is fixed since c03e0c0). *)
    (match u_obs_plain r with
     | Some plain =>
         if Nat.leb (List.length (c_archs c)) 1 then
           let m_plain := compare_run R (u_world r) [] plain in
           let m_multi := compare_run R (u_world r) [] (u_obs r) in
           List.map (fun t => String.append t "/allArchs-nil-run") m_plain ++
           tag_if (match m_plain, m_multi with [], _ :: _ => true | _, _ => false end) "viol:single-arch-affected"
         else []
     | None => []
     end)) (c_runs c)).

(* ---- multiarch stage: build.NewMultiArch + BuildPackageLists ------------------
   What each architecture's repositories offer as (name, version) pairs, how they
   were reached, and the install list each architecture got (None = the build
   failed). Judged by the verified validator foreign_check. *)
Record mcase := {
  m_archs : list (string * list (string * string));
  m_transport : string;
  m_obs : list (string * option (list (string * string))) }.

Definition nv_pkg (x : string * string) : pkg :=
  {| p_name := fst x; p_version := snd x; p_origin := ""; p_deps := []; p_provides := []; p_install_if := [];
     p_prio := 0%N; p_pin := ""; p_repo := "" |}.

Definition check_multiarch (c : mcase) : list string :=
  nodup string_dec (flat_map (fun ao =>
    match snd ao with
    | None => []
    | Some l =>
        let own := match List.find (fun au => String.eqb (fst au) (fst ao)) (m_archs c) with Some au => snd au | None => [] end in
        let others := List.map (fun au => List.map nv_pkg (snd au))
                        (List.filter (fun au => negb (String.eqb (fst au) (fst ao))) (m_archs c)) in
        tag_if (negb (forallb (fun x => existsb (fun y => String.eqb (fst x) (fst y) && String.eqb (snd x) (snd y)) own) l))
               "viol:member-not-from-own-repositories" ++
        List.map (fun t => String.append "viol:" (String.append t "/multiarch-build"))
                 (nodup string_dec (foreign_check others (List.map nv_pkg l)))
    end) (m_obs c)).
