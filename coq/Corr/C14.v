(* C14 correspondence: families of per-architecture universes resolved together
   by the real GetPackagesWithDependencies(allArchs); the model gets the initial
   disqualification set of Model/Resolver.disqualify_difference; the validator
   is Spec/ResolveSpec.foreign_check on the IMPLEMENTATION's install sets. *)
From Apko Require Export Corr.C02.
Open Scope string_scope. Open Scope list_scope.

Definition obs_eqb (a b : option (list nat)) : bool := option_eqb (list_eqb Nat.eqb) a b.

Definition check_c14 (c : rcase) : list string :=
  let '(Rs, dqs) := prepare c in
  nodup string_dec (flat_map (fun r =>
    let R := nth (u_arch r) Rs empty_resolver in
    let au := nth (u_arch r) (c_archs c) ("", []) in
    if negb (in_range R (u_obs r)) then ["mismatch:harness-pid-out-of-range"] else
    (* model = implementation, with the model's own cross-architecture set *)
    compare_run R (u_world r) (dq0_of c dqs r) (u_obs r) ++
    (* no member is missing from another architecture *)
    (match u_obs r with
     | Some l =>
         if u_multi r then
           let others := List.map snd (List.filter (fun bv => negb (String.eqb (fst bv) (fst au))) (c_archs c)) in
           List.map (String.append "viol:") (nodup string_dec (foreign_check others (List.map (fun i => nth i (snd au) dummy_pkg) l)))
         else []
     | None => []
     end) ++
    (* a single architecture is unaffected: the answer with allArchs = {arch} is the
       answer of the PLAIN resolution (dq0 = []), as is the answer with allArchs =
       nil: both observed lists must equal the plain model's (and hence each
       other), install_if additions included (their order is fixed since c03e0c0). *)
    (match u_obs_plain r with
     | Some plain =>
         if Nat.leb (List.length (c_archs c)) 1 then
           let m_plain := compare_run R (u_world r) [] plain in
           let m_multi := compare_run R (u_world r) [] (u_obs r) in
           List.map (fun t => String.append t "/allArchs-nil-run") m_plain ++
           tag_if (match m_plain, m_multi with [], _ :: _ => true | _, _ => false end) "viol:single-arch-affected"
         else []
     | None => []
     end)) (c_runs c)).

(* ==== the wiring (Model/MultiArch.v) against the real NewMultiArch / ResolveWorld ====
   multiarch stage: the architectures as handed to NewMultiArch, the index
   objects each architecture's APK resolves with (identities assigned by the
   harness: one per architecture and repository), what every context's ByArch
   map looks like, every context's own ResolveWorld answer, and the answer of
   BuildPackageLists. *)
From Apko Require Export Generated.C14Wiring Model.MultiArch.

Record wcase := {
  w_archs : list string;
  w_repos : list (string * list nindex);
  w_world : list string;
  w_transport : string;
  w_byarch : list (string * list (string * string));           (* context -> its ByArch: (key, architecture of the APK stored there) *)
  w_obs : list (string * option (list (string * string)));     (* context -> ResolveWorld: install list / None = error *)
  w_lists : option (list (string * list (string * string)))    (* BuildPackageLists *)
}.

Definition nv_eqb (x y : string * string) : bool := String.eqb (fst x) (fst y) && String.eqb (snd x) (snd y).
Definition repos_fn (l : list (string * list nindex)) (a : string) : list nindex :=
  match alookup a l with Some ixs => ixs | None => [] end.
Definition set_eqb {A} (eqb : A -> A -> bool) (a b : list A) : bool :=
  forallb (fun x => existsb (eqb x) b) a && forallb (fun x => existsb (eqb x) a) b.
Definition find_pkg (U : universe) (x : string * string) : option pkg :=
  List.find (fun p => String.eqb (p_name p) (fst x) && String.eqb (p_version p) (snd x)) U.

Definition compare_lists (m : res (list (string * string))) (o : option (list (string * string))) (iif : bool) : list string :=
  match m, o with
  | Ok l, Some l' => tag_if (negb (list_eqb nv_eqb l l'))
                       (if iif then "mismatch:install-list/universe-with-install-if" else "mismatch:install-list")
  | Err, None => []
  | Ok _, None => ["mismatch:model-ok-impl-error"]
  | Err, Some _ => ["mismatch:model-error-impl-ok"]
  | Panic, _ => ["mismatch:model-panics"]
  | OutOfFuel, _ => ["mismatch:model-out-of-fuel"]
  end.

Definition has_iif_pkgs (U : universe) : bool := existsb (fun p => match p_install_if p with [] => false | _ => true end) U.

(* the validator of the property on one observed install list *)
Definition foreign_tags (own : universe) (others : list universe) (l : list (string * string)) : list string :=
  flat_map (fun x =>
    match find_pkg own x with
    | None => ["viol:member-not-from-own-repositories"]
    | Some p => List.map (String.append "viol:") (foreign_check others [p])
    end) l.

Definition check_wiring (c : wcase) : list string :=
  let repos := repos_fn (w_repos c) in
  let ctx := contexts (w_archs c) in
  let expected := by_arch_of ctx in
  let faulty := String.eqb (w_transport c) "http-fault" in
  nodup string_dec (
    tag_if (negb (set_eqb String.eqb ctx (List.map fst (w_obs c)))) "mismatch:contexts" ++
    (* every context holds the one ByArch map the model computes: no sibling dropped, each under its key *)
    flat_map (fun am =>
      tag_if (Nat.ltb (List.length (snd am)) (List.length ctx)) "viol:sibling-dropped-from-byarch" ++
      tag_if (negb (set_eqb (fun x y => nv_eqb x y) expected (snd am) && Nat.eqb (List.length expected) (List.length (snd am))))
             "mismatch:byarch-map") (w_byarch c) ++
    tag_if (negb (set_eqb String.eqb ctx (List.map fst (w_byarch c)))) "mismatch:byarch-contexts" ++
    (* model = implementation per architecture; the validator on the implementation's list *)
    flat_map (fun ao =>
      let a := fst ao in
      let own := flatten (repos a) in
      (* under the http-fault transport (an index refused once) an error is always an acceptable answer; a list is still compared *)
      (if faulty && match snd ao with None => true | Some _ => false end then []
       else compare_lists (resolve_arch repos ctx (w_world c) a) (snd ao) (has_iif_pkgs own)) ++
      match snd ao with
      | None => []
      | Some l =>
          let others := List.map (fun b => flatten (repos b)) (List.filter (fun b => negb (String.eqb b a)) ctx) in
          foreign_tags own others l
      end) (w_obs c) ++
    (* BuildPackageLists = all of them, or an error *)
    match build_package_lists repos (w_archs c) ctx (w_world c), w_lists c with
    | None, None => []
    | Some m, Some o =>
        (* the validator on the lists of the CONCURRENT per-architecture resolutions as well *)
        flat_map (fun al =>
          let others := List.map (fun b => flatten (repos b)) (List.filter (fun b => negb (String.eqb b (fst al))) ctx) in
          foreign_tags (flatten (repos (fst al))) others (snd al)) o ++
        tag_if (negb (Nat.eqb (List.length m) (List.length o) &&
                      forallb (fun al => match alookup (fst al) o with
                                         | Some l => list_eqb nv_eqb (snd al) l
                                         | None => false
                                         end) m)) "mismatch:build-package-lists"
    | Some _, None => tag_if (negb faulty) "mismatch:build-package-lists/model-ok-impl-error"
    | None, Some _ => ["mismatch:build-package-lists/model-error-impl-ok"]
    end).

(* ==== histories of multi-architecture resolutions in one process (dqcache stage) ====
   A pool of index objects (identity = position in the pool); every call hands
   GetPackagesWithDependencies a map key -> objects of the pool, on a resolver
   built from [hc_own].  Observed per call: the answer, the set stored under
   the call's key right afterwards, and (uncached, through a hook) the result
   of disqualifyDifference on the same map with its messages. *)
Record hcall := {
  hc_groups : list (string * list nat);
  hc_own : list nat;
  hc_world : list string;
  hc_obs : option (list (string * string));
  hc_entry : option (list (nat * nat));
  hc_fresh : list ((nat * nat) * string)
}.
Record hcase := { h_pool : list nindex; h_calls : list hcall }.
Definition HC := Build_hcall.

Definition pool_ix (pool : list nindex) (i : nat) : nindex := nth i pool (NI i "" []).
Definition groups_map (pool : list nindex) (g : list (string * list nat)) : arch_map :=
  List.map (fun e => (fst e, List.map (pool_ix pool) (snd e))) g.
Definition nat_list_eqb := list_eqb Nat.eqb.
Definition group_eqb (x y : string * list nat) : bool := String.eqb (fst x) (fst y) && nat_list_eqb (snd x) (snd y).

(* the package behind an object of the map, with the keys of the architectures that list its index *)
Definition obj_pkg (pool : list nindex) (o : nat * nat) : pkg := nth (snd o) (ni_pkgs (pool_ix pool (fst o))) dummy_pkg.
Definition obj_keys (g : list (string * list nat)) (o : nat * nat) : list string :=
  List.map fst (List.filter (fun e => existsb (Nat.eqb (fst o)) (snd e)) g).

Definition names_distinct (pool : list nindex) (g : list (string * list nat)) : bool :=
  nodup_b (List.map (fun i => ni_name (pool_ix pool i)) (List.concat (List.map snd g))).

Definition check_call (pool : list nindex) (earlier : list hcall) (cache : dq_cache) (h : hcall) : dq_cache * list string :=
  let aa := groups_map pool (hc_groups h) in
  let own := List.map (pool_ix pool) (hc_own h) in
  let U := flatten own in
  let '(cache', d) := dq_cache_get cache aa in
  let model := resolve U (hc_world h) (own_dq own d) in
  (* was this call's key used before by another grouping? (the mechanism of the former finding C08-F2, fixed by
     3541d7b: the tag stays in the validator, unlisted, so that a regression is a VIOLATION) *)
  let stale := existsb (fun e => nat_list_eqb (dq_cache_key (groups_map pool (hc_groups e))) (dq_cache_key aa) &&
                                 negb (set_eqb group_eqb (hc_groups e) (hc_groups h))) earlier in
  let self_keys := List.map fst (List.filter (fun e => nat_list_eqb (snd e) (hc_own h)) (hc_groups h)) in
  let others := List.map (fun e => flatten (snd e)) (List.filter (fun e => negb (mem_str (fst e) self_keys)) aa) in
  (cache',
   tag_if (negb (set_eqb obj_eqb (List.map fst (hc_fresh h)) (dq_objs aa))) "mismatch:dq-difference" ++
   tag_if (negb (forallb (fun om =>
             existsb (fun k => mem_str (snd om) (dq_reasons aa k (obj_pkg pool (fst om)))) (obj_keys (hc_groups h) (fst om)))
             (hc_fresh h))) "mismatch:dq-message" ++
   (* the entry the hook finds under the call's key right after the call.  Indexes with pairwise different names: the
      key is determined, the entry must be there and be what the model handed out.  Equal names (unpinned
      repositories): the hook's own lookup lists the map in its own order and may walk another path than the call
      did, so it may find nothing; what it finds was stored for this very grouping and must be its difference
      (c14_cache_listing_order_irrelevant) *)
   (if names_distinct pool (hc_groups h)
    then tag_if (negb (match hc_entry h with Some e => set_eqb obj_eqb e d | None => false end)) "mismatch:dq-cache-entry"
    else tag_if (negb (match hc_entry h with Some e => set_eqb obj_eqb e (dq_objs aa) | None => true end))
                "mismatch:dq-cache-entry/equal-names") ++
   compare_lists (observe_world own model) (hc_obs h) (has_iif_pkgs U) ++
   match hc_obs h with
   | None => []
   | Some l =>
       if Nat.leb 2 (List.length (hc_groups h)) then
         List.map (fun t => if stale && String.eqb t "viol:foreign-version" then "viol:dq-cache-key-ignores-grouping" else t)
                  (foreign_tags U others l)
       else
         (* at most one architecture: the answer is the plain resolution *)
         match observe_world own (resolve U (hc_world h) []) with
         | Ok p => tag_if (negb (list_eqb nv_eqb p l))
                     (if stale then "viol:dq-cache-key-ignores-grouping" else "viol:single-arch-affected")
         | _ => [if stale then "viol:dq-cache-key-ignores-grouping" else "viol:single-arch-affected"]
         end
   end ++
   (* at most one architecture and an error where the plain resolution succeeds *)
   match hc_obs h, Nat.leb 2 (List.length (hc_groups h)), resolve U (hc_world h) [] with
   | None, false, Ok _ => [if stale then "viol:dq-cache-key-ignores-grouping" else "viol:single-arch-affected"]
   | _, _, _ => []
   end).

Fixpoint check_calls (pool : list nindex) (earlier : list hcall) (cache : dq_cache) (l : list hcall) : list string :=
  match l with
  | [] => []
  | h :: t => let '(cache', tags) := check_call pool earlier cache h in
              tags ++ check_calls pool (earlier ++ [h]) cache' t
  end.

Definition check_history (c : hcase) : list string := nodup string_dec (check_calls (h_pool c) [] [] (h_calls c)).

(* ==== concurrent per-architecture resolutions (conc stage) ==============================
   What MultiArch.BuildPackageLists / BuildLayers do: one resolution per
   architecture, all at the same time, all asking the disqualification cache for
   the same map.  Every round starts from a cold cache with fresh index objects;
   the resolution of [cr_first] is started first and held inside
   disqualifyDifference (an index whose Packages() stalls) while the other
   architectures' calls arrive; then it is released.  Verdict, every round, every
   architecture: the list is the one the model computes from an empty cache, and
   foreign_check passes on the implementation's list. *)
Record cround := { cr_first : string; cr_obs : list (string * option (list (string * string))) }.
Record ccase := { cc_archs : list (string * list nindex); cc_world : list (string * list string); cc_rounds : list cround }.
Definition CR := Build_cround.

Definition check_conc (c : ccase) : list string :=
  let aa : arch_map := cc_archs c in
  let expected := List.map (fun e =>
    let w := match alookup (fst e) (cc_world c) with Some w => w | None => [] end in
    (fst e, observe_world (snd e) (snd (get_packages [] (snd e) w aa)))) aa in
  nodup string_dec (flat_map (fun r =>
    tag_if (negb (set_eqb String.eqb (List.map fst aa) (List.map fst (cr_obs r)))) "mismatch:conc-architectures" ++
    flat_map (fun ao =>
      let a := fst ao in
      let own := flatten (match alookup a aa with Some ixs => ixs | None => [] end) in
      let others := List.map (fun e => flatten (snd e)) (List.filter (fun e => negb (String.eqb (fst e) a)) aa) in
      match alookup a expected with
      | Some m => List.map (fun t => String.append t "/concurrent") (compare_lists m (snd ao) (has_iif_pkgs own))
      | None => ["mismatch:conc-architectures"]
      end ++
      match snd ao with
      | None => []
      | Some l => if Nat.leb 2 (List.length aa) then foreign_tags own others l else []
      end) (cr_obs r)) (cc_rounds c)).
