(* C15 correspondence: outcome class (returned / error / panic / hang) of the
   real readers on generated inputs, judged by Spec/ParsersSpec.v and compared
   with the model where the reader is modelled. *)
From Apko Require Export Base.Prelude Base.C16Lib Model.Formats Model.Parsers Model.Parsers2 Spec.ParsersSpec Corr.C16.
Open Scope string_scope. Open Scope list_scope.

Record c15_case := {
  k_reader : string; k_input : string; k_flag : bool; k_num : Z; k_b64 : codec_tbl;
  k_obs : rclass
}.
Definition rclass_eqb (a b : rclass) : bool :=
  match a, b with CkOk, CkOk | CkErr, CkErr | CkPanic, CkPanic | CkHang, CkHang => true | _, _ => false end.
(* for readers whose error/ok distinction the harness does not observe *)
Definition coarse (c : rclass) : rclass := match c with CkErr => CkOk | x => x end.

Definition model_class (c : c15_case) : option rclass :=
  let dec := tbl_dec (k_b64 c) in
  let r := k_reader c in
  if r =? "ParsePackageIndex" then Some (class_of (parse_index dec (k_input c))) else
  if r =? "ParseInstalled" then Some (class_of (parse_installed dec (k_input c))) else
  if r =? "UserFile.Load" then Some (class_of (load_users (k_input c))) else
  if r =? "GroupFile.Load" then Some (class_of (load_groups (k_input c))) else
  if r =? "installAPKFiles-entry-name" then Some (coarse (class_of (install_hidden_test (k_flag c) (k_input c)))) else
  if r =? "standardizePath" then Some (coarse (class_of (standardize_path (k_input c)))) else
  if r =? "groupByOriginAndSize-budget" then Some (coarse (class_of (make_groups (k_num c)))) else
  if r =? "cachedPackage-checksum" then Some (class_of (cached_package_slice (k_input c))) else
  None.
Definition check_c15 (c : c15_case) : list string :=
  class_tags (k_reader c) (k_obs c) ++
  match model_class c with
  | Some m => tag_if (negb (rclass_eqb m (k_obs c))) ("mismatch:class-" +++ k_reader c)
  | None => []
  end.

(* ---- session 3: the readers added to the model, compared with the real functions --------
   (stage `sites`). [s_out]: what the implementation returned, as strings; [s_obytes]: a
   byte result. A panic or a timeout of the real function is a violation whatever the model says. *)
Record site_case := {
  s_kind : string; s_in : string; s_ins : list string; s_nums : list Z;
  s_b64 : codec_tbl; s_hex : codec_tbl;
  s_obs : rclass; s_out : list string; s_obytes : option (list N)
}.
Definition mkind_of (z : Z) : mkind :=
  if (z =? 0)%Z then MSign else if (z =? 1)%Z then MPlain else if (z =? 2)%Z then MEmpty
  else if (z =? 4)%Z then MZero else if (z =? 5)%Z then MJunk else MBad.
Definition bool_str (b : bool) : string := if b then "true" else "false".
Definition cmp {A} (kind : string) (obs : rclass) (out_ok : A -> bool) (m : res A) : list string :=
  tag_if (negb (rclass_eqb (class_of m) obs)) ("mismatch:class-" +++ kind) ++
  match m with
  | Ok a => tag_if (rclass_eqb obs CkOk && negb (out_ok a)) ("mismatch:value-" +++ kind)
  | _ => []
  end.
Fixpoint tarfs_entries (ins : list string) (kinds : list Z) : list (string * tent) :=
  match ins, kinds with
  | n :: l :: ins', k :: kinds' => (n, mkTent k l) :: tarfs_entries ins' kinds'
  | _, _ => []
  end.
Definition check_site (c : site_case) : list string :=
  let k := s_kind c in
  (if k =? "repoAbbr" then [] else class_tags k (s_obs c)) ++
  if k =? "readReleaseData" then
    cmp k (s_obs c) (fun r => list_eqb String.eqb [rl_id r; rl_name r; rl_version r] (s_out c)) (read_release (s_in c))
  else if k =? "repoLine" then
    (* s_ins = [existing repository directory; what Source() says for it]; an index comes back only for that directory *)
    cmp k (s_obs c) (fun nu => match s_ins c with
                               | [d; src] => if snd nu =? d then list_eqb String.eqb (s_out c) [fst nu; src] else list_eqb String.eqb (s_out c) []
                               | _ => false
                               end) (repo_line (s_in c))
  else if k =? "unifySplit" then
    cmp k (s_obs c) (fun nvp => let '(n, _, p) := nvp in list_eqb String.eqb (s_out c) [n; p]) (unify_split (s_in c))
  else if k =? "checksumFromHeader" then
    cmp k (s_obs c) (fun o => option_eqb bytes_eqb o (s_obytes c))
      (checksum_from_header (tbl_dec (s_b64 c)) (tbl_dec (s_hex c))
         (match s_nums c with 1%Z :: _ => Some (s_in c) | _ => None end))
  else if k =? "expandApk" then
    match s_nums c with
    | g :: ms => cmp k (s_obs c) (fun sg => list_eqb String.eqb (s_out c) [bool_str sg]) (expand_apk (map mkind_of ms) (negb (g =? 0)%Z))
    | [] => ["mismatch:malformed-case"]
    end
  else if k =? "split" then
    match s_nums c with
    | _ :: ms => cmp k (s_obs c) (fun n => list_eqb String.eqb (s_out c) [fmt_n (N.of_nat n)]) (split_parts (map mkind_of ms))
    | [] => ["mismatch:malformed-case"]
    end
  else if k =? "resolveApk" then
    (* ResolveApk = Split, then the parts by index; no value compared (hashes of the raw sections) *)
    match s_nums c with
    | _ :: ms => cmp k (s_obs c) (fun _ : unit => true) (do n <- split_parts (map mkind_of ms); resolve_apk_select n)
    | [] => ["mismatch:malformed-case"]
    end
  else if k =? "controlValues" then
    (* s_in = the .PKGINFO text, s_out = the values the real code found for the key "triggers" *)
    cmp k (s_obs c) (fun kvs => list_eqb String.eqb (map snd kvs) (s_out c)) (control_values (fun key => key =? "triggers") (s_in c))
  else if k =? "conflictName" then
    cmp k (s_obs c) (fun _ : option string => true) (match conflict_name (s_in c) with Ok v => Ok v | Err => Ok None | Panic => Panic | OutOfFuel => OutOfFuel end)
  else if k =? "layerCutoff" then
    (* s_nums = [number of groups; budget]; s_out = [number of groups that come back] *)
    match s_nums c with
    | [len; budget] => cmp k (s_obs c) (fun cut => list_eqb String.eqb (s_out c) [fmt_z (if (budget <? len)%Z then cut + 1 else len)%Z]) (layer_cutoff len budget)
    | _ => ["mismatch:malformed-case"]
    end
  else if k =? "repoAbbr" then
    (* a panic of this exported method is not a violation of the tool (no caller): class and value are compared only *)
    cmp k (s_obs c) (fun r => list_eqb String.eqb (s_out c) [r]) (repo_abbr (s_in c))
  else if k =? "envAuth" then
    cmp k (s_obs c) (fun _ : unit => true) (env_auth_skel (s_in c))
  else if k =? "etag" then
    (* s_nums = [header present]; s_ins = the header's values; s_out = [whether an etag came back] *)
    match s_nums c with
    | [p] => cmp k (s_obs c) (fun b => list_eqb String.eqb (s_out c) [bool_str b]) (etag_skel (negb (p =? 0)%Z) (s_ins c))
    | _ => ["mismatch:malformed-case"]
    end
  else if k =? "tarfsOpen" then
    (* s_ins = name1; link1; name2; link2; …, s_nums = the kinds (1 hard link, 2 symbolic link); s_in = the name that is
       opened; s_out = the full name of the entry that was opened *)
    cmp k (s_obs c) (fun n => list_eqb String.eqb (s_out c) [n]) (tarfs_open_name (tarfs_entries (s_ins c) (s_nums c)) (s_in c))
  else if k =? "fields" then
    (* strings.Fields itself, on arbitrary bytes: the model of the library function the splitter relies on *)
    tag_if (negb (list_eqb String.eqb (go_fields (s_in c)) (s_out c))) "mismatch:value-fields"
  else ["mismatch:unknown-kind"].

(* ---- session 4: ImageConfiguration.Load on real directory trees (stage `includes`) against load_config
   (the loader since fix 43ae291: a resolved path met again is an error).
   [g_out]: contents.packages of the merged configuration = the markers of the files loaded, innermost
   first. The model runs with fuel 40 and with the proved bound |files| + 2 (c15_include_chain_fuel_bound,
   c15_include_load_terminates_on_trees): it never runs out of fuel, so a load that does not come back is a
   mismatch AND carries the tag of the repaired finding C15-F6 (armed, no longer listed). *)
Record cfg_case := { g_fs : cfs; g_incs : list string; g_req : string; g_obs : rclass; g_out : list string }.
Definition check_cfg (c : cfg_case) : list string :=
  let m := load_config 40 (g_fs c) (g_incs c) (g_req c) in
  match g_obs c with
  | CkHang => ["viol:hang-ImageConfiguration.Load-include-cycle"]
  | CkPanic => ["viol:panic-ImageConfiguration.Load"]
  | _ => []
  end ++
  tag_if (negb (rclass_eqb (class_of m) (g_obs c))) "mismatch:class-loadConfig" ++
  match m with
  | Ok l => tag_if (rclass_eqb (g_obs c) CkOk && negb (list_eqb String.eqb (rev l) (g_out c))) "mismatch:value-loadConfig"
  | _ => []
  end ++
  (* the bound the theorem states, on this tree *)
  tag_if (negb (rclass_eqb (class_of (load_config (S (S (List.length (cf_files (g_fs c))))) (g_fs c) (g_incs c) (g_req c))) (class_of m))) "mismatch:fuel-bound-loadConfig".
