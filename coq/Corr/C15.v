(* C15 correspondence: outcome class (returned / error / panic / hang) of the
   real readers on generated inputs, judged by Spec/ParsersSpec.v and compared
   with the model where the reader is modelled. *)
From Apko Require Export Base.Prelude Base.C16Lib Model.Formats Model.Parsers Spec.ParsersSpec Corr.C16.
Open Scope string_scope. Open Scope list_scope.

Record c15_case := {
  k_reader : string; k_input : string; k_flag : bool; k_num : Z; k_b64 : codec_tbl;
  k_obs : rclass
}.
Definition rclass_eqb (a b : rclass) : bool :=
  match a, b with CkOk, CkOk | CkErr, CkErr | CkPanic, CkPanic | CkHang, CkHang => true | _, _ => false end.
(* for readers whose error/ok distinction the harness does not observe *)
Definition coarse (c : rclass) : rclass := match c with CkErr => CkOk | x => x end.

Definition model_class (c : c15_case) : option rclass :=
  let dec := tbl_dec (k_b64 c) in
  let r := k_reader c in
  if r =? "ParsePackageIndex" then Some (class_of (parse_index dec (k_input c))) else
  if r =? "ParseInstalled" then Some (class_of (parse_installed dec (k_input c))) else
  if r =? "UserFile.Load" then Some (class_of (load_users (k_input c))) else
  if r =? "GroupFile.Load" then Some (class_of (load_groups (k_input c))) else
  if r =? "installAPKFiles-entry-name" then Some (coarse (class_of (install_hidden_test (k_flag c) (k_input c)))) else
  if r =? "standardizePath" then Some (coarse (class_of (standardize_path (k_input c)))) else
  if r =? "groupByOriginAndSize-budget" then Some (coarse (class_of (make_groups (k_num c)))) else
  if r =? "cachedPackage-checksum" then Some (class_of (cached_package_slice (k_input c))) else
  None.
Definition check_c15 (c : c15_case) : list string :=
  class_tags (k_reader c) (k_obs c) ++
  match model_class c with
  | Some m => tag_if (negb (rclass_eqb m (k_obs c))) ("mismatch:class-" +++ k_reader c)
  | None => []
  end.
