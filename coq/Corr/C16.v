(* C16 correspondence: what the harness observed of the real writers and
   readers, compared with the model (tags mismatch:...) and judged by the validators
   of Spec/FormatsSpec.v (tags viol:...). The base64 / hex codecs are library code:
   each case carries the table of what Go's codecs answered on the strings
   that occur in it, and the model's Section variables are instantiated with
   look-ups in that table. *)
From Apko Require Export Base.Prelude Base.C16Lib Model.Formats Spec.FormatsSpec.
Open Scope string_scope. Open Scope list_scope.

Definition codec_tbl := list (string * option (list N)).
Definition tbl_dec (t : codec_tbl) (s : string) : option (list N) :=
  match alookup s t with Some r => r | None => None end.
Fixpoint tbl_enc (t : codec_tbl) (b : list N) : string :=
  match t with
  | [] => "<no-encoding-in-table>"
  | (s, Some b') :: t' => if bytes_eqb b b' then s else tbl_enc t' b
  | _ :: t' => tbl_enc t' b
  end.

Definition pkg_eqb_full (a b : pkg) : bool :=
  match pkg_tags "x" a b with [] => (p_bdate a =? p_bdate b)%Z | _ => false end.
Definition res_eqb {A} (eqb : A -> A -> bool) (a b : res A) : bool :=
  match a, b with
  | Ok x, Ok y => eqb x y
  | Err, Err | Panic, Panic | OutOfFuel, OutOfFuel => true
  | _, _ => false
  end.
Definition rec_eqb (a b : pkg * list hdr) : bool :=
  pkg_eqb_full (fst a) (fst b) && list_eqb hdr_eqb (snd a) (snd b).

(* ---- APKINDEX: ArchiveFromIndex then IndexFromArchive, then written again ---- *)
Record index_case := {
  ic_pkgs : list pkg; ic_b64 : codec_tbl;
  ic_text : string;                   (* the APKINDEX member the implementation wrote *)
  ic_rb : res (list pkg);             (* what IndexFromArchive returned for that archive *)
  ic_rw : res string                  (* the APKINDEX member written from what was read *)
}.
Definition check_index (c : index_case) : list string :=
  let enc := tbl_enc (ic_b64 c) in let dec := tbl_dec (ic_b64 c) in
  tag_if (negb (write_index enc (ic_pkgs c) =? ic_text c)) "mismatch:index-writer" ++
  tag_if (negb (res_eqb (list_eqb pkg_eqb_full) (parse_index dec (ic_text c)) (ic_rb c))) "mismatch:index-reader" ++
  index_rt_tags (ic_pkgs c) (ic_rb c) ++
  fixpoint_tags "index" (ic_text c) (ic_rw c).

(* any text through ParsePackageIndex / ParseInstalled: reader model = implementation *)
Record read_case := { rc_text : string; rc_b64 : codec_tbl;
                      rc_index : res (list pkg); rc_installed : res (list (pkg * list hdr)) }.
Definition check_read (c : read_case) : list string :=
  let dec := tbl_dec (rc_b64 c) in
  tag_if (negb (res_eqb (list_eqb pkg_eqb_full) (parse_index dec (rc_text c)) (rc_index c))) "mismatch:index-reader" ++
  tag_if (negb (res_eqb (list_eqb rec_eqb) (parse_installed dec (rc_text c)) (rc_installed c))) "mismatch:installed-reader".

(* ---- installed database ---------------------------------------------------------- *)
Record installed_case := {
  nc_pkg : pkg; nc_files : list hdr; nc_b64 : codec_tbl; nc_hex : codec_tbl;
  nc_sorted : list hdr;                       (* sortTarHeaders(files) *)
  nc_text : res string;                       (* bytes AddInstalledPackage appended *)
  nc_rb : res (list (pkg * list hdr));        (* ParseInstalled of those bytes *)
  nc_rw : res string                          (* AddInstalledPackage of what was read *)
}.
Definition check_installed (c : installed_case) : list string :=
  let enc := tbl_enc (nc_b64 c) in let dec := tbl_dec (nc_b64 c) in let hexd := tbl_dec (nc_hex c) in
  tag_if (negb (res_eqb (list_eqb hdr_eqb) (sort_headers (nc_files c)) (Ok (nc_sorted c)))) "mismatch:sort-headers" ++
  tag_if (negb (res_eqb String.eqb (write_installed enc hexd (nc_pkg c) (nc_files c)) (nc_text c))) "mismatch:installed-writer" ++
  match nc_text c with
  | Ok text =>
      tag_if (negb (res_eqb (list_eqb rec_eqb) (parse_installed dec text) (nc_rb c))) "mismatch:installed-reader" ++
      installed_rt_tags (nc_pkg c) (nc_files c) (nc_rb c) ++
      sort_tags (nc_files c) (nc_sorted c) ++
      attribute_two_slashes (nc_files c) (attribute_dup_dir (nc_files c) (installed_fixpoint_tags text (nc_rw c)))
  | _ => []       (* the writer refused (undecodable per-file checksum): nothing was written *)
  end.

(* several AddInstalledPackage calls on one file system, ParseInstalled of the file, and the
   same again with what was read *)
Record db_case := {
  dc_recs : list (pkg * list hdr); dc_b64 : codec_tbl; dc_hex : codec_tbl;
  dc_text : res string; dc_rb : res (list (pkg * list hdr)); dc_rw : res string }.
Definition check_db (c : db_case) : list string :=
  let enc := tbl_enc (dc_b64 c) in let dec := tbl_dec (dc_b64 c) in let hexd := tbl_dec (dc_hex c) in
  let allfiles := flat_map snd (dc_recs c) in
  tag_if (negb (res_eqb String.eqb (write_db enc hexd (dc_recs c)) (dc_text c))) "mismatch:installed-db-writer" ++
  match dc_text c with
  | Ok text =>
      tag_if (negb (res_eqb (list_eqb rec_eqb) (parse_installed dec text) (dc_rb c))) "mismatch:installed-reader" ++
      db_tags (dc_recs c) (dc_rb c) ++
      attribute_two_slashes allfiles (attribute_dup_dir allfiles (installed_fixpoint_tags text (dc_rw c)))
  | _ => []
  end.

(* ---- passwd / group ---------------------------------------------------------------- *)
Record users_case := { uc_users : list user; uc_text : string; uc_rb : res (list user); uc_rw : res string }.
Definition check_users (c : users_case) : list string :=
  tag_if (negb (write_users (uc_users c) =? uc_text c)) "mismatch:passwd-writer" ++
  tag_if (negb (res_eqb (list_eqb user_eqb) (load_users (uc_text c)) (uc_rb c))) "mismatch:passwd-reader" ++
  users_rt_tags (uc_users c) (uc_rb c) ++ fixpoint_tags "passwd" (uc_text c) (uc_rw c).

Definition group_eqb (a b : group) : bool :=
  (g_name a =? g_name b) && (g_pass a =? g_pass b) && (g_gid a =? g_gid b)%N && strs_eqb (g_members a) (g_members b).
Record groups_case := { gc_groups : list group; gc_text : string; gc_rb : res (list group); gc_rw : res string }.
Definition check_groups (c : groups_case) : list string :=
  tag_if (negb (write_groups (gc_groups c) =? gc_text c)) "mismatch:group-writer" ++
  tag_if (negb (res_eqb (list_eqb group_eqb) (load_groups (gc_text c)) (gc_rb c))) "mismatch:group-reader" ++
  groups_rt_tags (gc_groups c) (gc_rb c) ++ fixpoint_tags "group" (gc_text c) (gc_rw c).

(* any text through UserFile.Load / GroupFile.Load *)
Record pwread_case := { pc_text : string; pc_users : res (list user); pc_groups : res (list group) }.
Definition check_pwread (c : pwread_case) : list string :=
  tag_if (negb (res_eqb (list_eqb user_eqb) (load_users (pc_text c)) (pc_users c))) "mismatch:passwd-reader" ++
  tag_if (negb (res_eqb (list_eqb group_eqb) (load_groups (pc_text c)) (pc_groups c))) "mismatch:group-reader" ++
  entry_count_tags "passwd" (pc_text c) (pc_users c) ++ entry_count_tags "group" (pc_text c) (pc_groups c).

(* file level: etc/passwd or etc/group rewritten in place through WriteFile; the file must hold what Write produces for the
   entries written last (pf_want, itself compared with the model by the users/groups cases), nothing of what was there before *)
Record pwfile_case := { pf_kind : string; pf_backend : string; pf_want : string; pf_file : res string }.
Definition check_pwfile (c : pwfile_case) : list string :=
  match pf_file c with
  | Ok t => tag_if (negb (t =? pf_want c)) "viol:accounts-file-rewrite-differs-from-entries-written"
  | _ => ["viol:accounts-file-rewrite-failed"]
  end.

(* one sum type so that a stage can mix kinds *)
Inductive c16_case :=
| CIndex (c : index_case) | CRead (c : read_case) | CInstalled (c : installed_case)
| CUsers (c : users_case) | CGroups (c : groups_case) | CPwRead (c : pwread_case) | CPwFile (c : pwfile_case) | CDb (c : db_case).
Definition check_c16 (c : c16_case) : list string :=
  match c with
  | CIndex c => check_index c | CRead c => check_read c | CInstalled c => check_installed c
  | CUsers c => check_users c | CGroups c => check_groups c | CPwRead c => check_pwread c | CDb c => check_db c | CPwFile c => check_pwfile c
  end.
