(* C17 correspondence: operation sequences run on the real filesystems by
   harness/cmd/c17, replayed through the model (mismatch:...) and judged step
   by step against the reference (viol:<corner>). *)
From Apko Require Export Base.Prelude Model.MemFS Spec.FsSpec Model.DirFS Model.SubFS.
Open Scope string_scope. Open Scope list_scope.

Definition mtime_match (a b : option Z) : bool :=
  match a, b with Some x, Some y => Z.eqb x y | _, _ => true end.   (* never-set times are not observed *)

Definition out_match (e o : out) : bool :=
  match e, o with
  | OOk, OOk | OPanic, OPanic => true
  | OErr a, OErr b => eclass_eqb a b
  | OBytes a, OBytes b => list_eqb N.eqb a b
  | ONum a, ONum b => Z.eqb a b
  | OPath a, OPath b => path_eqb a b
  | OInfo k p sz u g t, OInfo k' p' sz' u' g' t' =>
      kind_eqb k k' && N.eqb p p' && (match k with KReg => N.eqb sz sz' | _ => true end) &&
      Z.eqb u u' && Z.eqb g g' && mtime_match t t'
  | ODir a, ODir b => list_eqb (pair_eqb String.eqb kind_eqb) a b
  | OXattrs a, OXattrs b => list_eqb (pair_eqb String.eqb (list_eqb N.eqb)) a b
  | _, _ => false
  end.

Definition acc_eqb (a b : acc) : bool :=
  match a, b with ARd, ARd | AWr, AWr | ARdWr, ARdWr => true | _, _ => false end.
Definition handle_eqb (a b : handle) : bool :=
  Nat.eqb (h_ino a) (h_ino b) && Z.eqb (h_off a) (h_off b) && Bool.eqb (h_open a) (h_open b) &&
  acc_eqb (f_acc (h_fl a)) (f_acc (h_fl b)) && Bool.eqb (f_app (h_fl a)) (f_app (h_fl b)).
Definition st_eqb (a b : st) : bool :=
  heap_eqb (heap a) (heap b) && list_eqb handle_eqb (handles a) (handles b).

Definition op_name (o : op) : string :=
  match o with
  | Mkdir _ _ => "Mkdir" | MkdirAll _ _ => "MkdirAll" | OpenFile _ _ _ => "OpenFile" | Create _ => "Create"
  | Read _ _ => "Read" | ReadAt _ _ _ => "ReadAt" | Write _ _ => "Write" | Seek _ _ _ => "Seek" | Close _ => "Close"
  | ReadFile _ => "ReadFile" | WriteFile _ _ _ => "WriteFile" | ReadDir _ => "ReadDir" | Stat _ => "Stat"
  | Lstat _ => "Lstat" | Symlink _ _ => "Symlink" | Link _ _ => "Link" | Readlink _ => "Readlink"
  | Remove _ => "Remove" | Chmod _ _ => "Chmod" | Chown _ _ _ => "Chown" | Chtimes _ _ => "Chtimes"
  | Mknod _ _ _ => "Mknod" | Readnod _ => "Readnod" | SetXattr _ _ _ => "SetXattr" | GetXattr _ _ => "GetXattr"
  | RemoveXattr _ _ => "RemoveXattr" | ListXattrs _ => "ListXattrs"
  end.

(* A narrower tag inside the link-resolution corner: the reference resolves the
   operation's path by following EXACTLY its budget of links (it fails with one
   less), the reference's step succeeds, and the implementation refuses.  No
   listed finding covers this: the code's limits are the reference's budget
   (both are maxLinks), and a chain of exactly maxLinks links must resolve. *)
Definition op_path (o : op) : option path :=
  match o with
  | Stat p | Lstat p | ReadDir p | ReadFile p | OpenFile p _ _ | Create p | WriteFile p _ _
  | Chmod p _ | Chown p _ _ | Chtimes p _
  | SetXattr p _ _ | GetXattr p _ | RemoveXattr p _ | ListXattrs p => Some p
  | _ => None
  end.
Definition resolves (r : rres) : bool := match r with RFound _ _ => true | _ => false end.
Definition at_link_limit (h : list node) (p : path) : bool :=
  resolves (s_resolve spec_max_links h [0] None p true) &&
  negb (resolves (s_resolve (pred spec_max_links) h [0] None p true)).
Definition limit_refused (s : st) (o : op) (sr r : out) : bool :=
  match op_path o with
  | Some p => negb (is_failure sr) && is_failure r && at_link_limit (heap s) p
  | None => false
  end.

Definition corner_tag (b : backend) (s : st) (o : op) : string :=
  match corner b s o with Some t => t | None => "diverges-inside-envelope" end.
Definition viol_tag (b : backend) (s : st) (o : op) (sr r : out) : string :=
  if String.eqb (corner_tag b s o) t_link && limit_refused s o sr r then "link-chain-at-the-limit-refused"
  else corner_tag b s o.

(* in-memory backends: every step compared with the model (from the model's
   state, which is the implementation's as long as they agree) and with the
   reference step from that same state *)
Fixpoint check_steps (b : backend) (s : st) (ops : list op) (obs : list out) : list string :=
  match ops, obs with
  | [], [] => []
  | o :: ops', r :: obs' =>
      let '(s1, mr) := model_step b s o in
      let '(s1', sr) := spec_step s o in
      (* the observed result must be the reference's, and (the model standing
         for the implementation's state) so must the state it leaves *)
      let vt := if out_match sr r && st_eqb s1 s1' then [] else [String.append "viol:" (viol_tag b s o sr r)] in
      if out_match mr r then vt ++ check_steps b s1 ops' obs'
      else vt ++ [String.append "mismatch:" (op_name o)]
  | _, _ => ["mismatch:observation-count"]
  end.

(* directory-backed filesystem: no model of the host kernel; the observations
   are validated against the reference for as long as they agree with it *)
(* dirFS.Lstat answers from the overlay, which holds no file contents: the
   size of a non-empty regular file is reported as 0 (nothing else differs) *)
Definition dir_lstat_size0 (o : op) (sr r : out) : bool :=
  match o, sr, r with
  | Lstat _, OInfo KReg p sz u g t, OInfo KReg p' 0%N u' g' t' =>
      negb (N.eqb sz 0) && out_match (OInfo KReg p 0%N u g t) r
  | _, _, _ => false
  end.

(* Corners of the directory-backed filesystem itself.
   - Link: the disk side is link(2), which does not follow a symbolic link given
     as the old name, the overlay does: the two halves disagree, and the error
     precedence differs from the reference's.
   - a handle on a directory is the host's *os.File: what lseek/read answer on
     it is file-system specific and not part of the reference (not compared). *)
Definition dir_corner (s : st) (o : op) : option string :=
  match o with
  | Link old _ =>
      if eres_nat_eqb (s_lnode (heap s) old) (s_node (heap s) old) then None
      else Some "dirfs-link-oldname-symlink-not-followed-on-disk"
  | Readnod p =>
      (* dirFS.Readnod asks os.Stat first, which follows a final symbolic link (a dangling one: ENOENT);
         the overlay's Readnod, like the reference, looks at the entry itself (C17-F23) *)
      if eres_nat_eqb (s_lnode (heap s) p) (s_node (heap s) p) then None
      else Some "dirfs-readnod-stat-follows-symlink"
  | _ => None
  end.
(* Mknod of a name that is taken: since fix bfd5027 (was C17-F20: dirFS then called
   os.WriteFile(name, nil, 0), which answered with WriteFile's error and emptied an existing
   regular file) this is inside the envelope; a wrong answer there keeps the old tag *)
Definition mknod_taken (s : st) (o : op) : bool :=
  match o with
  | Mknod p _ _ => match s_leaf (heap s) p with inl (_, _, Some _) => true | _ => false end
  | _ => false
  end.
Definition on_dir_handle (s : st) (o : op) : bool :=
  match o with
  | Read i _ | ReadAt i _ _ | Write i _ | Seek i _ _ =>
      match nth_error (handles s) i with Some hd => h_open hd && is_dir (heap s) (h_ino hd) | None => false end
  | _ => false
  end.

(* link(2) looks the old name up before the new one, the reference the new name's directory first:
   when BOTH fail, which error is reported is not part of the property; the host's answer (the old
   name's error) is accepted as well (nothing changes either way) *)
Definition link_err_order (s : st) (o : op) (sr r : out) : bool :=
  match o, r with
  | Link old _, OErr e =>
      is_failure sr && match s_lnode (heap s) old with inr e1 => eclass_eqb e e1 | inl _ => false end
  | _, _ => false
  end.

(* The hidden state of dirFS (overlay + disk) is known only while every step
   has been inside the envelope: the sequence is judged up to and including
   the first step outside it. *)
Fixpoint check_dir_steps (s : st) (ops : list op) (obs : list out) : list string :=
  match ops, obs with
  | [], [] => []
  | o :: ops', r :: obs' =>
      let '(s1, sr) := spec_step s o in
      if on_dir_handle s o then check_dir_steps s1 ops' obs'
      else
      match (match dir_corner s o with Some t => Some t | None => corner MemFS s o end) with
      | Some t => if out_match sr r then [] else [String.append "viol:" t]
      | None =>
          if out_match sr r || link_err_order s o sr r then check_dir_steps s1 ops' obs'
          else if mknod_taken s o then ["viol:dirfs-mknod-fallback-writefile-on-existing-name"]
          else if dir_lstat_size0 o sr r then "viol:dirfs-lstat-size-from-overlay" :: check_dir_steps s1 ops' obs'
          else ["viol:dirfs-diverges-inside-envelope"]
      end
  | _, _ => ["mismatch:observation-count"]
  end.

(* the directory-backed filesystem against its own model (Model/DirFS.v: overlay =
   the memFS model, host = the reference): every step of the whole sequence is
   compared, inside the envelope or not — the model knows how overlay and host
   drift apart (C17-F19 included: the host's link(2) is modelled as it is). *)
(* Remove of a name that filepath.Join turns into the base directory itself (".", "/"), when the
   overlay holds an entry of that name (made by an un-normalised create) and the base directory is
   empty: os.Remove(base) removes the base directory.  What dirFS answers afterwards is outside the
   model (Model/DirFS.v says so): the step must succeed and the comparison ends there. *)
Definition base_removed (d : dst) (o : op) : bool :=
  match o with
  | Remove p => is_root_path (hp p) && negb (nonempty (n_children (get (heap (d_host d)) 0))) &&
                negb (is_failure (snd (ov_step (d_ov d) o)))
  | _ => false
  end.

Fixpoint check_dirm_steps (d : dst) (ops : list op) (obs : list out) : list string :=
  match ops, obs with
  | [], [] => []
  | o :: ops', r :: obs' =>
      let '(d1, mr) := dirfs_step d o in
      (* a Mknod that reports failure and, by the model the observation agrees with, changed the host
         (was C17-F20: the fallback os.WriteFile(name, nil, 0) truncated an existing file).  With the
         model of the repaired code this cannot happen; the test stays armed for a model that says so *)
      let vt := match o with
                | Mknod _ _ _ => if mknod_taken (d_host d) o && is_failure mr && out_match mr r && negb (st_eqb (d_host d1) (d_host d))
                                 then ["viol:dirfs-mknod-fallback-writefile-on-existing-name"] else []
                | _ => []
                end in
      if on_dir_handle (d_host d) o then check_dirm_steps d1 ops' obs'
      else if base_removed d o then (if out_match OOk r then [] else [String.append "mismatch:dirfs-" (op_name o)])
      else if out_match mr r then vt ++ check_dirm_steps d1 ops' obs'
      else [String.append "mismatch:dirfs-" (op_name o)]
  | _, _ => ["mismatch:observation-count"]
  end.

Fixpoint dedup (l : list string) : list string :=
  match l with
  | [] => []
  | x :: l' => if str_in x l' then dedup l' else x :: dedup l'
  end.

(* ---- the sub-filesystem view (Model/SubFS.v) -----------------------------------------------------
   A case runs on one in-memory backend; each operation goes either to the parent
   directly or through SubFS{FS: parent, Root: root} ([via] = true).  Every step is
   compared with the model (the parent's model on [sub_op root o]).  The observed
   result and the state the model leaves are judged against the reference step of
   the operation the view STANDS FOR: the operation at root/name ([at_root], for
   names without ".."; Symlink and Link included).  Tags:
   - subfs-dotdot-escapes-root: a name with ".." whose joined path is not under the
     root, and the operation succeeded there;
   - subfs-symlink-link-not-joined (was C17-F22, repaired by 44061d3): Symlink / Link
     through the view differ from the reference at root/name AND from the model of the
     repaired code, while their RESULT is the reference's at the names as given;
   - otherwise the corner of the parent's operation, as for plain cases. *)
Fixpoint prefixb (a b : path) : bool :=
  match a, b with
  | [], _ => true
  | x :: a', y :: b' => String.eqb x y && prefixb a' b'
  | _ :: _, [] => false
  end.
Definition all_paths (o : op) : list path := sub_paths o.
Definition dotdot_in (o : op) : bool := negb (forallb no_dotdot (all_paths o)).
Definition escapes (root : path) (o' : op) : bool := negb (forallb (prefixb root) (all_paths o')).
Definition unjoined (o : op) : bool := match o with Symlink _ _ | Link _ _ => true | _ => false end.

Fixpoint check_sub_steps (b : backend) (root : path) (s : st) (ops : list op) (vias : list bool) (obs : list out) : list string :=
  match ops, vias, obs with
  | [], [], [] => []
  | o :: ops', v :: vias', r :: obs' =>
      let o' := if v then sub_op root o else o in
      let '(s1, mr) := model_step b s o' in
      let oi := if v && negb (dotdot_in o) then at_root root o else o' in
      let '(s1', sr) := spec_step s oi in
      let '(s1'', sr') := spec_step s o' in
      let sr0 := snd (spec_step s o) in
      let vt :=
        if v && dotdot_in o && escapes root o' then
          (if is_failure r then [] else ["viol:subfs-dotdot-escapes-root"])
        else if out_match sr r && st_eqb s1 s1' then []
        else if v && unjoined o && out_match sr0 r && negb (out_match sr r) && negb (out_match mr r) then ["viol:subfs-symlink-link-not-joined"]
        else [String.append "viol:" (viol_tag b s o' sr' r)] in
      if out_match mr r then vt ++ check_sub_steps b root s1 ops' vias' obs'
      else vt ++ [String.append "mismatch:subfs-" (op_name o)]
  | _, _, _ => ["mismatch:observation-count"]
  end.

Inductive target := TMem | TTar | TDir | TSubMem | TSubTar.
Record fs_case := { c_target : target; c_ops : list op; c_obs : list out; c_root : path; c_via : list bool }.

Definition check_case (c : fs_case) : list string :=
  dedup (match c_target c with
         | TMem => check_steps MemFS init_st (c_ops c) (c_obs c)
         | TTar => check_steps TarFS init_st (c_ops c) (c_obs c)
         | TDir => check_dir_steps init_st (c_ops c) (c_obs c) ++ check_dirm_steps dinit (c_ops c) (c_obs c)
         | TSubMem => check_sub_steps MemFS (c_root c) init_st (c_ops c) (c_via c) (c_obs c)
         | TSubTar => check_sub_steps TarFS (c_root c) init_st (c_ops c) (c_via c) (c_obs c)
         end).

(* how many steps of a case lie inside the envelope (evidence only) *)
Fixpoint in_envelope_steps (b : backend) (s : st) (ops : list op) : nat :=
  match ops with
  | [] => 0
  | o :: ops' => (if E b s o then 1 else 0) + in_envelope_steps b (fst (model_step b s o)) ops'
  end.

(* debugging aid: the first step at which a case leaves the reference / the
   model, with what they answered *)
Fixpoint first_div_dir (s : st) (ops : list op) (obs : list out) (i : nat) : option (nat * out) :=
  match ops, obs with
  | o :: ops', r :: obs' =>
      let '(s1, sr) := spec_step s o in
      if out_match sr r then first_div_dir s1 ops' obs' (S i) else Some (i, sr)
  | _, _ => None
  end.
Fixpoint first_div_model (b : backend) (s : st) (ops : list op) (obs : list out) (i : nat) : option (nat * out) :=
  match ops, obs with
  | o :: ops', r :: obs' =>
      let '(s1, mr) := model_step b s o in
      if out_match mr r then first_div_model b s1 ops' obs' (S i) else Some (i, mr)
  | _, _ => None
  end.

Fixpoint first_div_dirm (d : dst) (ops : list op) (obs : list out) (i : nat) : option (nat * out) :=
  match ops, obs with
  | o :: ops', r :: obs' =>
      let '(d1, mr) := dirfs_step d o in
      if out_match mr r then first_div_dirm d1 ops' obs' (S i) else Some (i, mr)
  | _, _ => None
  end.

(* ---- the tar-entry channel of pkg/tarfs (Model/TarEntry.v) ---------------------------------------
   Sequences of FullFS operations and WriteHeader calls (regular files backed by a
   package's tar entry) on the real tarfs, the opener's files being the harness's.
   Every step is compared with the model [tstep] (mismatch:tarentry-<Op>).  The
   observed result and the state the model leaves are judged against the reference
   step on the PLAIN filesystem the state stands for ([flat]: an entry that is not
   loaded yet is the file's content).  A WriteHeader of a fresh name is judged as the
   reference's WriteFile of the entry's bytes; on an existing name it is package
   conflict handling (C07) and only compared with the model.
   Tag of the channel's own mechanism: tarfs-entry-readonly-handle-is-the-openers-file
   (a read-only handle of a not-yet-loaded file is the opener's file: no Seek, and it
   keeps reading the package's bytes after the file was written or truncated). *)
From Apko Require Export Model.TarEntry.

Definition top_name (o : top) : string :=
  match o with
  | TOp o => op_name o | TWriteHeader _ _ _ => "WriteHeader" | TWriteHeaderDir _ _ _ => "WriteHeaderDir"
  | TWriteHeaderSym _ _ _ => "WriteHeaderSym" | TWriteHeaderLink _ _ => "WriteHeaderLink"
  end.
Definition inst_ok (r : out) : out := match r with ONum 1%Z => OOk | x => x end.

Definition on_rc_handle (ts : tst) (o : op) : bool :=
  match o with
  | Read i _ | ReadAt i _ _ | Write i _ | Seek i _ _ | Close i =>
      match nlookup i (t_rc ts) with Some _ => true | None => false end
  | _ => false
  end.

(* a time the model says was set (Chtimes, a directory header's ModTime) must be observed: [out_match]
   alone lets an unset observed time pass (never-set times are not observed) *)
Definition time_kept (m o : out) : bool :=
  match m, o with OInfo _ _ _ _ _ (Some _), OInfo _ _ _ _ _ None => false | _, _ => true end.

Fixpoint check_tsteps (ts : tst) (ops : list top) (obs : list out) : list string :=
  match ops, obs with
  | [], [] => []
  | o :: ops', r :: obs' =>
      let '(ts1, mr) := tstep ts o in
      let s := flat ts in
      let vt :=
        match o with
        | TOp o' =>
            let '(s1', sr) := spec_step s o' in
            if out_match sr r && st_eqb (flat ts1) s1' then []
            else if on_rc_handle ts o' then ["viol:tarfs-entry-readonly-handle-is-the-openers-file"]
            else [String.append "viol:" (viol_tag TarFS s o' sr r)]
        | TWriteHeader p c perm =>
            match s_leaf (heap s) p with
            | inl (_, _, None) =>
                let '(s1', sr) := spec_step s (WriteFile p c perm) in
                let r' := match r with ONum 1%Z => OOk | x => x end in
                if out_match sr r' && st_eqb (flat ts1) s1' then []
                else [String.append "viol:" (viol_tag TarFS s (WriteFile p c perm) sr r')]
            | _ => []
            end
        | TWriteHeaderLink old new =>
            (* a hard link header is the reference's Link *)
            let '(s1', sr) := spec_step s (Link old new) in
            if out_match sr (inst_ok r) && st_eqb (flat ts1) s1' then []
            else [String.append "viol:" (viol_tag TarFS s (Link old new) sr (inst_ok r))]
        | TWriteHeaderSym p tgt _ =>
            (* a link header under a fresh name is the reference's Symlink; on an existing name: package
               conflict handling, compared with the model only *)
            match s_leaf (heap s) p with
            | inl (_, _, None) =>
                let '(s1', sr) := spec_step s (Symlink tgt p) in
                if out_match sr (inst_ok r) && st_eqb (flat ts1) s1' then []
                else [String.append "viol:" (viol_tag TarFS s (Symlink tgt p) sr (inst_ok r))]
            | _ => []
            end
        | TWriteHeaderDir p perm t =>
            (* a directory header is the reference's mkdir -p followed by its Chtimes *)
            let '(s1', sr) := spec_step s (MkdirAll p perm) in
            if is_failure sr then
              (if out_match sr r && st_eqb (flat ts1) s1' then [] else [String.append "viol:" (viol_tag TarFS s (MkdirAll p perm) sr r)])
            else
              let '(s2', sr2) := spec_step s1' (Chtimes p t) in
              if out_match sr2 (inst_ok r) && st_eqb (flat ts1) s2' then []
              else if negb (st_eqb (fst (model_step TarFS s (MkdirAll p perm))) s1' &&
                            out_match sr (snd (model_step TarFS s (MkdirAll p perm))))
                   then [String.append "viol:" (viol_tag TarFS s (MkdirAll p perm) sr (inst_ok r))]
                   else [String.append "viol:" (viol_tag TarFS s1' (Chtimes p t) sr2 (inst_ok r))]
        end in
      if out_match mr r && time_kept mr r then vt ++ check_tsteps ts1 ops' obs'
      else vt ++ [String.append "mismatch:tarentry-" (top_name o)]
  | _, _ => ["mismatch:observation-count"]
  end.

Record t_case := { tc_ops : list top; tc_obs : list out }.
Definition check_tar_case (c : t_case) : list string := dedup (check_tsteps tinit (tc_ops c) (tc_obs c)).

Fixpoint first_div_tar (ts : tst) (ops : list top) (obs : list out) (i : nat) : option (nat * out) :=
  match ops, obs with
  | o :: ops', r :: obs' =>
      let '(ts1, mr) := tstep ts o in
      if out_match mr r then first_div_tar ts1 ops' obs' (S i) else Some (i, mr)
  | _, _ => None
  end.
