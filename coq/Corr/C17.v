(* C17 correspondence: operation sequences run on the real filesystems by
   harness/cmd/c17, replayed through the model (mismatch:...) and judged step
   by step against the reference (viol:<corner>). *)
From Apko Require Export Base.Prelude Model.MemFS Spec.FsSpec.
Open Scope string_scope. Open Scope list_scope.

Definition mtime_match (a b : option Z) : bool :=
  match a, b with Some x, Some y => Z.eqb x y | _, _ => true end.   (* never-set times are not observed *)

Definition out_match (e o : out) : bool :=
  match e, o with
  | OOk, OOk | OPanic, OPanic => true
  | OErr a, OErr b => eclass_eqb a b
  | OBytes a, OBytes b => list_eqb N.eqb a b
  | ONum a, ONum b => Z.eqb a b
  | OPath a, OPath b => path_eqb a b
  | OInfo k p sz u g t, OInfo k' p' sz' u' g' t' =>
      kind_eqb k k' && N.eqb p p' && (match k with KReg => N.eqb sz sz' | _ => true end) &&
      Z.eqb u u' && Z.eqb g g' && mtime_match t t'
  | ODir a, ODir b => list_eqb (pair_eqb String.eqb kind_eqb) a b
  | OXattrs a, OXattrs b => list_eqb (pair_eqb String.eqb (list_eqb N.eqb)) a b
  | _, _ => false
  end.

Definition op_name (o : op) : string :=
  match o with
  | Mkdir _ _ => "Mkdir" | MkdirAll _ _ => "MkdirAll" | OpenFile _ _ _ => "OpenFile" | Create _ => "Create"
  | Read _ _ => "Read" | ReadAt _ _ _ => "ReadAt" | Write _ _ => "Write" | Seek _ _ _ => "Seek" | Close _ => "Close"
  | ReadFile _ => "ReadFile" | WriteFile _ _ _ => "WriteFile" | ReadDir _ => "ReadDir" | Stat _ => "Stat"
  | Lstat _ => "Lstat" | Symlink _ _ => "Symlink" | Link _ _ => "Link" | Readlink _ => "Readlink"
  | Remove _ => "Remove" | Chmod _ _ => "Chmod" | Chown _ _ _ => "Chown" | Chtimes _ _ => "Chtimes"
  | Mknod _ _ _ => "Mknod" | Readnod _ => "Readnod" | SetXattr _ _ _ => "SetXattr" | GetXattr _ _ => "GetXattr"
  | RemoveXattr _ _ => "RemoveXattr" | ListXattrs _ => "ListXattrs"
  end.

Definition corner_tag (b : backend) (s : st) (o : op) : string :=
  match corner b s o with Some t => t | None => "diverges-inside-envelope" end.

(* in-memory backends: every step compared with the model (from the model's
   state, which is the implementation's as long as they agree) and with the
   reference step from that same state *)
Fixpoint check_steps (b : backend) (s : st) (ops : list op) (obs : list out) : list string :=
  match ops, obs with
  | [], [] => []
  | o :: ops', r :: obs' =>
      let '(s1, mr) := model_step b s o in
      let '(_, sr) := spec_step s o in
      let vt := if out_match sr r then [] else [String.append "viol:" (corner_tag b s o)] in
      if out_match mr r then vt ++ check_steps b s1 ops' obs'
      else vt ++ [String.append "mismatch:" (op_name o)]
  | _, _ => ["mismatch:observation-count"]
  end.

(* directory-backed filesystem: no model of the host kernel; the observations
   are validated against the reference for as long as they agree with it *)
Fixpoint check_dir_steps (s : st) (ops : list op) (obs : list out) : list string :=
  match ops, obs with
  | [], [] => []
  | o :: ops', r :: obs' =>
      let '(s1, sr) := spec_step s o in
      if out_match sr r then check_dir_steps s1 ops' obs'
      else [String.append "viol:dirfs/" (corner_tag MemFS s o)]
  | _, _ => ["mismatch:observation-count"]
  end.

Fixpoint dedup (l : list string) : list string :=
  match l with
  | [] => []
  | x :: l' => if str_in x l' then dedup l' else x :: dedup l'
  end.

Inductive target := TMem | TTar | TDir.
Record fs_case := { c_target : target; c_ops : list op; c_obs : list out }.

Definition check_case (c : fs_case) : list string :=
  dedup (match c_target c with
         | TMem => check_steps MemFS init_st (c_ops c) (c_obs c)
         | TTar => check_steps TarFS init_st (c_ops c) (c_obs c)
         | TDir => check_dir_steps init_st (c_ops c) (c_obs c)
         end).

(* how many steps of a case lie inside the envelope (evidence only) *)
Fixpoint in_envelope_steps (b : backend) (s : st) (ops : list op) : nat :=
  match ops with
  | [] => 0
  | o :: ops' => (if E b s o then 1 else 0) + in_envelope_steps b (fst (model_step b s o)) ops'
  end.
