(* C18 correspondence: observations of the real path functions, the real
   in-memory trees and the canary-tree experiments, compared with the model and
   judged by the validators.  "mismatch:" = model and implementation differ;
   "viol:" = the implementation's observed behaviour breaks confinement. *)
From Apko Require Export Base.Prelude Base.C18Path Generated.C18 Spec.ConfineSpec Model.Confine Model.ConfineHost Model.ConfineTemp.
Open Scope string_scope. Open Scope list_scope.

Definition str_eqs (m : str) (obs : string) : bool := str_eqb m (la obs).
Definition ostr_eqs (m : option str) (obs : option string) : bool :=
  match m, obs with
  | None, None => true
  | Some a, Some b => str_eqs a b
  | _, _ => false
  end.

Inductive lkind := KFile | KLink | KDir | KNotExist | KOther.
Definition lkind_eqb (a b : lkind) : bool :=
  match a, b with
  | KFile, KFile | KLink, KLink | KDir, KDir | KNotExist, KNotExist | KOther, KOther => true
  | _, _ => false
  end.

(* tree printed by the harness from the real filesystem *)
Inductive tnode := TFile | TLink (target : string) | TDir (children : list (string * tnode)).
Fixpoint to_node (t : tnode) : node :=
  match t with
  | TFile => NFile
  | TLink s => NLink (la s)
  | TDir ch => NDir (map (fun p => (la (fst p), to_node (snd p))) ch)
  end.

Inductive pcase :=
| PClean (s out : string)
| PJoin (l : list string) (out : string)
| PBase (s out : string)
| PDir (s out : string)
| PExt (s out : string)
| PAbs (cwd s out : string)
| PRel (b t : string) (out : option string)
| PSanitize (base p : string) (out : option string)
| PSanitizeArchive (d t : string) (out : option string)
| PEtag (hdr : option (list string)) (out : option string)
| PEtagFile (cwd cacheFile etag : string) (out : option string)
| PCacheDirFromFile (cacheFile out : string)
| PQEscape (s out : string)
| PCachePath (root ustr path : string) (simple : option (string * string)) (out : option string)
| PCacheDirPkg (root ustr path : string) (out : option string)
| PKeyPath (element : string) (out : option string)
| PKeyName (k : string) (rejected : bool)
| PHexOk (s : string) (ok : bool)                       (* hex.DecodeString succeeds *)
| PCacheMember (cacheDir datahash dat tarf : string)    (* the two names cachedPackage builds; the suffixes in the
                                                           harness are literals, the model's come from the source *)
| PLookup (which : string) (tree : tnode) (path : string) (obs : lkind)
| PUnescape (s : string) (out : option string)            (* url.PathUnescape *)
| PAlpineKey (u : string) (out : option string)           (* the file name fetchAlpineKeys builds for a key URL *)
| PTempName (pattern : string) (name : option string)     (* os.CreateTemp(dir, pattern): the base name made *)
| PExpand (cacheDir : string) (created : list string)     (* expandapk.ExpandApk(_, cacheDir): everything that appeared *)
| PCacheNames (cacheDir ctlhex dathex : string) (signed : bool) (present : list string).
      (* after InstallPackages through a disk cache: the entries of the package's cache directory *)

Definition all_in (alpha : str) (s : str) : bool := forallb (fun c => existsb (Ascii.eqb c) alpha) s.

Definition lres_kind (r : lres) : lkind :=
  match r with
  | LOk NFile => KFile
  | LOk (NLink _) => KLink
  | LOk (NDir _) => KDir
  | LNotExist => KNotExist
  | _ => KOther
  end.

(* [name] is prefix ++ digits ++ suffix for the pattern's prefix and suffix *)
Definition temp_name_matches (pattern name : str) : bool :=
  if existsb is_sl pattern then false
  else
    let '(pre, suf) := match last_star pattern with Some ps => ps | None => (pattern, []) end in
    has_prefix name pre && has_suffix name suf &&
    Nat.leb (List.length pre + List.length suf) (List.length name) &&
    digits_ok (firstn (List.length name - List.length pre - List.length suf) (skipn (List.length pre) name)).

(* a stream file or the tar of one: <base>-<digits>.<ext> / the same without the trimmed suffix *)
Definition stream_name_matches (f : str) : bool :=
  let pre := la expand_stream_base ++ la "-" in
  let ok (suf : str) :=
    has_prefix f pre && has_suffix f suf && Nat.leb (List.length pre + List.length suf) (List.length f) &&
    digits_ok (firstn (List.length f - List.length pre - List.length suf) (skipn (List.length pre) f)) in
  ok (la "." ++ la expand_stream_ext) || ok (la "." ++ trim_suffix (la expand_stream_ext) (la expand_tar_trim)).

(* a path ExpandApk may create in [cacheDir] according to the model: the temporary
   directory, or a stream file / tar directly in it *)
Definition expand_path_ok (cacheDir p : str) : bool :=
  Bool.eqb (is_abs cacheDir) (is_abs p) &&
  match skipn (List.length (cc cacheDir)) (cc p) with
  | [n] => cprefixb (cc cacheDir) (cc p) && temp_name_matches (la expand_tmpdir_pattern) n
  | [n; f] => cprefixb (cc cacheDir) (cc p) && temp_name_matches (la expand_tmpdir_pattern) n && stream_name_matches f
  | _ => false
  end.

Definition check_path (c : pcase) : list string :=
  match c with
  | PClean s out => tag_if (negb (str_eqs (clean (la s)) out)) "mismatch:clean"
  | PJoin l out => tag_if (negb (str_eqs (join (map la l)) out)) "mismatch:join"
  | PBase s out => tag_if (negb (str_eqs (base (la s)) out)) "mismatch:base"
  | PDir s out => tag_if (negb (str_eqs (dir (la s)) out)) "mismatch:dir"
  | PExt s out => tag_if (negb (str_eqs (ext (la s)) out)) "mismatch:ext"
  | PAbs cwd s out => tag_if (negb (str_eqs (abs (la cwd) (la s)) out)) "mismatch:abs"
  | PRel b t out => tag_if (negb (ostr_eqs (rel_string (la b) (la t)) out)) "mismatch:rel"
  | PSanitize b p out =>
      tag_if (negb (ostr_eqs (sanitize_path (la b) (la p)) out)) "mismatch:sanitize-path" ++
      match out with
      | Some v => tag_if (negb (underb (la b) (la v))) "viol:sanitize-sibling-prefix"
      | None => []
      end
  | PSanitizeArchive d t out =>
      tag_if (negb (ostr_eqs (sanitize_archive_path (la d) (la t)) out)) "mismatch:sanitize-archive-path" ++
      match out with
      | Some v => tag_if (negb (underb (la d) (la v))) "viol:sanitize-sibling-prefix"
      | None => []
      end
  | PEtag hdr out =>
      tag_if (negb (ostr_eqs (etag_from_response (option_map (map la) hdr)) out)) "mismatch:etag-from-response" ++
      match out with
      | Some e => tag_if (negb (all_in (la etag_alphabet ++ la etag_pad) (la e) && negb (str_eqs [] e)))
                    "viol:etag-not-a-single-component"
      | None => []
      end
  | PEtagFile cwd f e out =>
      tag_if (negb (ostr_eqs (cache_file_from_etag (la cwd) (la f) (la e)) out)) "mismatch:cache-file-from-etag" ++
      match out with
      (* only names over the encoding's alphabet ever reach this function *)
      | Some p => if all_in (la etag_alphabet ++ la etag_pad) (la e)
                  then tag_if (negb (underb (fst (etag_dir_ext (la f))) (la p))) "viol:etag-file-escapes-its-directory"
                  else []
      | None => []
      end
  | PCacheDirFromFile f out =>
      tag_if (negb (str_eqs (cache_dir_from_file (la f)) out)) "mismatch:cache-dir-from-file"
  | PQEscape s out => tag_if (negb (str_eqs (qescape (la s)) out)) "mismatch:query-escape"
  | PCachePath root ustr path simple out =>
      tag_if (negb (ostr_eqs (cache_path_from_url (la root) (la ustr) (la path)) out)) "mismatch:cache-path-from-url" ++
      match simple with
      | Some (scheme, host) =>
          tag_if (negb (str_eqs (simple_url_string (la scheme) (la host) (url_repo_dir (la path))) ustr))
            "mismatch:url-string"
      | None => []
      end ++
      (* the callers only produce URLs whose path is absolute or empty *)
      match out with
      | Some p => if is_abs (la path) || str_eqs [] path
                  then tag_if (negb (underb (la root) (la p))) "viol:cache-path-escapes-root"
                  else []
      | None => []
      end
  | PCacheDirPkg root ustr path out =>
      tag_if (negb (ostr_eqs (cache_dir_for_package (la root) (la ustr) (la path)) out)) "mismatch:cache-dir-for-package" ++
      match out with
      | Some p => if is_abs (la path) || str_eqs [] path
                  then tag_if (negb (underb (la root) (la p))) "viol:cache-path-escapes-root"
                  else []
      | None => []
      end
  | PKeyPath element out =>
      match out with
      | Some p => tag_if (negb (str_eqs (key_path (la element)) p)) "mismatch:key-path" ++
                  tag_if (negb (underb (la "etc/apk") (la p))) "viol:key-file-escapes-keyring"
      | None => []   (* the fetch or the write failed; nothing was stored *)
      end
  | PKeyName k rejected => tag_if (negb (Bool.eqb (negb (keyname_ok (la k))) rejected)) "mismatch:keyname-check"
  | PHexOk s ok => tag_if (negb (Bool.eqb (hex_ok (la s)) ok)) "mismatch:hex-decodes"
  | PCacheMember d h dat tarf =>
      tag_if (negb (str_eqs (cache_member_path (la d) (la h)) dat)) "mismatch:cache-member-path" ++
      tag_if (negb (str_eqs (cache_member_tar (la d) (la h)) tarf)) "mismatch:cache-member-tar" ++
      (if is_abs (la d) && hex_ok (la h)
       then tag_if (negb (underb (la d) (la dat) && underb (la d) (la tarf))) "viol:cache-member-escapes-cache-dir"
       else [])
  | PLookup which t path obs =>
      let ml := if String.eqb which "tarfs" then tarfs_max_links else memfs_max_links in
      let r := get_node (S (S ml)) ml (to_node t) (la path) 0 in
      tag_if (negb (lkind_eqb (lres_kind r) obs)) "mismatch:tree-lookup" ++
      (* the place-returning lookup of the operational model finds something exactly when this one does *)
      tag_if (negb (Bool.eqb (match get_pos (S (S ml)) ml (to_node t) (la path) 0 with Some _ => true | None => false end)
                             (match r with LOk _ => true | _ => false end))) "mismatch:tree-lookup-place"
  | PUnescape x out => tag_if (negb (ostr_eqs (path_unescape (la x)) out)) "mismatch:path-unescape"
  | PAlpineKey u out => tag_if (negb (ostr_eqs (alpine_key_file (la u)) out)) "mismatch:alpine-key-file"
  | PTempName pattern name =>
      match name with
      | Some n => tag_if (negb (temp_name_matches (la pattern) (la n))) "mismatch:temp-name"
      | None => tag_if (negb (existsb is_sl (la pattern))) "mismatch:temp-name-refused"
      end
  | PCacheNames d ctl dat signed present =>
      let dsts := cache_package_dsts (la d) (la ctl) (la dat) in
      let want := if signed then dsts else tl dsts in
      let pres := map (fun x => clean (la x)) present in
      (* every advertised name of the model is there ... *)
      tag_if (negb (forallb (fun x => existsb (str_eqb x) pres) want)) "mismatch:cache-package-names-missing" ++
      (* ... and everything there is one of them or ExpandApk's temporary directory *)
      tag_if (negb (forallb (fun x => existsb (str_eqb x) dsts ||
                                      match skipn (List.length (cc (la d))) (cc x) with
                                      | [n] => cprefixb (cc (la d)) (cc x) && temp_name_matches (la expand_tmpdir_pattern) n
                                      | _ => false end) pres)) "mismatch:cache-package-names-extra" ++
      tag_if (negb (forallb (fun x => underb (la d) x) pres)) "viol:cache-package-escapes-cache-dir"
  | PExpand d created =>
      tag_if (negb (forallb (fun p => expand_path_ok (la d) (la p)) created)) "mismatch:expand-creates" ++
      tag_if (negb (forallb (fun p => underb (la d) (la p)) created)) "viol:expand-escapes-cache-dir"
  end.

(* ---- canary tree: operations on the directory-backed filesystem -------------- *)

Inductive dop :=
| OWriteFile (name : string)
| OMkdirAll (name : string)
| OMkdir (name : string)
| OCreate (name : string)          (* Create / OpenFile(O_CREATE): the in-memory tree is consulted first *)
| OSymlink (target name : string)
| OLink (oldname newname : string)
| ORemove (name : string)
| OChmod (name : string)           (* Chmod / Chown / Chtimes *)
| OMknod (name : string).

Record kcase := {
  k_base : string;            (* the target root, "/T/root" *)
  k_roots : list string;      (* the designated directories *)
  k_ops : list dop;
  k_exact : bool;             (* names were built so that every parent exists *)
  k_changed : list string     (* what the snapshot diff shows outside the designated directories *)
}.

Definition op_name (o : dop) : string :=
  match o with
  | OWriteFile n | OMkdirAll n | OMkdir n | OCreate n | ORemove n | OChmod n | OMknod n => n
  | OSymlink _ n => n
  | OLink _ n => n
  end.

(* methods that hand the joined path to the os package before the in-memory tree
   has had a chance to refuse the name (used for the "predicted escape must be
   observed" test of exact cases: every one of these creates or changes its
   target whenever the parent exists) *)
Definition disk_first (o : dop) : bool :=
  match o with
  | OWriteFile _ | OMkdirAll _ | OMkdir _ | OSymlink _ _ | OChmod _ | OMknod _ => true
  | _ => false
  end.

(* every method but Create / OpenFile(O_CREATE) / Remove calls the os package
   first (Link: for its NEW name; the old name is tested) — Proofs/ConfineDirFS.v,
   [host_first], proves this order of the operational model of dirFS *)
Definition host_first (o : dop) : bool :=
  match o with
  | OCreate _ | ORemove _ => false
  | _ => true
  end.

Definition lex_path (b : str) (o : dop) : str := dirfs_host_path b (la (op_name o)).

Definition links_of (b : str) (ops : list dop) : list (str * str) :=
  flat_map (fun o => match o with
                     | OSymlink t n => [(dirfs_host_path b (la n), la t)]
                     | _ => [] end) ops.

Definition related (t x : str) : bool := underb t x || underb x t.

(* the components memFS.MkdirAll enters as child names: all but "" and "." —
   ".." is an ordinary name there *)
Definition lit_comps (s : str) : list str := filter (fun c => negb (is_skip c)) (split s).

(* Create / OpenFile(O_CREATE) / Remove ask the in-memory tree first: the name is
   accepted only if the tree holds the literal parent chain filepath.Dir(name).
   For a name that leaves the base that chain starts with a child literally
   named "..", which only an earlier MkdirAll can have entered (its host call,
   os.MkdirAll on directories that exist, succeeds and the tree then enters
   every component).  Through a symbolic link made earlier the chain is the
   link's; then any earlier MkdirAll with a ".." component may have provided it. *)
Definition enabled (earlier : list dop) (o : dop) : bool :=
  let parent := lit_comps (dir (la (op_name o))) in
  match parent with
  | [] => true
  | _ =>
    existsb (fun m => match m with OMkdirAll n => cprefixb parent (lit_comps (la n)) | _ => false end) earlier ||
    (existsb (fun m => match m with OSymlink _ l => cprefixb (lit_comps (la l)) parent | _ => false end) earlier &&
     existsb (fun m => match m with OMkdirAll n => existsb is_dd (lit_comps (la n)) | _ => false end) earlier)
  end.

(* each operation with "the host is reached by this call on the unchanged code" *)
Fixpoint annotate (earlier ops : list dop) : list (dop * bool) :=
  match ops with
  | [] => []
  | o :: t => (o, host_first o || enabled earlier o) :: annotate (earlier ++ [o]) t
  end.

Definition explain (b : str) (ops : list dop) (x : str) : string :=
  let links := links_of b ops in
  let ann := annotate [] ops in
  let lexesc (o : dop) := negb (underb b (lex_path b o)) && related (resolve 4 links (lex_path b o)) x in
  let linkesc (o : dop) := underb b (lex_path b o) &&
                           negb (str_eqb (resolve 4 links (lex_path b o)) (lex_path b o)) &&
                           related (resolve 4 links (lex_path b o)) x in
  if existsb (fun a => snd a && lexesc (fst a)) ann
  then "viol:dirfs-unchecked-path"
  else if existsb (fun o => match o with
                            | OLink old _ =>
                                (* the hard-link source lies outside the base and is the changed file *)
                                let t := clean (join [b; la old]) in
                                negb (underb b t) && str_eqb t (clean x)
                            | _ => false end) ops
  then "viol:dirfs-link-sibling-prefix"
  else if existsb (fun a => snd a && linkesc (fst a)) ann
  then "viol:dirfs-follows-host-symlink"
  else if existsb (fun a => negb (snd a) && (lexesc (fst a) || linkesc (fst a))) ann
  (* a name the in-memory tree refuses on the unchanged code reached the host *)
  then "viol:tree-checked-name-escapes"
  else "viol:escape-unexplained".

Fixpoint dedup (l : list string) : list string :=
  match l with
  | [] => []
  | x :: t => if existsb (String.eqb x) t then dedup t else x :: dedup t
  end.

Definition check_canary (c : kcase) : list string :=
  let b := la (k_base c) in
  let roots := map la (k_roots c) in
  let esc := escapes roots (map la (k_changed c)) in
  dedup (map (explain b (k_ops c)) esc) ++
  (if k_exact c then
     tag_if (existsb (fun o => disk_first o && negb (underb b (lex_path b o)) &&
                               negb (existsb (fun x => str_eqb (clean (lex_path b o)) (clean (la x))) (k_changed c)))
               (k_ops c))
       "mismatch:model-escape-not-observed"
   else []).

(* ---- canary tree: InitKeyring on the directory-backed filesystem ----------------- *)

Record ycase := {
  y_base : string; y_roots : list string;
  y_element : string;         (* the key location (URL or local path) *)
  y_changed : list string
}.

(* the model's operations: MkdirAll(etc/apk/keys), WriteFile(key_path element);
   by c18_key_basename that path never leaves etc/apk, so nothing outside the
   designated directories may change *)
Definition check_keyring (c : ycase) : list string :=
  let roots := map la (y_roots c) in
  match escapes roots (map la (y_changed c)) with
  | [] => []
  | _ => ["viol:key-file-escapes-root"]
  end.

(* ---- canary tree: cachedPackage and the .PKGINFO datahash ------------------------ *)

Record mcase := {
  m_cachedir : string;        (* the package's cache directory (cacheDirForPackage) *)
  m_roots : list string;
  m_datahash : string;        (* the datahash line of the cached control section *)
  m_dat_exists : bool;        (* a file exists at cache_member_path before the call *)
  m_tar_created : bool;       (* ... and the uncompressed tar next to it exists afterwards *)
  m_fresh : option (string * bool);  (* a fresh fetch of the package: the data section's hex sha256, and
                                        whether verifyExpanded let the datahash pass *)
  m_changed : list string
}.

Definition check_member (c : mcase) : list string :=
  let roots := map la (m_roots c) in
  tag_if (negb (Bool.eqb (cached_rebuilds (la (m_datahash c)) (m_dat_exists c)) (m_tar_created c)))
    "mismatch:cached-package-rebuild" ++
  match m_fresh c with
  | Some (got, accepted) =>
      tag_if (negb (Bool.eqb (verify_datahash_accepts [la (m_datahash c)] (la got)) accepted)) "mismatch:verify-datahash"
  | None => []
  end ++
  match escapes roots (map la (m_changed c)) with
  | [] => []
  | _ => ["viol:cache-member-escapes-cache-dir"]
  end.

(* ---- canary tree: the cache functions driven through the public API ----------- *)

Record ccase := {
  q_root : string;            (* the cache directory, "/T/cache" *)
  q_roots : list string;
  q_ustr : string; q_path : string;       (* as in PCachePath *)
  q_etag : option (list string);          (* the ETag header the server sent *)
  q_changed : list string
}.

(* where the cache transport works for this request, computed lexically and
   independently of the containment test: Dir of the ETag file of the joined path *)
Definition cache_work_file (root ustr path : str) : str :=
  clean (join [root; qescape ustr; base (dir path); base path]).

Definition check_cache (c : ccase) : list string :=
  let roots := map la (q_roots c) in
  let esc := escapes roots (map la (q_changed c)) in
  match esc with
  | [] => []
  | _ =>
    let f := cache_work_file (la (q_root c)) (la (q_ustr c)) (la (q_path c)) in
    match etag_from_response (option_map (map la) (q_etag c)) with
    | Some e =>
        match cache_file_from_etag (la "/") f e with
        | Some g =>
            if forallb (fun x => str_eqb (dir x) (dir g)) esc
            then (if str_eqb f (clean (la (q_root c))) then ["viol:cache-path-is-root"] else ["viol:cache-escape-unexplained"])
            else ["viol:cache-escape-unexplained"]
        | None => ["viol:cache-escape-unexplained"]
        end
    | None => ["viol:cache-escape-unexplained"]
    end
  end.

(* ---- canary tree: dirFS on a host with a parent directory (Model/ConfineHost.v) -------

   The host tree is printed before the experiment; the model runs the same
   operations on it (overlay and kernel resolution) and must give the same
   answers and the same changed places.  An observed escape the model also
   produces is one of the recorded findings, named by its mechanism; one it does
   not produce is a violation. *)

Record hcase := {
  hc_base : string; hc_roots : list string;
  hc_tree : tnode;                   (* the directory abstractly called /O, before *)
  hc_stop : bool;                    (* package entries: the installer gives up at the first error *)
  hc_ops : list dop;
  hc_answers : option (list bool);   (* direct operations: err == nil of each *)
  hc_view : option tnode;            (* the fresh DirFS's own picture of the root before the operations: ReadDir
                                        (entry types from the overlay) and Readlink, recursively *)
  hc_changed : list string           (* the snapshot diff: every place that changed *)
}.

Definition to_hop (o : dop) : hop :=
  match o with
  | OWriteFile n => HWriteFile (la n) | OMkdirAll n => HMkdirAll (la n) | OMkdir n => HMkdir (la n)
  | OCreate n => HCreate (la n) | OSymlink t n => HSymlink (la t) (la n) | OLink a n => HLink (la a) (la n)
  | ORemove n => HRemove (la n) | OChmod n => HChmod (la n) | OMknod n => HMknod (la n)
  end.

Definition tree_first_h (o : hop) : bool := match o with HCreate _ | HRemove _ => true | _ => false end.

(* one row per executed operation: the operation, the model's answer, the places
   the host call touched, and — for a tree-checked method the overlay refused —
   the places the host call WOULD have touched *)
Fixpoint hrun (b : str) (stop : bool) (s : xst) (ops : list hop) : list (hop * bool * list pos * list pos) :=
  match ops with
  | [] => []
  | o :: r =>
      let '(s1, ok, t) := xstep b s o in
      let hyp := match o with
                 | HCreate n => snd (h_write (x_host s) (hpath b n))
                 | HRemove n => snd (h_remove (x_host s) (hpath b n))
                 | _ => []
                 end in
      (o, ok, t, if ok then [] else hyp) :: (if stop && negb ok then [] else hrun b stop s1 r)
  end.

Fixpoint hfinal (b : str) (stop : bool) (s : xst) (ops : list hop) : xst :=
  match ops with
  | [] => s
  | o :: r => let '(s1, ok, _) := xstep b s o in if stop && negb ok then s1 else hfinal b stop s1 r
  end.

Definition pos_str (q : pos) : str := render true q.

(* the call's own path, filepath.Join(base, name), already leaves the base *)
Definition lex_outside (b : str) (o : hop) : bool :=
  let n := match o with
           | HWriteFile n | HMkdirAll n | HMkdir n | HCreate n | HRemove n | HChmod n | HMknod n => n
           | HSymlink _ n => n | HLink _ n => n end in
  negb (cprefixb (cc b) (hpath b n)).

Definition mech (b : str) (o : hop) : string :=
  if lex_outside b o then "viol:dirfs-unchecked-path"
  else if tree_first_h o then "viol:overlay-resolves-links-unlike-kernel"
  else "viol:dirfs-follows-host-symlink".

Fixpoint node_eqb (a b : node) {struct a} : bool :=
  match a, b with
  | NFile, NFile => true
  | NLink x, NLink y => str_eqb x y
  | NDir ca, NDir cb =>
      (fix go (la0 lb0 : list (str * node)) {struct la0} : bool :=
         match la0, lb0 with
         | [], [] => true
         | ka :: ra, kb :: rb => str_eqb (fst ka) (fst kb) && node_eqb (snd ka) (snd kb) && go ra rb
         | _, _ => false
         end) ca cb
  | _, _ => false
  end.

Definition bool_list_eqb (a b : list bool) : bool :=
  Nat.eqb (List.length a) (List.length b) && forallb (fun p => Bool.eqb (fst p) (snd p)) (combine a b).

Definition absent (t : node) (q : pos) : bool := match node_at t q with None => true | Some _ => false end.

Definition check_host (c : hcase) : list string :=
  let b := la (hc_base c) in
  let roots := map la (hc_roots c) in
  let h0 := NDir [(la "O", to_node (hc_tree c))] in
  let ops := map to_hop (hc_ops c) in
  let s0 := xinit b h0 in
  let rows := hrun b (hc_stop c) s0 ops in
  let hf := x_host (hfinal b (hc_stop c) s0 ops) in
  (* created and removed again: not a change *)
  let net (q : pos) := negb (absent h0 q && absent hf q) in
  let touched := flat_map (fun r => map (fun q => (fst (fst (fst r)), q)) (filter net (snd (fst r)))) rows in
  let pred_out := filter (fun oq => outside roots (pos_str (snd oq))) touched in
  let obs := map (fun x => clean (la x)) (hc_changed c) in
  let obs_out := escapes roots obs in
  (* a root that already had content: the overlay built by DirFS's walk must be its lstat image *)
  tag_if (match hc_view c with
          | Some v => negb (node_eqb (to_node v) (x_ov s0))
          | None => false end) "mismatch:overlay-mirror-differs" ++
  tag_if (match hc_answers c with
          | Some l => negb (bool_list_eqb l (map (fun r => snd (fst (fst r))) rows))
          | None => false end) "mismatch:dirfs-op-answer" ++
  dedup (map (fun x =>
                match filter (fun oq => str_eqb (pos_str (snd oq)) x) pred_out with
                | oq :: _ => mech b (fst oq)
                | [] =>
                    if existsb (fun r => existsb (fun q => str_eqb (pos_str q) x) (snd r)) rows
                    then "viol:tree-checked-name-escapes"
                    else "viol:escape-unexplained"
                end) obs_out) ++
  tag_if (existsb (fun oq => negb (existsb (str_eqb (pos_str (snd oq))) obs_out)) pred_out)
    "mismatch:host-model-escape-not-observed" ++
  (* direct operations: what changed below the base is the model's too *)
  match hc_answers c with
  | Some _ =>
      let pred_in := filter (fun x => underb b x) (map (fun oq => pos_str (snd oq)) touched) in
      let obs_in := filter (fun x => underb b x) obs in
      tag_if (negb (forallb (fun x => existsb (str_eqb x) obs_in) pred_in &&
                    forallb (fun x => existsb (str_eqb x) pred_in) obs_in))
        "mismatch:host-model-inside-differs"
  | None => []
  end.

(* the case-insensitive mode of dirFS (caseMap): the overlay is called exactly as in the
   other mode, the host only for the first spelling of a name — so the host calls are a
   SUBSET of the model's; every observed escape must still be one the model produces *)
Definition check_host_sub (c : hcase) : list string :=
  filter (fun t => negb (String.eqb t "mismatch:host-model-escape-not-observed") &&
                   negb (String.eqb t "mismatch:host-model-inside-differs") &&
                   negb (String.eqb t "mismatch:dirfs-op-answer"))
         (check_host c).
(* (the mirror comparison stays: mismatch:overlay-mirror-differs is not filtered) *)

Inductive c18case := CPath (c : pcase) | CCanary (c : kcase) | CCache (c : ccase) | CKeyring (c : ycase) | CMember (c : mcase)
                   | CHost (c : hcase) | CHostCI (c : hcase).
Definition check_c18 (c : c18case) : list string :=
  match c with
  | CPath p => check_path p | CCanary k => check_canary k | CCache q => check_cache q
  | CKeyring y => check_keyring y | CMember m => check_member m | CHost h => check_host h | CHostCI h => check_host_sub h
  end.
