(* C19 correspondence: listings of real cache directories judged by the
   verified validator, crash scenarios replayed on the model and compared with
   what the real builds left behind, system-call traces of real builds checked
   against the population protocols. *)
From Apko Require Export Base.Prelude Model.Cache Spec.CacheSpec Model.CacheFlight Spec.CacheFlightSpec.
From Apko Require Import Proofs.CacheFlightProofs Generated.C19Cache Model.CacheTimes.
Open Scope string_scope. Open Scope list_scope.

(* the order of cachePackage's AdvertiseCachedFile calls in the source of this run
   (control section first = the code today; last = with fixes/C19-F2.patch) *)
Definition code_ctl_last : bool := ctl_last_of_calls cache_package_calls.

(* ---- listings ---------------------------------------------------------------- *)
Record listing_case := { lc_tab : origin_table; lc_listing : listing }.
Definition check_listing (c : listing_case) : list string :=
  validate_listing (lc_tab c) (lc_listing c).

(* ---- crash scenarios ---------------------------------------------------------
   A scenario is a sequence of real build processes for ONE package sharing a
   cache directory; each may be killed at a hook point, which the harness
   translates to "after k atomic steps of phase X". *)
Inductive crash := NoCrash | CrashIdx (k : nat) | CrashPkg (k : nat) | CrashRebuild (k : nat).

Record bspec := {
  b_idir : string; b_etag : string;      (* index directory, etag the origin serves when the HEAD is answered *)
  b_etag_get : string;                   (* ... and when the GET is answered (differs if the repository is updated in between) *)
  b_pdir : string; b_apk : apk;          (* package directory and the package served now *)
  b_crash : crash;
  b_prune : bool                         (* before this build <datahash>.dat.tar was removed from the package's directory
                                            ("old caches without the uncompressed file": PackageData's rebuild) *)
}.

Definition origin_of (tab : origin_table) : path -> content :=
  fun n => match lookup_l tab n with Some c => c | None => ["?unknown"] end.

Fixpoint assoc_c (l : list (content * content)) (z : content) : content :=
  match l with
  | [] => ["?gunzip"]
  | (a, b) :: t => if content_eqb a z then b else assoc_c t z
  end.

Section Scenario.
Variable tab : origin_table.
Variable gz : list (content * content).     (* gunzip on the data sections involved *)
Variable dh : list (content * string).      (* control section -> the datahash it declares *)

Definition gunzip_m := assoc_c gz.
Fixpoint datahash_m_from (l : list (content * string)) (c : content) : string :=
  match l with [] => "?" | (a, h) :: t => if content_eqb a c then h else datahash_m_from t c end.
Definition datahash_m := datahash_m_from dh.

(* the origin while one process runs: its HEAD is the process's first step (time 0) *)
Definition srv_m (e_head e_get : string) : server :=
  fun t dir => let e := if Nat.eqb t 0 then e_head else e_get in (e, origin_of tab (PIndex dir e)).

Definition run_prog_srv (srv : server) (d : disk) (prog : list astep) (k : option nat) : disk :=
  let n := match k with Some k => k | None => 4 * List.length prog + 64 end in
  dsk (run gunzip_m srv {| dsk := d; procs := [prog]; clk := 0 |} (repeat 0 n)).
Definition run_prog := run_prog_srv (srv_m "" "").

(* one build process with temporary-name identities o (index) and o+1 (package);
   returns the disk and whether the process ran to the end *)
Definition model_build (d0 : disk) (o : nat) (b : bspec) : disk * bool :=
  let d := if b_prune b then upd d0 (PMember (b_pdir b) MTar (a_dath (b_apk b))) None else d0 in
  (* fetchAndCache: HEAD, Stat of the HEAD etag's name, GET, retrieveAndSaveFile; [CrashIdx k] counts
     the steps of retrieveAndSaveFile (the three before it touch nothing) *)
  let srv := srv_m (b_etag b) (b_etag_get b) in
  let idx := [Head o (b_idir b) false] in
  let '(d1, dead) :=
    match b_crash b, read_index d (b_idir b) (b_etag b) with
    | CrashIdx k, None => (run_prog_srv srv d idx (Some (3 + k)), true)
    | _, _ => (run_prog_srv srv d idx None, false)      (* a hit: the hook point is never reached *)
    end in
  if dead then (d1, false) else
  let a := b_apk b in
  match read_package datahash_m d1 (b_pdir b) (a_ctlh a) with
  | Hit _ => (d1, true)
  | NeedsRebuild =>
      match b_crash b with
      | CrashRebuild k => (run_prog d1 (open_tar (S o) (b_pdir b) (a_dath a)) (Some k), false)
      | _ => (run_prog d1 (open_tar (S o) (b_pdir b) (a_dath a)) None, true)
      end
  | Miss =>
      let prog := populate_package_ord code_ctl_last (S o) (b_pdir b) a in
      match b_crash b with
      | CrashPkg k => (run_prog d1 prog (Some k), false)
      | _ => (run_prog d1 prog None, true)
      end
  end.

Fixpoint model_builds (d : disk) (o : nat) (bs : list bspec) : disk * list bool :=
  match bs with
  | [] => (d, [])
  | b :: t => let (d1, ok) := model_build d o b in
              let (d2, oks) := model_builds d1 (o + 2) t in (d2, ok :: oks)
  end.
End Scenario.

(* what is compared: for every advertised name the origin knows, whether it is
   absent, a link (and to which content it resolves) or a regular file (and its
   content); temporary names are random and not compared *)
Inductive aview := VAbsent | VLink (c : option content) | VFile (c : content) | VOther.
Definition adv_view (d : disk) (n : path) : aview :=
  match d n with
  | None => VAbsent
  | Some (Link _) => VLink (match resolve d n with Some (c, _) => Some c | None => None end)
  | Some (File c _) => VFile c
  | Some Dir => VOther
  end.
Definition aview_eqb (a b : aview) : bool :=
  match a, b with
  | VAbsent, VAbsent | VOther, VOther => true
  | VLink x, VLink y => option_eqb content_eqb x y
  | VFile x, VFile y => content_eqb x y
  | _, _ => false
  end.

Record scenario_case := {
  sc_tab : origin_table;
  sc_gz : list (content * content);
  sc_dh : list (content * string);
  sc_builds : list bspec;
  sc_completed : list bool;       (* observed: did each real process run to the end? *)
  sc_observed : listing           (* observed: the cache directory afterwards *)
}.

Definition check_scenario (c : scenario_case) : list string :=
  let (dm, oks) := model_builds (sc_tab c) (sc_gz c) (sc_dh c) empty_disk 0 (sc_builds c) in
  let dobs := disk_of (sc_observed c) in
  validate_listing (sc_tab c) (sc_observed c) ++
  tag_if (negb (list_eqb Bool.eqb oks (sc_completed c))) "mismatch:model-and-real-build-differ-on-completion" ++
  tag_if (negb (List.forallb (fun e => aview_eqb (adv_view dm (fst e)) (adv_view dobs (fst e))) (sc_tab c)))
         "mismatch:advertised-names-differ-from-model".

(* ---- trace conformance --------------------------------------------------------- *)
(* what one process did in one cache directory: an index download that got the
   response (etag, origin's body) — HEAD, Stat and GET leave no file-system event
   that is compared —, a package population, or a reader's rebuild *)
Inductive tbuilder :=
| TIndex (dir etag : string)
| TPackage (dir : string) (a : apk)
| TReader (dir dath : string).
Definition tprog (origin : path -> content) (o : nat) (b : tbuilder) : list astep :=
  match b with
  | TIndex dir e => populate_index o dir e (origin (PIndex dir e))
  | TPackage dir a => prog_of_ord code_ctl_last o (BPackage dir a)
  | TReader dir dath => prog_of_ord code_ctl_last o (BReader dir dath)
  end.
Record trace_case := {
  tc_tab : origin_table;
  tc_owner : nat;
  tc_builder : tbuilder;
  tc_trace : list tev
}.
Definition check_trace (c : trace_case) : list string :=
  tag_if (negb (accepts (tprog (origin_of (tc_tab c)) (tc_owner c) (tc_builder c)) (tc_trace c)))
         "mismatch:trace-not-accepted-by-protocol".

(* ---- request coalescing ------------------------------------------------------------
   The object a case talks about, with the configuration the model runs it in: read from
   the SHAPE of the source on this run (goextract), never written down here. *)
Inductive fobj :=
| FFlight          (* flightCache.Do (through the real object, and the key-discovery instance of a Cache) *)
| FHeadEtag        (* cacheTransport.head with NewCache(true) *)
| FHeadNoEtag      (* cacheTransport.head with NewCache(false): Cache.load/store do nothing *)
| FGet             (* cacheTransport.get *)
| FApkOnce.        (* apkCache.get, observed through whole builds of one process *)

Definition etag_guards_ok : bool :=
  list_eqb String.eqb etag_cache_guards ["Cache.load:nil-etag-cache-returns"; "Cache.store:nil-etag-cache-returns"].

Definition conf_of_obj (o : fobj) : option fconf :=
  match o with
  | FFlight => conf_of_shape flight_do_shape
  | FHeadEtag => conf_of_shape head_shape
  | FHeadNoEtag =>
      (* without an etag cache nothing is looked up or stored: a bare group *)
      match conf_of_shape head_shape with
      | Some _ => if etag_guards_ok then Some conf_singleflight else None
      | None => None
      end
  | FGet => conf_of_shape get_shape
  | FApkOnce => conf_of_once_shape apk_cache_shape
  end.

(* the tag for "an error was handed out without executing fn again" names the site *)
Definition err_tag (o : fobj) : string :=
  match o with
  | FFlight => "viol:flight-cache-memoises-an-error"
  | FHeadEtag | FHeadNoEtag => "viol:head-error-memoised-for-the-process"
  | FGet => "viol:get-error-memoised-for-the-process"
  | FApkOnce => "viol:package-fetch-error-memoised-for-the-process"
  end.

Definition ocall_eqb (a b : ocall) : bool :=
  String.eqb (oc_key a) (oc_key b) && Bool.eqb (oc_exec a) (oc_exec b) && outcome_eqb (oc_res a) (oc_res b).

(* a sequence of calls made one after the other: scripted outcome of each execution of fn, and
   what was observed (was fn executed; what was returned) *)
Record flight_seq_case := { fs_obj : fobj; fs_calls : list (string * outcome); fs_observed : list ocall }.
Definition check_flight_seq (c : flight_seq_case) : list string :=
  validate_seq (err_tag (fs_obj c)) [] (fs_observed c) ++
  match conf_of_obj (fs_obj c) with
  | None => ["mismatch:coalescing-shape-not-recognised"]
  | Some cf => tag_if (negb (list_eqb ocall_eqb (model_seq cf (fs_calls c)) (fs_observed c)))
                      "mismatch:sequence-of-calls-differs-from-model"
  end.

(* n callers of one key arriving while the leader's execution is held; execution number i
   returns the value "v<i>".  Observed: how many executions there were, what each caller got. *)
Record flight_conc_case := { fc_obj : fobj; fc_key : string; fc_callers : nat;
                             fc_execs : list outcome;       (* what the executions returned, in order *)
                             fc_results : list outcome }.   (* what the callers were handed *)
Definition conc_trace (k : string) (n : nat) (o : outcome) : list fevent :=
  List.flat_map (fun c => [ELoad c k; EEnter c k]) (List.seq 0 n) ++ [EFinish k o].
Definition check_flight_conc (c : flight_conc_case) : list string :=
  (* transparency: every caller was handed the result of one of the executions *)
  tag_if (negb (List.forallb (fun r => List.existsb (outcome_eqb r) (fc_execs c)) (fc_results c)))
         "viol:call-returns-a-value-no-execution-produced" ++
  tag_if (negb (Nat.eqb (List.length (fc_results c)) (fc_callers c))) "viol:a-caller-got-no-result" ++
  match conf_of_obj (fc_obj c), fc_execs c with
  | None, _ => ["mismatch:coalescing-shape-not-recognised"]
  | Some cf, [o] =>
      (* all callers were coalesced into one execution: exactly the model's run *)
      let s := frun cf finit (conc_trace (fc_key c) (fc_callers c) o) in
      tag_if (negb (list_eqb outcome_eqb (List.map snd (rets s)) (fc_results c) && Nat.eqb (List.length (started s)) 1))
             "mismatch:coalesced-callers-differ-from-model"
  | Some _, _ => []     (* a caller arrived after the flight had ended (timing): only the validator applies *)
  end.

(* ---- fetchOffline -------------------------------------------------------------------- *)
(* a real directory (entries in os.ReadDir order, modification times ranked) and the entry the
   real fetchOffline opened for a request for [of_req] ("" = it returned an error) *)
Record offline_case := { of_req : string; of_entries : list dentry; of_picked : string }.
Fixpoint find_entry (n : string) (l : list dentry) : option dentry :=
  match l with [] => None | e :: t => if String.eqb (de_name e) n then Some e else find_entry n t end.
(* the choice the source of this run makes (advertised names only since fix c5d0145; all entries before) *)
Definition code_offline_pick : option (list dentry -> option dentry) := pick_of_filter offline_filter.
Definition check_offline (c : offline_case) : list string :=
  match code_offline_pick with None => ["mismatch:offline-filter-not-recognised"] | Some _ => [] end ++
  let m := match code_offline_pick with Some f => f (of_entries c) | None => None end in
  tag_if (negb (String.eqb (match m with Some e => de_name e | None => "" end) (of_picked c)))
         "mismatch:offline-pick-differs-from-model" ++
  match of_picked c, find_entry (of_picked c) (of_entries c) with
  | EmptyString, _ => []       (* an offline request may fail ("or fail with an error"); whether it should is the model's business *)
  | _, None => ["viol:offline-pick-not-newest"]
  | _, Some e => validate_offline (of_req c) (of_entries c) e
  end.

(* ---- file names of cached revisions --------------------------------------------------
   the real etagFromResponse + cacheFileFromEtag on a set of ETags for one cache file *)
Record names_case := { nc_index : bool; nc_items : list ename }.
Definition check_names (c : names_case) : list string :=
  validate_names (nc_items c) ++
  match etag_part etag_name_use with
  | None => ["mismatch:etag-name-use-not-recognised"]
  | Some part =>
      tag_if (negb (List.forallb (fun i => String.eqb (etag_file_base part etag_name_exts (nc_index c) (en_enc i)) (en_base i)) (nc_items c)))
             "mismatch:file-name-differs-from-model"
  end.

(* ---- modification times of the advertised index entries -------------------------------
   A sequence of build processes on one cache directory (each: HEAD answered with one etag, GET
   with one — the same unless the repository is updated in between); observed: the advertised
   names of APKINDEX/ in the order of their real modification times (os.Lstat).  The model runs
   the index downloads one after the other on one clock (build j owns the steps j*64 … j*64+63,
   its HEAD is the first of them) and orders the names by the times [trun] gives them. *)
Record times_case := { tc2_tab : origin_table; tc2_dir : string;
                       tc2_builds : list (string * string);      (* etag at the HEAD, etag at the GET *)
                       tc2_observed : list string }.             (* etags, oldest modification time first *)
Definition win := 64.
Definition srv_seq (tab : origin_table) (builds : list (string * string)) : server :=
  fun t dir => let b := nth (t / win) builds ("", "") in
               let e := if Nat.eqb (t mod win) 0 then fst b else snd b in (e, origin_of tab (PIndex dir e)).
Fixpoint insert_by (k : string * nat) (l : list (string * nat)) : list (string * nat) :=
  match l with
  | [] => [k]
  | h :: t => if Nat.leb (snd k) (snd h) then k :: l else h :: insert_by k t
  end.
Definition model_time_order (tab : origin_table) (dir : string) (builds : list (string * string)) : list string :=
  let n := List.length builds in
  let progs := List.map (fun j => [Head j dir false]) (List.seq 0 n) in
  let sched := List.flat_map (fun j => repeat j win) (List.seq 0 n) in
  let st := trun (fun z => z) (srv_seq tab builds) {| dsk := empty_disk; procs := progs; clk := 0 |} sched in
  let names := List.flat_map (fun e => match e with (PIndex d x, _) => if String.eqb d dir then [x] else [] | _ => [] end) tab in
  let timed := List.flat_map (fun x => match dsk (fst st) (PIndex dir x), snd st (PIndex dir x) with
                                       | Some _, Some k => [(x, k)] | _, _ => [] end) names in
  List.map fst (fold_right insert_by [] timed).
Definition check_times (c : times_case) : list string :=
  tag_if (negb (list_eqb String.eqb (model_time_order (tc2_tab c) (tc2_dir c) (tc2_builds c)) (tc2_observed c)))
         "mismatch:order-of-index-modification-times-differs-from-model".

(* ---- one case type for the generated files -------------------------------------- *)
Inductive c19_case :=
| CListing (c : listing_case)
| CScenario (c : scenario_case)
| CTrace (c : trace_case)
| CFlightSeq (c : flight_seq_case)
| CFlightConc (c : flight_conc_case)
| COffline (c : offline_case)
| CNames (c : names_case)
| CTimes (c : times_case).
Definition check_c19 (c : c19_case) : list string :=
  match c with
  | CListing c => check_listing c
  | CScenario c => check_scenario c
  | CTrace c => check_trace c
  | CFlightSeq c => check_flight_seq c
  | CFlightConc c => check_flight_conc c
  | COffline c => check_offline c
  | CNames c => check_names c
  | CTimes c => check_times c
  end.
