(* C20 correspondence: the harness's observations of the real
   rangeRetryReader, compared with the model and judged by the validator. *)
From Apko Require Export Base.Prelude Model.Transport Generated.Transport Spec.TransportSpec.
Open Scope string_scope. Open Scope list_scope.

(* same formula as genData in harness/cmd/c20 *)
Definition gen_byte (seed : N) (i : N) : N := ((i * 131 + seed * 17 + i / 251) mod 256)%N.
Fixpoint gen_from (seed i : N) (n : nat) : list N :=
  match n with O => [] | S n' => gen_byte seed i :: gen_from seed (N.succ i) n' end.
Definition gen_data (seed n : nat) : list N := gen_from (N.of_nat seed) 0%N n.

Definition err_eqb (a b : err) : bool :=
  match a, b with ENone, ENone | EEOF, EEOF | EFail, EFail => true | _, _ => false end.
Definition out_eqb (a b : list N * err) : bool :=
  list_eqb N.eqb (fst a) (fst b) && err_eqb (snd a) (snd b).

Record scripted_case := {
  c_kind : skind; c_seed : nat; c_len : nat;
  c_reads : list rd_ev; c_conns : list conn_ev; c_bufs : list nat;
  o_opened : bool; o_outs : list (list N * err); o_reqs : list (option nat)
}.

Definition check_scripted (c : scripted_case) : list string :=
  let dat := gen_data (c_seed c) (c_len c) in
  let srv := {| data := dat; kind := c_kind c |} in
  valid_outs dat [] (o_outs c) ++
  match session srv retry_schedule (c_reads c) (c_conns c) (c_bufs c) with
  | Ok None => tag_if (o_opened c) "mismatch:model-open-fails-impl-opens"
  | Ok (Some (s, outs)) =>
      tag_if (negb (o_opened c)) "mismatch:model-opens-impl-fails" ++
      (if o_opened c then
         tag_if (negb (list_eqb out_eqb outs (o_outs c))) "mismatch:read-results" ++
         tag_if (negb (list_eqb (option_eqb Nat.eqb) (reqs s) (o_reqs c))) "mismatch:range-requests"
       else [])
  | _ => ["mismatch:model-out-of-fuel"]
  end.

Record http_case := { h_seed : nat; h_len : nat; h_opened : bool; h_got : list N; h_err : err }.

Definition check_http (c : http_case) : list string :=
  let dat := gen_data (h_seed c) (h_len c) in
  if h_opened c then
    tag_if (negb (is_prefix (h_got c) dat)) "viol:delivered-not-prefix-of-server-bytes" ++
    tag_if (match h_err c with EEOF => negb (list_eqb N.eqb (h_got c) dat) | _ => false end) "viol:eof-before-complete" ++
    tag_if (match h_err c with ENone => true | _ => false end) "mismatch:harness-loop-ended-without-error"
  else [].
