(* C20 correspondence: the harness's observations of the real
   rangeRetryReader, compared with the model and judged by the validator. *)
From Apko Require Export Base.Prelude Model.Transport Generated.Transport Spec.TransportSpec.
Open Scope string_scope. Open Scope list_scope.

(* same formula as genData in harness/cmd/c20 *)
Definition gen_byte (seed : N) (i : N) : N := ((i * 131 + seed * 17 + i / 251) mod 256)%N.
Fixpoint gen_from (seed i : N) (n : nat) : list N :=
  match n with O => [] | S n' => gen_byte seed i :: gen_from seed (N.succ i) n' end.
Definition gen_data (seed n : nat) : list N := gen_from (N.of_nat seed) 0%N n.

Definition err_eqb (a b : err) : bool :=
  match a, b with ENone, ENone | EEOF, EEOF | EFail, EFail => true | _, _ => false end.
Definition out_eqb (a b : list N * err) : bool :=
  list_eqb N.eqb (fst a) (fst b) && err_eqb (snd a) (snd b).

Record scripted_case := {
  c_kind : skind; c_bare : bool; c_seed : nat; c_len : nat;
  c_reads : list rd_ev; c_conns : list conn_ev; c_bufs : list nat;
  o_opened : bool; o_outs : list (list N * err); o_reqs : list (option nat)
}.

(* finding C20-F1: end-of-file before the last byte is listed only for sessions
   in which some response was close-delimited (no Content-Length, not chunked)
   and closed cleanly; with framed responses the general tag stays *)
Definition unframed (cns : list conn_ev) : bool := negb (forallb framed_ev cns).
Definition narrow_eof (unfr : bool) (t : string) : string :=
  if unfr && String.eqb t "viol:eof-before-complete" then "viol:eof-before-complete/close-delimited-response" else t.

Definition is_serve (c : conn_ev) : bool := match c with CServe => true | _ => false end.

(* the hypotheses of c20_live, decided on the case's inputs *)
Definition live_case (c : scripted_case) : bool :=
  forallb is_serve (c_conns c) &&
  tolerated (c_len c) (c_kind c) retry_schedule (c_bufs c) 0 (c_reads c) &&
  Nat.ltb (c_len c) (List.length (c_bufs c)).

Definition check_scripted (c : scripted_case) : list string :=
  let dat := gen_data (c_seed c) (c_len c) in
  let srv := {| data := dat; kind := c_kind c; bare := c_bare c |} in
  List.map (narrow_eof (unframed (c_conns c))) (valid_outs dat [] (o_outs c)) ++
  tag_if (live_case c && negb (o_opened c && complete_b dat (o_outs c))) "viol:tolerable-faults-not-survived" ++
  match session srv retry_schedule (c_reads c) (c_conns c) (c_bufs c) with
  | Ok None => tag_if (o_opened c) "mismatch:model-open-fails-impl-opens"
  | Ok (Some (s, outs)) =>
      tag_if (negb (o_opened c)) "mismatch:model-opens-impl-fails" ++
      (if o_opened c then
         tag_if (negb (list_eqb out_eqb outs (o_outs c))) "mismatch:read-results" ++
         tag_if (negb (list_eqb (option_eqb Nat.eqb) (reqs s) (o_reqs c))) "mismatch:range-requests"
       else [])
  | _ => ["mismatch:model-out-of-fuel"]
  end.

(* h_unframed: some response of the session was close-delimited and its
   connection closed cleanly before the end; h_live: the harness cut at most as
   many connections as one Read survives, against a server that honours Range, or
   restarts with every restart reaching the earlier cut (see harness/cmd/c20) *)
Record http_case := { h_seed : nat; h_len : nat; h_opened : bool; h_got : list N; h_err : err;
                      h_unframed : bool; h_live : bool }.

Definition check_http (c : http_case) : list string :=
  let dat := gen_data (h_seed c) (h_len c) in
  (if h_opened c then
    tag_if (negb (is_prefix (h_got c) dat)) "viol:delivered-not-prefix-of-server-bytes" ++
    tag_if (match h_err c with EEOF => negb (list_eqb N.eqb (h_got c) dat) | _ => false end)
      (narrow_eof (h_unframed c) "viol:eof-before-complete") ++
    tag_if (match h_err c with ENone => true | _ => false end) "mismatch:harness-loop-ended-without-error"
  else []) ++
  tag_if (h_live c && negb (h_opened c && is_eof (h_err c) && list_eqb N.eqb (h_got c) dat))
    "viol:tolerable-faults-not-survived".
