(* C20 correspondence: the harness's observations of the real
   rangeRetryReader, compared with the model and judged by the validator. *)
From Apko Require Export Base.Prelude Model.Transport Generated.Transport Generated.TransportShape Spec.TransportSpec
  Model.TransportReq Model.TransportCache Model.TransportCallers.
Open Scope string_scope. Open Scope list_scope.

(* same formula as genData in harness/cmd/c20 *)
Definition gen_byte (seed : N) (i : N) : N := ((i * 131 + seed * 17 + i / 251) mod 256)%N.
Fixpoint gen_from (seed i : N) (n : nat) : list N :=
  match n with O => [] | S n' => gen_byte seed i :: gen_from seed (N.succ i) n' end.
Definition gen_data (seed n : nat) : list N := gen_from (N.of_nat seed) 0%N n.

Definition err_eqb (a b : err) : bool :=
  match a, b with ENone, ENone | EEOF, EEOF | EFail, EFail => true | _, _ => false end.
Definition out_eqb (a b : list N * err) : bool :=
  list_eqb N.eqb (fst a) (fst b) && err_eqb (snd a) (snd b).

Record scripted_case := {
  c_kind : skind; c_bare : bool; c_ebody : list N; c_seed : nat; c_len : nat;
  c_reads : list rd_ev; c_conns : list conn_ev; c_bufs : list nat;
  o_opened : bool; o_outs : list (list N * err);
  (* per request the transport saw: bytes handed over by the Reads completed before it,
     every value of its Range header (bytes=<n>- parsed) *)
  o_sent : list (nat * list nat)
}.

(* finding C20-F1: end-of-file before the last byte is listed only for sessions
   in which some response was close-delimited (no Content-Length, not chunked)
   and closed cleanly; with framed responses the general tag stays *)
Definition unframed (cns : list conn_ev) : bool := negb (forallb framed_ev cns).
Definition narrow_eof (unfr : bool) (t : string) : string :=
  if unfr && String.eqb t "viol:eof-before-complete" then "viol:eof-before-complete/close-delimited-response" else t.

Definition is_serve (c : conn_ev) : bool := match c with CServe => true | _ => false end.

(* the hypotheses of c20_live, decided on the case's inputs *)
Definition live_case (c : scripted_case) : bool :=
  forallb is_serve (c_conns c) &&
  tolerated (c_len c) (c_kind c) retry_schedule (c_bufs c) 0 (c_reads c) &&
  Nat.ltb (c_len c) (List.length (c_bufs c)).

Definition sent_eqb (a b : nat * list nat) : bool :=
  Nat.eqb (fst a) (fst b) && list_eqb Nat.eqb (snd a) (snd b).
(* c20_range_header_is_progress on what the transport saw *)
Definition sent_ok (ph : nat * list nat) : bool := list_eqb Nat.eqb (snd ph) (range_values (fst ph)).

Definition check_scripted (c : scripted_case) : list string :=
  let dat := gen_data (c_seed c) (c_len c) in
  let srv := {| base := {| data := dat; kind := c_kind c; bare := c_bare c |}; ebody := c_ebody c |} in
  List.map (narrow_eof (unframed (c_conns c))) (valid_outs dat [] (o_outs c)) ++
  tag_if (live_case c && negb (o_opened c && complete_b dat (o_outs c))) "viol:tolerable-faults-not-survived" ++
  tag_if (negb (forallb sent_ok (o_sent c))) "viol:range-header-not-progress" ++
  match session_r code_shape srv retry_schedule (c_reads c) (c_conns c) (c_bufs c) with
  | Ok None => tag_if (o_opened c) "mismatch:model-open-fails-impl-opens"
  | Ok (Some (s, outs)) =>
      tag_if (negb (o_opened c)) "mismatch:model-opens-impl-fails" ++
      (if o_opened c then
         tag_if (negb (list_eqb out_eqb outs (o_outs c))) "mismatch:read-results" ++
         tag_if (negb (list_eqb sent_eqb (rsent s) (o_sent c))) "mismatch:range-requests"
       else [])
  | _ => ["mismatch:model-out-of-fuel"]
  end.

(* h_unframed: some response of the session was close-delimited and its
   connection closed cleanly before the end; h_live: the harness cut at most as
   many connections as one Read survives, against a server that honours Range, or
   restarts with every restart reaching the earlier cut (see harness/cmd/c20) *)
Record http_case := { h_seed : nat; h_len : nat; h_opened : bool; h_got : list N; h_err : err;
                      h_unframed : bool; h_live : bool }.

Definition check_http (c : http_case) : list string :=
  let dat := gen_data (h_seed c) (h_len c) in
  (if h_opened c then
    tag_if (negb (is_prefix (h_got c) dat)) "viol:delivered-not-prefix-of-server-bytes" ++
    tag_if (match h_err c with EEOF => negb (list_eqb N.eqb (h_got c) dat) | _ => false end)
      (narrow_eof (h_unframed c) "viol:eof-before-complete") ++
    tag_if (match h_err c with ENone => true | _ => false end) "mismatch:harness-loop-ended-without-error"
  else []) ++
  tag_if (h_live c && negb (h_opened c && is_eof (h_err c) && list_eqb N.eqb (h_got c) dat))
    "viol:tolerable-faults-not-survived".

(* ---- the index download (fetchRepositoryIndex), plain and through the cache ---- *)
(* i_cached: a cache directory is configured (etag-keyed entries). i_conn / i_reads:
   what the FIRST download's GET meets, in the model's alphabet (a response cut
   after k body bytes = one body read that delivers up to k bytes and fails; a
   close-delimited response closed cleanly = CCloseDelim); the second download
   meets a healthy server. i_model: the cut is one the model describes (not a
   reset of a close-delimited response, which net/http may or may not see).
   Observed: what each download returned (None = an error), and for the cached
   path the content advertised under the etag's name and the number of *.tmp
   files in the cache directory after each. *)
Record index_case := {
  i_seed : nat; i_len : nat; i_cached : bool; i_model : bool;
  i_conn : conn_ev; i_reads : list rd_ev; i_live : bool;
  o_mid : option (list N);   (* under the advertised name while the first download's body streams in; None = nothing (or no cut to look at) *)
  o_res1 : option (list N); o_adv1 : option (list N); o_tmps1 : nat;
  o_res2 : option (list N); o_adv2 : option (list N); o_tmps2 : nat
}.

Definition bytes_opt_eqb := option_eqb (list_eqb N.eqb).

Definition check_index (c : index_case) : list string :=
  let dat := gen_data (i_seed c) (i_len c) in
  let unfr := negb (framed_ev (i_conn c)) in
  let short (r : option (list N)) := match r with Some b => negb (list_eqb N.eqb b dat) | None => false end in
  let altered (r : option (list N)) := match r with Some b => negb (is_prefix b dat) | None => false end in
  let sfx (t : string) := if unfr then (t ++ "/close-delimited-response")%string else t in
  (* what a download returns without an error is the server's bytes *)
  tag_if (altered (o_res1 c) || altered (o_res2 c) || altered (o_adv1 c) || altered (o_adv2 c))
    "viol:delivered-not-prefix-of-server-bytes" ++
  (if i_cached c then
     (* c20_cached_download_complete_or_error on the real cache directory *)
     tag_if (short (o_adv1 c) || short (o_adv2 c) || short (o_res1 c) || short (o_res2 c)) (sfx "viol:cached-short-body") ++
     tag_if (negb (Nat.eqb (o_tmps1 c) 0 && Nat.eqb (o_tmps2 c) 0)) "viol:temporary-file-left-behind" ++
     (* c20_cached_never_partially_advertised: what is there while the download runs *)
     tag_if (short (o_mid c) || altered (o_mid c)) (sfx "viol:partial-file-advertised-during-download")
   else
     tag_if (short (o_res1 c) || short (o_res2 c)) (sfx "viol:eof-before-complete")) ++
  (* the second, fault-free download completes (unless the cache holds a short body: the finding above);
     the first one when it is inside the completion theorem's hypotheses *)
  tag_if (i_live c && negb (bytes_opt_eqb (o_res1 c) (Some dat))) "viol:tolerable-faults-not-survived" ++
  tag_if (negb (short (o_adv1 c)) && negb (bytes_opt_eqb (o_res2 c) (Some dat))) "viol:healthy-download-after-faulty-one-fails" ++
  (if i_cached c && i_model c then
     let d0 := {| adv := None; tmps := [] |} in
     tag_if (negb (existsb (fun d' => bytes_opt_eqb (adv d') (o_mid c))
                     (retrieve_trace code_cshape copy_goes_into_temporary_file dat (i_conn c) (i_reads c) d0)))
       "mismatch:cached-index-during-download" ++
     match cached_fetch code_cshape dat (i_conn c) (i_reads c) d0 with
     | Ok (d1, r1, _) =>
         tag_if (negb (bytes_opt_eqb r1 (o_res1 c))) "mismatch:cached-index-result" ++
         tag_if (negb (bytes_opt_eqb (adv d1) (o_adv1 c))) "mismatch:cached-index-advertised" ++
         tag_if (negb (Nat.eqb (List.length (tmps d1)) (o_tmps1 c))) "mismatch:cached-index-temporaries" ++
         match cached_fetch code_cshape dat CServe [] d1 with
         | Ok (d2, r2, _) =>
             tag_if (negb (bytes_opt_eqb r2 (o_res2 c))) "mismatch:cached-index-second-result" ++
             tag_if (negb (bytes_opt_eqb (adv d2) (o_adv2 c))) "mismatch:cached-index-second-advertised" ++
             tag_if (negb (Nat.eqb (List.length (tmps d2)) (o_tmps2 c))) "mismatch:cached-index-second-temporaries"
         | _ => ["mismatch:model-out-of-fuel"]
         end
     | _ => ["mismatch:model-out-of-fuel"]
     end
   else []).

(* ---- fetchRepositoryIndex over the scripted transport (stage callers) ---------- *)
(* k_res: what the call returned (None = an error); k_ranges: the Range values of every request *)
Record caller_case := {
  k_kind : skind; k_bare : bool; k_ebody : list N; k_seed : nat; k_len : nat;
  k_reads : list rd_ev; k_conns : list conn_ev;
  k_res : option (list N); k_ranges : list (list nat)
}.

Definition check_caller (c : caller_case) : list string :=
  let dat := gen_data (k_seed c) (k_len c) in
  let srv := {| base := {| data := dat; kind := k_kind c; bare := k_bare c |}; ebody := k_ebody c |} in
  (* c20_index_fetch_complete_or_error / c20_readall_complete_or_error on the real caller:
     an error, or exactly the server's bytes — whatever ran out *)
  match k_res c with
  | Some b =>
      tag_if (negb (is_prefix b dat)) "viol:delivered-not-prefix-of-server-bytes" ++
      tag_if (is_prefix b dat && negb (list_eqb N.eqb b dat)) (narrow_eof (unframed (k_conns c)) "viol:eof-before-complete")
  | None => []
  end ++
  (if Nat.ltb (k_len c) readall_cap then
     match index_fetch_r readall_error_returned code_shape srv retry_schedule (k_reads c) (k_conns c) with
     | Ok (so, r) =>
         tag_if (negb (bytes_opt_eqb r (k_res c))) "mismatch:index-fetch-result" ++
         tag_if (negb (list_eqb (list_eqb Nat.eqb)
                         (match so with Some s => List.map snd (rsent s) | None => k_ranges c end) (k_ranges c)))
           "mismatch:index-fetch-range-requests"
     | _ => ["mismatch:model-out-of-fuel"]
     end
   else []).
