(* C13 — executable model of pkg/build/accounts.go (mutateAccounts,
   userToUserEntry, appendGroup) and of the passwd/group text codec of
   pkg/passwd that it reads and writes through.  Constants and the two format
   strings come from Generated/C13Consts.v.  No proofs here.

   Not modelled (stated in props/c13.py): strings.TrimSpace also strips the
   non-ASCII Unicode spaces (U+0085, U+00A0, U+1680, U+2000.., U+3000); bufio's
   64 KiB line limit is modelled as "a line of 65535 bytes or more is an error"
   (the exact boundary 65535/65536 is not). *)
From Apko Require Import Base.Prelude Model.C13Fs Generated.C13Consts.
From Coq Require Import DecimalString DecimalN.
Open Scope string_scope. Open Scope list_scope.

Record user_entry := mkUE {
  ue_name : string; ue_pw : string; ue_uid : N; ue_gid : N;
  ue_info : string; ue_home : string; ue_shell : string }.
Record group_entry := mkGE {
  ge_name : string; ge_pw : string; ge_gid : N; ge_members : list string }.

(* configuration (types.User / types.Group) *)
Record cuser := mkCU {
  cu_name : string; cu_uid : N; cu_gid : option N; cu_shell : string; cu_home : string }.
Record cgroup := mkCG { cg_name : string; cg_gid : N; cg_members : list string }.

Definition user_to_entry (u : cuser) : user_entry :=
  let shell := if String.eqb (cu_shell u) "" then default_shell else cu_shell u in
  let home := if String.eqb (cu_home u) "" then (home_prefix ++ cu_name u)%string else cu_home u in
  let gid := match cu_gid u with Some g => g | None => cu_uid u end in
  mkUE (cu_name u) entry_password (cu_uid u) gid entry_info home shell.
Definition group_to_entry (g : cgroup) : group_entry :=
  mkGE (cg_name g) group_password (cg_gid g) (cg_members g).

(* ---- fmt.Fprintf restricted to %s and %d --------------------------------- *)
Definition dec (n : N) : string := NilEmpty.string_of_uint (N.to_uint n).
Inductive farg := FS (s : string) | FD (n : N).
Definition show_arg (a : farg) : string := match a with FS s => s | FD n => dec n end.
Fixpoint sprintf (fmt : string) (args : list farg) : string :=
  match fmt with
  | EmptyString => ""
  | String "%"%char (String c rest) =>
      if Ascii.eqb c "s"%char || Ascii.eqb c "d"%char then
        match args with
        | a :: args' => (show_arg a ++ sprintf rest args')%string
        | [] => ("%!" ++ String c "(MISSING)" ++ sprintf rest [])%string
        end
      else String "%"%char (String c (sprintf rest args))
  | String a rest => String a (sprintf rest args)
  end.

Fixpoint join (sep : string) (l : list string) : string :=
  match l with
  | [] => ""
  | [x] => x
  | x :: t => (x ++ sep ++ join sep t)%string
  end.

Definition write_user (e : user_entry) : string :=
  sprintf passwd_format [FS (ue_name e); FS (ue_pw e); FD (ue_uid e); FD (ue_gid e);
                         FS (ue_info e); FS (ue_home e); FS (ue_shell e)].
Definition write_group (e : group_entry) : string :=
  sprintf group_format [FS (ge_name e); FS (ge_pw e); FD (ge_gid e); FS (join members_sep (ge_members e))].
Definition write_users (l : list user_entry) : string := String.concat "" (List.map write_user l).
Definition write_groups (l : list group_entry) : string := String.concat "" (List.map write_group l).

(* ---- reading -------------------------------------------------------------- *)
Definition ascii_space (a : ascii) : bool :=
  let n := N_of_ascii a in ((9 <=? n) && (n <=? 13) || (n =? 32))%N.
Fixpoint trim_left (s : string) : string :=
  match s with String a s' => if ascii_space a then trim_left s' else s | _ => s end.
(* trims trailing ASCII space *)
Fixpoint trim_right (s : string) : string :=
  match s with
  | EmptyString => ""
  | String a s' =>
      match trim_right s' with
      | EmptyString => if ascii_space a then "" else String a ""
      | r => String a r
      end
  end.
Definition trim_space (s : string) : string := trim_right (trim_left s).

Definition sep_char (sep : string) : ascii := match sep with String a _ => a | _ => ":"%char end.

(* strconv.Atoi then uint32(): optional sign, decimal digits only, int64 range *)
Definition int64_max : N := 9223372036854775807.
Definition atoi_u32 (s : string) : option N :=
  let (neg, body) := match s with
                     | String "-"%char r => (true, r)
                     | String "+"%char r => (false, r)
                     | _ => (false, s)
                     end in
  match body with
  | EmptyString => None
  | _ =>
      match NilEmpty.uint_of_string body with
      | None => None
      | Some u =>
          let v := N.of_uint u in
          if neg then
            if (v <=? int64_max + 1)%N then Some (Z.to_N (Z.modulo (- Z.of_N v) 4294967296)) else None
          else
            if (v <=? int64_max)%N then Some (v mod 4294967296)%N else None
      end
  end.

Definition parse_user (line : string) : option user_entry :=
  match split_on (sep_char passwd_sep) (trim_space line) with
  | [a; b; c; d; e; f; g] =>
      if negb (N.eqb passwd_fields 7) then None else
      match atoi_u32 c, atoi_u32 d with
      | Some uid, Some gid => Some (mkUE a b uid gid e f g)
      | _, _ => None
      end
  | _ => None
  end.
Definition parse_group (line : string) : option group_entry :=
  match split_on (sep_char group_sep) (trim_space line) with
  | [a; b; c; d] =>
      if negb (N.eqb group_fields 4) then None else
      match atoi_u32 c with
      | Some gid => Some (mkGE a b gid (if group_empty_members_nil && String.eqb d "" then []
                                         else split_on (sep_char members_sep) d))
      | None => None
      end
  | _ => None
  end.

(* bufio.ScanLines: split at "\n", drop one trailing "\r" per line, no token
   for the empty remainder after the last newline *)
Definition nl : ascii := ascii_of_N 10.
Definition cr : ascii := ascii_of_N 13.
Fixpoint drop_cr (s : string) : string :=
  match s with
  | EmptyString => ""
  | String a EmptyString => if Ascii.eqb a cr then "" else s
  | String a s' => String a (drop_cr s')
  end.
Definition scan_lines (txt : string) : list string :=
  let raw := split_on nl txt in
  let raw' := match rev raw with "" :: r => rev r | _ => raw end in
  List.map drop_cr raw'.
Definition line_limit : nat := N.to_nat 65535.

Fixpoint parse_lines {E} (p : string -> option E) (ls : list string) : option (list E) :=
  match ls with
  | [] => Some []
  | l :: t =>
      if Nat.leb line_limit (String.length l) then None else
      match p l with
      | None => None
      | Some e => match parse_lines p t with Some es => Some (e :: es) | None => None end
      end
  end.
Definition parse_users (txt : string) : option (list user_entry) := parse_lines parse_user (scan_lines txt).
Definition parse_groups (txt : string) : option (list group_entry) := parse_lines parse_group (scan_lines txt).

(* ---- mutateAccounts -------------------------------------------------------- *)
Section Mutate.
Variable maxl : nat.

Definition etc_passwd : path := mkPath false ["etc"; "passwd"] false.
Definition etc_group : path := mkPath false ["etc"; "group"] false.

(* targetHomedir: filepath.Clean(ue.HomeDir) since fix 82f3aa3 (the flag is read from the source) *)
Definition home_path (home : string) : path :=
  if home_is_cleaned then pclean (path_of home) else path_of home.

(* one iteration of the home loop *)
Definition ensure_home (f : fs) (e : user_entry) : fres fs :=
  if String.eqb (ue_home e) no_home then FOk f else
  let h := home_path (ue_home e) in
  match stat maxl f h with
  | FOk n => if is_dir n then FOk f else FErr
  | FNotExist =>
      fdo f1 <- mkdirall maxl f (pdir h) home_parent_perm;
      fdo f2 <- mkdir maxl f1 h home_perm;
      chown maxl f2 h (ue_uid e) (ue_gid e)
  | FErr => FErr
  | FFuel => FFuel
  end.
Fixpoint ensure_homes (f : fs) (es : list user_entry) : fres fs :=
  match es with
  | [] => FOk f
  | e :: t => fdo f1 <- ensure_home f e; ensure_homes f1 t
  end.

Fixpoint resolve_run_as (run_as : string) (es : list user_entry) : string :=
  match es with
  | [] => run_as
  | e :: t => if String.eqb (ue_name e) run_as then dec (ue_uid e) else resolve_run_as run_as t
  end.

Definition mutate_groups (f : fs) (groups : list cgroup) : fres fs :=
  match groups with
  | [] => FOk f
  | _ =>
      fdo r <- read_or_create maxl f etc_group group_open_perm;
      let (f1, txt) := r in
      match parse_groups txt with
      | None => FErr
      | Some old => create_write maxl f1 etc_group (write_groups (old ++ List.map group_to_entry groups))
      end
  end.

Definition mutate_users (f : fs) (users : list cuser) (run_as : string) : fres (fs * string) :=
  fdo r <- read_or_create maxl f etc_passwd passwd_open_perm;
  let (f1, txt) := r in
  match parse_users txt with
  | None => FErr
  | Some old =>
      let es := old ++ List.map user_to_entry users in
      fdo f2 <- ensure_homes f1 es;
      fdo f3 <- create_write maxl f2 etc_passwd (write_users es);
      FOk (f3, if String.eqb run_as "" then run_as else resolve_run_as run_as es)
  end.

(* the two goroutines are modelled in the order group, passwd; they touch
   disjoint files unless a home directory lies at or under etc/group (outside
   the compared envelope) *)
Definition mutate_accounts (f : fs) (users : list cuser) (groups : list cgroup) (run_as : string)
  : fres (fs * string) :=
  match mutate_groups f groups with
  | FOk f1 => mutate_users f1 users run_as
  | FFuel => FFuel
  | _ => FErr          (* eg.Wait() reports the group goroutine's error whatever the other one does *)
  end.

End Mutate.
