(* C10 — the ORDER of the steps of a build: Context.BuildLayers / BuildLayer /
   BuildImage / ImageLayoutToLayer / buildLayers / buildImage / postBuildSetApk,
   as far as C10 needs it: which filesystem state is serialised (by writeTar
   for the single layer, by splitLayers for the layers) and which steps ran
   before.  The step lists are NOT written here: goextract reads them from the
   source on every run (Generated/C10Steps.v, [c10_steps]); this file is the
   interpreter.  No proofs in this file.

   A function body is a list of calls, each under a list of conditions
   (condition text, polarity).  Conditions are opaque: they are evaluated by a
   function [cond : string -> bool] the theorems quantify over (all of them are
   conditions on the configuration, e.g. "bc.ic.Layering == nil").
   "return" leaves the current function; "fail" (a return with an error value)
   ends the build; Go's `if err != nil { return ... err }` after a call is the
   result monad of [exec]. *)
From Apko Require Import Base.Prelude.
Open Scope string_scope. Open Scope list_scope.

Definition guard := (string * bool)%type.
Definition gcall := (list guard * string)%type.
Definition fdefs := list (string * list gcall).

Fixpoint find_def (n : string) (d : fdefs) : option (list gcall) :=
  match d with
  | [] => None
  | (m, b) :: r => if String.eqb n m then Some b else find_def n r
  end.

Definition guards_hold (cond : string -> bool) (gs : list guard) : bool :=
  forallb (fun g : guard => Bool.eqb (cond (fst g)) (snd g)) gs.

Inductive status := Cont | Failed | NoFuel.

(* the primitive calls (those with no body in [defs]) executed by [body], in order *)
Fixpoint trace (fuel : nat) (defs : fdefs) (cond : string -> bool) (body : list gcall) {struct fuel} : list string * status :=
  match fuel with
  | O => ([], NoFuel)
  | S k =>
      (fix go (b : list gcall) : list string * status :=
         match b with
         | [] => ([], Cont)
         | (gs, name) :: rest =>
             if guards_hold cond gs then
               if String.eqb name "return" then ([], Cont)
               else if String.eqb name "fail" then ([], Failed)
               else
                 let '(t1, s1) := match find_def name defs with
                                  | Some cb => trace k defs cond cb
                                  | None => ([name], Cont)
                                  end in
                 match s1 with
                 | Cont => let '(t2, s2) := go rest in (t1 ++ t2, s2)
                 | _ => (t1, s1)
                 end
             else go rest
         end) body
  end.

(* ---- what the steps are ---------------------------------------------------------------- *)
Definition entry_point : string := "bc.BuildLayers".
Definition build_trace (defs : fdefs) (cond : string -> bool) : list string * status :=
  trace 8 defs cond [([], entry_point)].

(* calls that read but never change the filesystem under construction; every
   other name — names this file has never heard of included — counts as a step
   that may change it *)
Definition pure_calls : list string :=
  ["bc.Arch"; "bc.apk.GetInstalled"; "bc.baseimg.InstalledPackages"; "bc.o.TempDir"; "bc.o.TarballFileName";
   "bc.checkPaths"; "installablePackagesForArch"; "groupByOriginAndSize"; "newLayerWriter"].
Definition serialisers : list string := ["writeTar"; "splitLayers"].
Definition in_list (n : string) (l : list string) : bool := existsb (String.eqb n) l.
Definition mutating (n : string) : bool := negb (in_list n pure_calls) && negb (in_list n serialisers).

(* the calls before / after the first serialiser; None when nothing is serialised *)
Fixpoint split_at_serialiser (t : list string) : option (list string * string * list string) :=
  match t with
  | [] => None
  | n :: r => if in_list n serialisers then Some ([], n, r)
              else match split_at_serialiser r with
                   | Some (a, s, b) => Some (n :: a, s, b)
                   | None => None
                   end
  end.

(* the two configurations compared: [k] gives the conditions that differ (the
   layering block is absent / present and acceptable), everything else is shared *)
Fixpoint assoc_b (k : list guard) (c : string) : option bool :=
  match k with [] => None | (d, b) :: r => if String.eqb c d then Some b else assoc_b r c end.
Definition override (k : list guard) (cond : string -> bool) : string -> bool :=
  fun c => match assoc_b k c with Some b => b | None => cond c end.

(* read off the generated lists: the conditions under which BuildLayers takes the
   single-layer path (those of its call of BuildLayer) and the layered path (those of
   its call of buildLayers), and the conditions under which buildLayers does build:
   those of its first call that is not a refusal (every statement after a refusal
   `if c { return error }` carries the negated c) *)
Fixpoint guards_of_call (n : string) (b : list gcall) : list guard :=
  match b with
  | [] => []
  | (gs, m) :: r => if String.eqb m n then gs else guards_of_call n r
  end.
Fixpoint first_nonfail_guards (b : list gcall) : list guard :=
  match b with
  | [] => []
  | (gs, m) :: r => if String.eqb m "fail" then first_nonfail_guards r else gs
  end.
(* the configurations compared are those the layered build accepts ([accepted_when]: e.g.
   no base image — a condition buildImage looks at too); the same configuration without
   its layering block takes the single-layer path *)
Definition accepted_when (defs : fdefs) : list guard :=
  match find_def "bc.buildLayers" defs with Some b => first_nonfail_guards b | None => [] end.
Definition single_when (defs : fdefs) : list guard :=
  match find_def entry_point defs with Some b => guards_of_call "bc.BuildLayer" b | None => [] end ++ accepted_when defs.
Definition multi_when (defs : fdefs) : list guard :=
  match find_def entry_point defs with Some b => guards_of_call "bc.buildLayers" b | None => [] end ++ accepted_when defs.

(* what the order must satisfy, as a decidable statement about the two traces:
   both builds run out of neither fuel; they fail together or serialise
   together — the single-layer one through writeTar, the layered one through
   splitLayers —; the steps that may change the filesystem before the
   serialiser are the same list; nothing that may change it follows. *)
Definition str_list_eqb := list_eqb String.eqb.
Definition order_ok (tS tM : list string * status) : bool :=
  match snd tS, snd tM with
  | NoFuel, _ | _, NoFuel => false
  | sS, sM =>
      match split_at_serialiser (fst tS), split_at_serialiser (fst tM) with
      | Some (a, s, b), Some (a', s', b') =>
          String.eqb s "writeTar" && String.eqb s' "splitLayers" &&
          str_list_eqb (filter mutating a) (filter mutating a') &&
          match filter mutating b, filter mutating b' with [], [] => true | _, _ => false end &&
          match sS, sM with Cont, Cont => true | _, _ => false end
      | None, None =>
          str_list_eqb (filter mutating (fst tS)) (filter mutating (fst tM)) &&
          match sS, sM with Failed, Failed => true | _, _ => false end
      | _, _ => false
      end
  end.

(* a decidable statement [chk] about the traces of the two builds of one configuration *)
Definition build_check (chk : list string * status -> list string * status -> bool) (defs : fdefs) (cond : string -> bool) : bool :=
  chk (build_trace defs (override (single_when defs) cond)) (build_trace defs (override (multi_when defs) cond)).
Definition build_order_ok : fdefs -> (string -> bool) -> bool := build_check order_ok.

(* fix 095ec71: the LAST step that may change the filesystem before it is serialised
   rewrites /etc/apk/repositories (postBuildSetApk -> SetRepositories), in both builds *)
Definition repos_last (t : list string * status) : bool :=
  match split_at_serialiser (fst t) with
  | Some (a, _, _) => match rev (filter mutating a) with
                      | last :: _ => String.eqb last "bc.apk.SetRepositories"
                      | [] => false
                      end
  | None => true
  end.
Definition repos_last_both (tS tM : list string * status) : bool := repos_last tS && repos_last tM.

(* ---- running a trace on states ----------------------------------------------------------- *)
Section Exec.
  Variable S : Type.
  Variable sem : string -> S -> res S.
  Fixpoint exec (t : list string) (s : S) : res S :=
    match t with
    | [] => Ok s
    | n :: r => do x <- sem n s; exec r x
    end.
End Exec.

(* ---- all valuations of a finite list of conditions ----------------------------------------- *)
Definition conds_body (b : list gcall) : list string := flat_map (fun gc : gcall => map fst (fst gc)) b.
Definition conds_of (defs : fdefs) : list string := flat_map (fun d : string * list gcall => conds_body (snd d)) defs.
Fixpoint dedup (l : list string) : list string :=
  match l with [] => [] | x :: r => if in_list x r then dedup r else x :: dedup r end.
Fixpoint all_vals (l : list string) : list (list guard) :=
  match l with
  | [] => [[]]
  | c :: r => flat_map (fun v => [(c, true) :: v; (c, false) :: v]) (all_vals r)
  end.
Definition val_fun (v : list guard) : string -> bool :=
  fun c => match assoc_b v c with Some b => b | None => false end.

(* ---- the markers the harness can observe on the real filesystem --------------------------- *)
Definition marker_of (n : string) : option string :=
  if String.eqb n "bc.apk.FixateWorld" then Some "install" else
  if String.eqb n "bc.apk.InstallPackages" then Some "install" else
  if String.eqb n "mutateAccounts" then Some "accounts" else
  if String.eqb n "bc.WriteEtcApkoConfig" then Some "apko-json" else
  if String.eqb n "mutatePaths" then Some "paths" else
  if String.eqb n "installBusyboxLinks" then Some "busybox" else
  if String.eqb n "installCharDevices" then Some "chardev" else
  if String.eqb n "bc.apk.SetRepositories" then Some "set-repos" else
  if in_list n serialisers then Some "serialise" else None.
Definition always_observable : list string := ["install"; "apko-json"; "set-repos"; "serialise"].
Definition markers (t : list string) : list string :=
  flat_map (fun n => match marker_of n with Some m => [m] | None => [] end) t.

(* ---- the arguments of the calls that matter (Generated [c10_call_args]) ---------------------- *)
Fixpoint assoc_l (k : list (string * list string)) (c : string) : list string :=
  match k with [] => [] | (d, v) :: r => if String.eqb c d then v else assoc_l r c end.
Fixpoint is_prefix (a b : string) : bool :=
  match a, b with
  | EmptyString, _ => true
  | String x a', String y b' => Ascii.eqb x y && is_prefix a' b'
  | _, _ => false
  end.
Fixpoint is_infix (a b : string) : bool :=
  is_prefix a b || match b with EmptyString => false | String _ b' => is_infix a b' end.
(* both serialisers are handed the filesystem of the build context; the layers are
   split by the groups computed from the packages buildImage returned and the
   configured budget; the repository list written before serialisation is made of
   run-time fields only *)
Definition args_ok (args : list (string * list string)) (repo_sources : list string) : bool :=
  in_list "bc.fs" (assoc_l args "writeTar") &&
  String.eqb (hd "" (assoc_l args "splitLayers")) "bc.fs" &&
  in_list "<groupByOriginAndSize>" (assoc_l args "splitLayers") &&
  str_list_eqb (assoc_l args "groupByOriginAndSize") ["<bc.buildImage>"; "bc.ic.Layering.Budget"] &&
  negb (match repo_sources with [] => true | _ => false end) &&
  forallb (fun s => is_infix "Runtime" s && negb (is_infix "Build" s)) repo_sources.

(* ---- who can see the layering block (Generated [c10_layering_readers] / [c10_layering_inspected]) ---- *)
(* the primitive calls of the step lists: everything called that has no body in the lists *)
Definition primitives (defs : fdefs) : list string :=
  flat_map (fun d : string * list gcall =>
    flat_map (fun gc : gcall =>
      let n := snd gc in
      if String.eqb n "return" || String.eqb n "fail" then []
      else match find_def n defs with Some _ => [] | None => [n] end) (snd d)) defs.
(* every primitive call was inspected, and the only one that may change the filesystem
   and can see the layering block is WriteEtcApkoConfig *)
Definition layering_ok (defs : fdefs) (readers inspected : list string) : bool :=
  forallb (fun n => in_list n inspected) (primitives defs) &&
  forallb (fun n => in_list n inspected) readers &&
  str_list_eqb (filter mutating readers) ["bc.WriteEtcApkoConfig"].
