(* C13 — the filesystem-shaping part of pkg/build/build_implementation.go:
   buildImage after the packages are installed.  The ORDER of the steps is the
   one goextract read from the source on this run (build_image_steps, the calls
   of buildImage in source order); each known step is interpreted by the model
   of that function.  No proofs here.

   WriteEtcApkoConfig: Create (0o666, truncating) + Chmod to the mode in the
   source; the JSON content is not modelled (the file is empty here; sizes of
   that one file are not compared).  WriteSupervisionTree, installBusyboxLinks
   and installCharDevices do nothing for a configuration without services and
   without a busybox package, apart from /dev, which is outside what is
   compared. *)
From Apko Require Import Base.Prelude Model.C13Fs Model.Accounts Model.PathMut Generated.C13Consts.
Open Scope string_scope. Open Scope list_scope.

Section Build.
Variable maxl : nat.

Definition write_apko_config (f : fs) : fres fs :=
  fdo f1 <- create_write maxl f (path_of apko_config_path) "";
  chmod maxl f1 (path_of apko_config_path) apko_config_perm.

Definition build_step (users : list cuser) (groups : list cgroup) (muts : list mutation)
  (name : string) (st : fs * string) : fres (fs * string) :=
  let (f, ra) := st in
  if String.eqb name "mutateAccounts" then mutate_accounts maxl f users groups ra
  else if String.eqb name "WriteEtcApkoConfig" then fdo f1 <- write_apko_config f; FOk (f1, ra)
  else if String.eqb name "mutatePaths" then fdo f1 <- mutate_paths maxl f muts; FOk (f1, ra)
  else FOk st.

Fixpoint build_steps (users : list cuser) (groups : list cgroup) (muts : list mutation)
  (names : list string) (st : fs * string) : fres (fs * string) :=
  match names with
  | [] => FOk st
  | n :: t => fdo st1 <- build_step users groups muts n st; build_steps users groups muts t st1
  end.

(* the tree the packages produced + the configuration -> final tree and the
   run-as value that becomes config.User *)
Definition build_image (f : fs) (users : list cuser) (groups : list cgroup) (run_as : string)
  (muts : list mutation) : fres (fs * string) :=
  build_steps users groups muts build_image_steps (f, run_as).

(* ---- with a base image (contents.baseimage, experimental; Go API only: the YAML
   loader refuses accounts and paths next to a base image) ------------------------
   buildImage guards the accounts step with `Contents.BaseImage == nil`
   ([accounts_skipped_with_base_image], read from the source by shape): with a base
   image mutateAccounts is NOT called — etc/passwd and etc/group of the tree are
   left as they are, no home is made, run-as stays what was configured — while
   WriteEtcApkoConfig and mutatePaths run as always. *)
Definition build_step_b (has_base : bool) (users : list cuser) (groups : list cgroup) (muts : list mutation)
  (name : string) (st : fs * string) : fres (fs * string) :=
  if String.eqb name "mutateAccounts" && has_base && accounts_skipped_with_base_image then FOk st
  else build_step users groups muts name st.
Fixpoint build_steps_b (has_base : bool) (users : list cuser) (groups : list cgroup) (muts : list mutation)
  (names : list string) (st : fs * string) : fres (fs * string) :=
  match names with
  | [] => FOk st
  | n :: t => fdo st1 <- build_step_b has_base users groups muts n st; build_steps_b has_base users groups muts t st1
  end.
Definition build_image_b (has_base : bool) (f : fs) (users : list cuser) (groups : list cgroup) (run_as : string)
  (muts : list mutation) : fres (fs * string) :=
  build_steps_b has_base users groups muts build_image_steps (f, run_as).

End Build.
