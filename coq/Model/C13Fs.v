(* C13 — a small heap-of-nodes model of the two in-memory filesystems
   (pkg/apk/fs/memfs.go and pkg/tarfs/fs.go; for the operations used by
   mutateAccounts / mutatePaths they are line-for-line the same).  Inodes are
   indices into the heap (root = 0) so that hard links share a node, exactly as
   [children[base] = target] does in Go.  No proofs here.

   Envelope (stated, not hidden): path strings are modelled through their
   "/"-separated non-empty components.  The Go code looks components up
   literally (no special treatment of "." and ".." in getNode / MkdirAll), so the
   model agrees with it on every path; what is NOT modelled is the creation of
   directory entries whose *name* is ".", ".." or "/" (possible in Go through
   MkdirAll("a/../b") or Create("/")): creating operations return [FErr] on such
   a final component, and the correspondence generator never produces them. *)
From Apko Require Import Base.Prelude Generated.C13Consts.
Open Scope nat_scope. Open Scope string_scope. Open Scope list_scope.

Inductive fres (A : Type) : Type :=
| FOk (a : A)
| FNotExist        (* an error for which os.IsNotExist holds *)
| FErr             (* any other Go error *)
| FFuel.           (* the model's own fuel ran out *)
Arguments FOk {A} a. Arguments FNotExist {A}. Arguments FErr {A}. Arguments FFuel {A}.

Definition fbind {A B} (r : fres A) (k : A -> fres B) : fres B :=
  match r with FOk a => k a | FNotExist => FNotExist | FErr => FErr | FFuel => FFuel end.
Notation "'fdo' x <- r ; k" := (fbind r (fun x => k)) (at level 200, x pattern, r at level 100, k at level 200).

Inductive kind := KDir | KFile | KSym | KDev.
Definition kind_eqb (a b : kind) : bool :=
  match a, b with KDir, KDir | KFile, KFile | KSym, KSym | KDev, KDev => true | _, _ => false end.

(* [nperm] is the node's Go FileMode without its type bits, i.e. whatever was
   passed as "perm" (for [permissions: 0o1777] it is 0o1777: bit 9, which is
   not Go's ModeSticky). *)
Record node := mkNode {
  nkind : kind; nperm : N; nuid : N; ngid : N;
  ntarget : string; ndata : string;
  nchildren : list (string * nat);
  nback : string     (* tarfs only: content of the package's tar entry that backs this file ("" = none) *)
}.
(* what a reader sees and what Stat reports the size of: tarfs falls back to the
   backing tar entry whenever the node's own buffer is EMPTY (pkg/tarfs/fs.go
   openFile / memFileInfo.Size: [te != nil && len(data) == 0]) — so truncating
   a package-backed file, or writing nothing to it, brings the package's
   content back *)
Definition edata (n : node) : string := if String.eqb (ndata n) "" then nback n else ndata n.
Definition fs := list node.
Definition root_ino : nat := 0.

Definition empty_fs (root_perm : N) : fs :=
  [mkNode KDir root_perm 0 0 "" "" [] ""].

Definition get (f : fs) (i : nat) : option node := nth_error f i.
Fixpoint set_nth {A} (l : list A) (i : nat) (x : A) : list A :=
  match l, i with
  | [], _ => []
  | _ :: t, O => x :: t
  | h :: t, S i' => h :: set_nth t i' x
  end.
Definition upd (f : fs) (i : nat) (g : node -> node) : fs :=
  match get f i with Some n => set_nth f i (g n) | None => f end.

Fixpoint lookup (nm : string) (cs : list (string * nat)) : option nat :=
  match cs with
  | [] => None
  | (k, v) :: t => if String.eqb k nm then Some v else lookup nm t
  end.
Fixpoint remove_child (nm : string) (cs : list (string * nat)) : list (string * nat) :=
  match cs with
  | [] => []
  | (k, v) :: t => if String.eqb k nm then remove_child nm t else (k, v) :: remove_child nm t
  end.

Definition with_children (n : node) (cs : list (string * nat)) : node :=
  mkNode (nkind n) (nperm n) (nuid n) (ngid n) (ntarget n) (ndata n) cs (nback n).
Definition with_perm (n : node) (p : N) : node :=
  mkNode (nkind n) p (nuid n) (ngid n) (ntarget n) (ndata n) (nchildren n) (nback n).
Definition with_owner (n : node) (u g : N) : node :=
  mkNode (nkind n) (nperm n) u g (ntarget n) (ndata n) (nchildren n) (nback n).
Definition with_data (n : node) (d : string) : node :=
  mkNode (nkind n) (nperm n) (nuid n) (ngid n) (ntarget n) d (nchildren n) (nback n).

(* writing through a handle opened with O_TRUNC: the node's buffer is replaced;
   whether the tar entry backing a package file is let go of is read from the
   source (today it is not: finding C13-F4) *)
Definition trunc_write (n : node) (d : string) : node :=
  mkNode (nkind n) (nperm n) (nuid n) (ngid n) (ntarget n) d (nchildren n)
         (if tarfs_trunc_detaches then "" else nback n).

(* add a child entry [nm -> c] to directory [d] *)
Definition add_child (f : fs) (d : nat) (nm : string) (c : nat) : fs :=
  upd f d (fun n => with_children n (nchildren n ++ [(nm, c)])).
(* allocate a fresh node and hang it under [d] *)
Definition new_child (f : fs) (d : nat) (nm : string) (n : node) : fs * nat :=
  let i := List.length f in (add_child (f ++ [n]) d nm i, i).

(* ---- paths --------------------------------------------------------------- *)
Definition slash : ascii := "/"%char.
Fixpoint split_on (c : ascii) (s : string) : list string :=
  match s with
  | EmptyString => [""]
  | String a s' =>
      let r := split_on c s' in
      if Ascii.eqb a c then "" :: r
      else match r with h :: t => String a h :: t | [] => [String a ""] end
  end.
Definition nonempty (s : string) : bool := negb (String.eqb s "").
Definition parts (s : string) : list string := filter nonempty (split_on slash s).
Definition is_abs (s : string) : bool :=
  match s with String a _ => Ascii.eqb a slash | _ => false end.

(* filepath.Clean on components; [rooted] paths drop ".." at the root,
   relative ones keep it (and the literal lookup of ".." then fails) *)
Fixpoint clean_stack (rooted : bool) (stack : list string) (ps : list string) : list string :=
  match ps with
  | [] => rev stack
  | p :: ps' =>
      if String.eqb p "." then clean_stack rooted stack ps'
      else if String.eqb p ".." then
        match stack with
        | [] => if rooted then clean_stack rooted [] ps' else clean_stack rooted [".."] ps'
        | t :: st' => if String.eqb t ".." then clean_stack rooted (".." :: stack) ps'
                      else clean_stack rooted st' ps'
        end
      else clean_stack rooted (p :: stack) ps'
  end.
Definition clean (rooted : bool) (ps : list string) : list string := clean_stack rooted [] ps.

(* a path as the Go code sees it: absolute?, components, trailing slash? *)
Record path := mkPath { p_abs : bool; p_comps : list string; p_trail : bool }.
Fixpoint ends_with_slash (s : string) : bool :=
  match s with
  | EmptyString => false
  | String a EmptyString => Ascii.eqb a slash
  | String _ s' => ends_with_slash s'
  end.
(* getNode's special case: the whole path "." (like "/") is the root *)
Definition path_of (s : string) : path :=
  if String.eqb s "." then mkPath false [] false else mkPath (is_abs s) (parts s) (ends_with_slash s).
(* filepath.Dir = Clean of everything up to the last slash (so a trailing slash
   keeps every component); filepath.Base = the raw last component *)
Definition pdir (p : path) : path :=
  mkPath (p_abs p) (clean (p_abs p) (if p_trail p then p_comps p else removelast (p_comps p))) false.
(* filepath.Clean of the whole path ("" and "." become the root) *)
Definition pclean (p : path) : path := mkPath (p_abs p) (clean (p_abs p) (p_comps p)) false.
Definition pbase (p : path) : option string :=
  match rev (p_comps p) with
  | [] => None
  | b :: _ => if String.eqb b "." || String.eqb b ".." then None else Some b
  end.

Definition max_links_default : nat := 40.

(* where a symlink found under directory path [trav] points *)
Definition link_comps (trav : list string) (tgt : string) : list string :=
  if is_abs tgt then parts tgt else clean false (trav ++ parts tgt).

(* getNode: follows every symlink, the final one included; [d] = symlink
   nesting still allowed (maxLinks at the top) *)
Fixpoint getnode (d : nat) (f : fs) (comps : list string) {struct d} : fres nat :=
  let fix walk (cur : nat) (trav : list string) (ps : list string) {struct ps} : fres nat :=
    match ps with
    | [] => FOk cur
    | p :: ps' =>
        match get f cur with
        | None => FErr
        | Some n =>
            match lookup p (nchildren n) with
            | None => FNotExist
            | Some c =>
                match get f c with
                | None => FErr
                | Some cn =>
                    match nkind cn with
                    | KSym =>
                        match d with
                        | O => FErr            (* maximum symlink depth exceeded *)
                        | S d' =>
                            match getnode d' f (link_comps trav (ntarget cn)) with
                            | FOk c' => walk c' (trav ++ [p]) ps'
                            | FNotExist => FNotExist
                            | FErr => FErr
                            | FFuel => FFuel
                            end
                        end
                    | _ => walk c (trav ++ [p]) ps'
                    end
                end
            end
        end
    end in
  walk root_ino [] comps.

Section Ops.
Variable maxl : nat.       (* Generated maxLinks *)

Definition gn (f : fs) (p : path) : fres nat := getnode maxl f (p_comps p).
Definition gnode (f : fs) (p : path) : fres node :=
  fdo i <- gn f p; match get f i with Some n => FOk n | None => FErr end.

Definition is_dir (n : node) : bool := kind_eqb (nkind n) KDir.

(* Stat and Lstat are the same function in both filesystems: getNode already
   resolved the final symlink *)
Definition stat (f : fs) (p : path) : fres node := gnode f p.

Definition new_dir (perm : N) : node := mkNode KDir perm 0 0 "" "" [] "".

Definition mkdir (f : fs) (p : path) (perm : N) : fres fs :=
  fdo d <- gn f (pdir p);
  match get f d, pbase p with
  | Some dn, Some b =>
      if negb (is_dir dn) then FErr
      else match lookup b (nchildren dn) with
           | Some _ => FErr                       (* ErrExist *)
           | None => FOk (fst (new_child f d b (new_dir perm)))
           end
  | _, _ => FErr
  end.

(* MkdirAll: creates what is missing with [perm]; existing symlinks are
   resolved (depth counter restarted); a non-directory on the way is an error *)
Fixpoint mkdirall_from (f : fs) (cur : nat) (trav ps : list string) (perm : N) : fres fs :=
  match ps with
  | [] => FOk f
  | p :: ps' =>
      match get f cur with
      | None => FErr
      | Some n =>
          match lookup p (nchildren n) with
          | None =>
              if String.eqb p "." || String.eqb p ".." then FErr   (* outside the model, see header *)
              else let (f', i) := new_child f cur p (new_dir perm) in
                   mkdirall_from f' i (trav ++ [p]) ps' perm
          | Some c =>
              match get f c with
              | None => FErr
              | Some cn =>
                  match nkind cn with
                  | KSym =>
                      fdo c' <- getnode maxl f (link_comps trav (ntarget cn));
                      match get f c' with
                      | Some tn => if is_dir tn then mkdirall_from f c' (trav ++ [p]) ps' perm else FErr
                      | None => FErr
                      end
                  | KDir => mkdirall_from f c (trav ++ [p]) ps' perm
                  | _ => FErr
                  end
              end
          end
      end
  end.
Definition mkdirall (f : fs) (p : path) (perm : N) : fres fs :=
  mkdirall_from f root_ino [] (p_comps p) perm.

Definition upd_res (f : fs) (i : nat) (g : node -> node) : fres fs :=
  match get f i with Some n => FOk (set_nth f i (g n)) | None => FErr end.
Definition chmod (f : fs) (p : path) (perm : N) : fres fs :=
  fdo i <- gn f p; upd_res f i (fun n => with_perm n perm).
Definition chown (f : fs) (p : path) (u g : N) : fres fs :=
  fdo i <- gn f p; upd_res f i (fun n => with_owner n u g).

(* openFile with O_CREATE (flags differ only in O_TRUNC): returns the inode of
   the regular file finally opened; follows symlinks at the last component up
   to maxLinks times, creating the target of a dangling link *)
Fixpoint openfile (k : nat) (f : fs) (p : path) (perm : N) : fres (fs * nat) :=
  fdo d <- gn f (pdir p);
  match get f d, pbase p with
  | Some dn, Some b =>
      if negb (is_dir dn) then FErr
      else match lookup b (nchildren dn) with
           | None =>
               let (f', i) := new_child f d b (mkNode KFile perm 0 0 "" "" [] "") in FOk (f', i)
           | Some c =>
               match get f c with
               | None => FErr
               | Some cn =>
                   match nkind cn with
                   | KDir => FErr
                   | KSym =>
                       match k with
                       | O => FErr           (* too many links *)
                       | S k' =>
                           let tgt := ntarget cn in
                           let p' := if is_abs tgt then path_of tgt
                                     else mkPath (p_abs p) (clean (p_abs p) (p_comps (pdir p) ++ parts tgt)) false in
                           openfile k' f p' perm
                       end
                   | _ => FOk (f, c)
                   end
               end
           end
  | _, _ => FErr
  end.

(* OpenFile(O_RDONLY|O_CREATE, perm) followed by reading everything *)
Definition read_or_create (f : fs) (p : path) (perm : N) : fres (fs * string) :=
  fdo r <- openfile maxl f p perm;
  let (f', i) := r in
  match get f' i with Some n => FOk (f', edata n) | None => FErr end.

(* Create (O_CREATE|O_TRUNC|O_RDWR, 0o666) then write [content], close *)
Definition create_perm : N := 438.   (* 0o666 *)
Definition create_write (f : fs) (p : path) (content : string) : fres fs :=
  fdo r <- openfile maxl f p create_perm;
  let (f', i) := r in FOk (upd f' i (fun n => trunc_write n content)).

Definition symlink (f : fs) (target : string) (p : path) : fres fs :=
  fdo d <- gn f (pdir p);
  match get f d, pbase p with
  | Some dn, Some b =>
      if negb (is_dir dn) then FErr   (* Go would panic on a nil map; unreachable after ensureParentDirectory *)
      else match lookup b (nchildren dn) with
           | Some _ => FErr
           | None => FOk (fst (new_child f d b (mkNode KSym 511 0 0 target "" [] "")))
           end
  | _, _ => FErr
  end.

(* Link shares the node *)
Definition link (f : fs) (old new : path) : fres fs :=
  fdo d <- gn f (pdir new);
  match gn f old with
  | FOk t =>
      match get f d, pbase new with
      | Some dn, Some b =>
          if negb (is_dir dn) then FErr
          else match lookup b (nchildren dn) with
               | Some _ => FErr
               | None => FOk (add_child f d b t)
               end
      | _, _ => FErr
      end
  | FFuel => FFuel
  | _ => FNotExist
  end.

Definition remove (f : fs) (p : path) : fres fs :=
  fdo d <- gn f (pdir p);
  match get f d, pbase p with
  | Some dn, Some b =>
      match lookup b (nchildren dn) with
      | None => FNotExist
      | Some _ => FOk (upd f d (fun n => with_children n (remove_child b (nchildren n))))
      end
  | _, _ => FErr
  end.

(* the entry stored under a path, NOT resolving a final symlink (what ReadDir of
   the parent shows) *)
Definition direct (f : fs) (p : path) : fres node :=
  match pbase p with
  | None => gnode f p
  | Some b =>
      fdo dn <- gnode f (pdir p);
      match lookup b (nchildren dn) with
      | None => FNotExist
      | Some c => match get f c with Some n => FOk n | None => FErr end
      end
  end.

End Ops.

(* ---- dumping a tree (what a recursive ReadDir from "." sees) -------------- *)
Record dentry := mkDentry {
  d_path : string; d_kind : kind; d_perm : N; d_uid : N; d_gid : N; d_target : string; d_size : N
}.
Definition strlen (s : string) : N := N.of_nat (String.length s).
Definition dentry_of (pth : string) (n : node) : dentry :=
  mkDentry pth (nkind n) (nperm n) (nuid n) (ngid n) (ntarget n) (strlen (edata n)).
Definition join_path (dir nm : string) : string :=
  if String.eqb dir "" then nm else dir ++ "/" ++ nm.

Fixpoint dump_from (fuel : nat) (f : fs) (i : nat) (pth : string) : list dentry :=
  match fuel with
  | O => []
  | S fuel' =>
      match get f i with
      | None => []
      | Some n =>
          List.concat (List.map (fun kv : string * nat =>
            let (nm, c) := kv in
            match get f c with
            | None => []
            | Some cn =>
                dentry_of (join_path pth nm) cn ::
                (if kind_eqb (nkind cn) KDir then dump_from fuel' f c (join_path pth nm) else [])
            end) (nchildren n))
      end
  end.
Definition dump (f : fs) : list dentry := dump_from (S (List.length f)) f root_ino "".

Definition dentry_eqb (a b : dentry) : bool :=
  String.eqb (d_path a) (d_path b) && kind_eqb (d_kind a) (d_kind b) && N.eqb (d_perm a) (d_perm b) &&
  N.eqb (d_uid a) (d_uid b) && N.eqb (d_gid a) (d_gid b) && String.eqb (d_target a) (d_target b) &&
  N.eqb (d_size a) (d_size b).
Definition dump_same (a b : list dentry) : bool :=
  Nat.eqb (List.length a) (List.length b) &&
  forallb (fun x => existsb (dentry_eqb x) b) a && forallb (fun x => existsb (dentry_eqb x) a) b.

(* ---- the layer: what tar.FileInfoHeader keeps of a node's mode ------------
   Perm() (the low nine bits) plus Go's own ModeSetuid/ModeSetgid/ModeSticky,
   which Chmod(fs.FileMode(perms)) never sets for perms < 2^19. *)
Definition layer_mode (perm : N) : N := N.land perm 511.
Definition layer_entry_of (d : dentry) : dentry :=
  mkDentry (d_path d) (d_kind d) (layer_mode (d_perm d)) (d_uid d) (d_gid d) (d_target d)
           (match d_kind d with KFile => d_size d | _ => 0%N end).
Definition layer_of (f : fs) : list dentry := List.map layer_entry_of (dump f).
