(* C19 — executable model of apko's on-disk package cache
   (pkg/apk/apk/cache.go retrieveAndSaveFile / fetchOffline, pkg/paths/paths.go
   AdvertiseCachedFile, pkg/apk/apk/implementation.go cachePackage /
   cachedPackage, pkg/apk/expandapk/expandapk.go ExpandApk / PackageData).

   An abstract disk, the population protocols of one builder as lists of
   atomic steps, a system of N builders sharing the disk, the readers.
   A crash is a builder that is never scheduled again.  No proofs here. *)
From Apko Require Import Base.Prelude.
Open Scope string_scope. Open Scope list_scope.

(* File contents are sequences of opaque chunks (one write each).  The
   harness abstracts a real file to the one-chunk content [sha256 of its
   bytes]; a truncated file therefore never equals the origin's content. *)
Definition chunk := string.
Definition content := list chunk.

(* the four members of an expanded package kept in the cache *)
Inductive member := MCtl | MSig | MDat | MTar.

(* Paths below the cache root.  Temporary names carry the identity [o] of the
   protocol instance that created them: os.CreateTemp / os.MkdirTemp use
   O_EXCL, so two live instances never share a temporary name (modelling
   assumption: a name is not handed out again while something refers to it;
   the only names ever removed are unadvertised ones, see AdvertiseCachedFile). *)
Inductive path :=
| PDir (d : string)                                (* a cache directory: <repo>/<arch>/APKINDEX, <repo>/<arch>/<pkg> *)
| PTmpFile (d : string) (o : nat)                  (* CreateTemp(d, "*.tmp") *)
| PTmpDir (d : string) (o : nat)                   (* MkdirTemp(d, "expand-apk") *)
| PTmpMem (d : string) (o : nat) (m : member)      (* <tmpdir>/stream-k.tar.gz, stream-k.tar *)
| PIndex (d : string) (etag : string)              (* d/<etag>.tar.gz (APKINDEX) or d/<etag>.etag *)
| PMember (d : string) (m : member) (h : string).  (* d/<h>.ctl.tar.gz .sig.tar.gz .dat.tar.gz .dat.tar *)

Definition member_eq_dec (a b : member) : {a = b} + {a <> b}.
Proof. decide equality. Defined.
Definition path_eq_dec (a b : path) : {a = b} + {a <> b}.
Proof. decide equality; try apply string_dec; try apply Nat.eq_dec; apply member_eq_dec. Defined.

(* names under which cache entries are ADVERTISED (looked up by readers) *)
Definition is_adv (p : path) : bool :=
  match p with PIndex _ _ | PMember _ _ _ => true | _ => false end.

(* the protocol instance a temporary name belongs to *)
Definition owner (p : path) : option nat :=
  match p with PTmpFile _ o | PTmpDir _ o | PTmpMem _ o _ => Some o | _ => None end.

Inductive obj :=
| File (c : content) (complete : bool)   (* complete = written in full and closed *)
| Link (target : path)
| Dir.

Definition disk := path -> option obj.
Definition empty_disk : disk := fun _ => None.
Definition upd (d : disk) (p : path) (o : option obj) : disk :=
  fun q => if path_eq_dec q p then o else d q.

(* os.Stat / os.Open: follow one symbolic link (advertised names only ever
   point at regular temporary files) *)
Definition resolve (d : disk) (p : path) : option (content * bool) :=
  match d p with
  | Some (File c b) => Some (c, b)
  | Some (Link t) => match d t with Some (File c b) => Some (c, b) | _ => None end
  | _ => None
  end.

Inductive astep :=
| MkdirAll (p : path)
| MkTemp (p : path)                 (* MkdirTemp *)
| Create (p : path)                 (* CreateTemp / os.Create of a fresh temporary name *)
| Append (p : path) (c : chunk)     (* one write through the open descriptor *)
| Close (p : path)
| Advertise (src dst : path)        (* AdvertiseCachedFile: the os.Stat(dst); continues with Remove or Symlink *)
| Remove (p : path)                 (* os.Remove(src), error ignored *)
| Symlink (src dst : path)          (* os.Symlink(rel(src), dst), EEXIST tolerated *)
| Rebuild (gz tar tmp : path)       (* PackageData: os.Open(tar); on ENOENT decompress gz into the temporary
                                       file tmp (CreateTemp next to tar) and publish it with Rename *)
| Rename (src dst : path)           (* os.Rename: atomic, replaces whatever is at dst *)
(* the index download of cacheTransport.fetchAndCache: HEAD, os.Stat of the name the
   HEAD's etag stands for, GET.  [byhead]/[name] select the etag that NAMES the
   downloaded file: the code today uses the etag of the GET response
   ([false]/[None]); [true]/[Some e] is the variant that files the body under
   the HEAD's etag (refuted in c19_head_etag_refuted). *)
| Head (o : nat) (dir : string) (byhead : bool)
| IdxStat (o : nat) (dir : string) (etag : string) (byhead : bool)
| Get (o : nat) (dir : string) (name : option string).

(* create, write chunk by chunk, close *)
Definition write_file (p : path) (c : content) : list astep :=
  Create p :: List.map (Append p) c ++ [Close p].

(* a sequence of AdvertiseCachedFile calls *)
Definition adv_steps (l : list (path * path)) : list astep :=
  List.map (fun st => Advertise (fst st) (snd st)) l.

(* cacheTransport.retrieveAndSaveFile for a response carrying [etag] and
   [body]: MkdirAll, CreateTemp, io.Copy, Close, AdvertiseCachedFile. *)
Definition populate_index (o : nat) (d etag : string) (body : content) : list astep :=
  MkdirAll (PDir d) :: write_file (PTmpFile d o) body ++
  adv_steps [(PTmpFile d o, PIndex d etag)].

(* The origin's index revision can change between any two steps: at (global)
   step number [t] a request for the index of directory [dir] is answered with
   [srv t dir] = (etag, body).  Nothing relates [srv t] and [srv (S t)]. *)
Definition server := nat -> string -> string * content.

Section Exec.
Variable gunzip : content -> content.

Definition exec (d : disk) (a : astep) : disk * list astep :=
  match a with
  | MkdirAll p | MkTemp p => (match d p with None => upd d p (Some Dir) | Some _ => d end, [])
  | Create p => (upd d p (Some (File [] false)), [])
  | Append p c =>
      (match d p with Some (File x _) => upd d p (Some (File (x ++ [c]) false)) | _ => d end, [])
  | Close p =>
      (match d p with Some (File x _) => upd d p (Some (File x true)) | _ => d end, [])
  | Advertise src dst =>
      (d, match resolve d dst with Some _ => [Remove src] | None => [Symlink src dst] end)
  | Remove p => (upd d p None, [])
  | Symlink src dst =>
      (match d dst with None => upd d dst (Some (Link src)) | Some _ => d end, [])
  | Rebuild gz tar tmp =>
      (d, match resolve d tar with
          | Some _ => []
          | None => match resolve d gz with
                    | Some (z, _) => write_file tmp (gunzip z) ++ [Rename tmp tar]
                    | None => []           (* error: the build fails *)
                    end
          end)
  | Rename src dst =>
      (match d src with Some x => upd (upd d dst (Some x)) src None | None => d end, [])
  (* cacheTransport.get: os.Stat(<name of the HEAD's etag>) — present: that file is
     used, nothing is downloaded; absent: GET *)
  | IdxStat o dir e byhead =>
      (d, match resolve d (PIndex dir e) with
          | Some _ => []
          | None => [Get o dir (if byhead then Some e else None)]
          end)
  | Head _ _ _ | Get _ _ _ => (d, [])      (* need the origin: see exec_t *)
  end.

(* the steps that talk to the origin, at time [now] *)
Variable srv : server.
Definition exec_t (now : nat) (d : disk) (a : astep) : disk * list astep :=
  match a with
  | Head o dir byhead => (d, [IdxStat o dir (fst (srv now dir)) byhead])
  | Get o dir name =>
      (* retrieveAndSaveFile: the response carries an etag and a body; the cachePlacer
         callback names the file *)
      let (e2, body) := srv now dir in
      (d, populate_index o dir (match name with Some e => e | None => e2 end) body)
  | _ => exec d a
  end.

(* ---- a system of builders sharing one disk ---------------------------- *)
Record sys := { dsk : disk; procs : list (list astep); clk : nat }.

Fixpoint set_nth {A} (l : list A) (i : nat) (x : A) : list A :=
  match l, i with
  | [], _ => []
  | _ :: t, O => x :: t
  | h :: t, S i' => h :: set_nth t i' x
  end.

(* builder [i] performs its next atomic step (only the clock ticks if it has
   finished or does not exist: the origin may move on while nobody does anything) *)
Definition step (s : sys) (i : nat) : sys :=
  match nth_error (procs s) i with
  | Some (a :: rest) =>
      let (d', pre) := exec_t (clk s) (dsk s) a in
      {| dsk := d'; procs := set_nth (procs s) i (pre ++ rest); clk := S (clk s) |}
  | _ => {| dsk := dsk s; procs := procs s; clk := S (clk s) |}
  end.

(* a schedule = which builder moves next; a builder that crashes simply does
   not appear in the schedule any more *)
Definition run (s : sys) (sched : list nat) : sys := fold_left step sched s.

Definition init (bs : list (list astep)) : sys := {| dsk := empty_disk; procs := bs; clk := 0 |}.
End Exec.

(* ---- the population protocols ------------------------------------------ *)

(* what one .apk consists of, with the names its sections get in the cache *)
Record apk := {
  a_sig : option content;     (* signature section (absent for unsigned packages) *)
  a_ctl : content;            (* control section, gzip member *)
  a_dat : content;            (* data section, gzip member *)
  a_tar : content;            (* the data section decompressed *)
  a_ctlh : string;            (* hex SHA-1 of the control section *)
  a_dath : string             (* hex SHA-256 of the data section *)
}.

(* the data section is written to stream-k.tar.gz and, decompressed, to
   stream-k.tar at the same time; [mix] is one interleaving of the writes *)
Fixpoint mix (p q : path) (a b : content) : list astep :=
  match a, b with
  | [], _ => List.map (Append q) b
  | x :: a', [] => Append p x :: List.map (Append p) a'
  | x :: a', y :: b' => Append p x :: Append q y :: mix p q a' b'
  end.

(* the PackageData call that ends cachePackage and cachedPackage; its temporary
   file is <dir>/NNN.tmp *)
Definition open_tar (o : nat) (d : string) (dath : string) : list astep :=
  [Rebuild (PMember d MDat dath) (PMember d MTar dath) (PTmpFile d o)].

(* cachePackage until fix 6729dee: control, signature (if any), data, tar — in this order *)
Definition pkg_advs (o : nat) (d : string) (a : apk) : list (path * path) :=
  [(PTmpMem d o MCtl, PMember d MCtl (a_ctlh a))] ++
  (match a_sig a with Some _ => [(PTmpMem d o MSig, PMember d MSig (a_ctlh a))] | None => [] end) ++
  [(PTmpMem d o MDat, PMember d MDat (a_dath a));
   (PTmpMem d o MTar, PMember d MTar (a_dath a))].

(* cachePackage since fix 6729dee (fixes/C19-F2.patch, the repair of findings C19-F2/F3):
   the control section — the name a lookup starts from — is advertised LAST.  Which of the
   two orders the source of a run has is read by goextract (ctl_last_of_calls). *)
Definition pkg_advs_ctl_last (o : nat) (d : string) (a : apk) : list (path * path) :=
  (match a_sig a with Some _ => [(PTmpMem d o MSig, PMember d MSig (a_ctlh a))] | None => [] end) ++
  [(PTmpMem d o MDat, PMember d MDat (a_dath a));
   (PTmpMem d o MTar, PMember d MTar (a_dath a));
   (PTmpMem d o MCtl, PMember d MCtl (a_ctlh a))].
Definition pkg_advs_ord (ctl_last : bool) := if ctl_last then pkg_advs_ctl_last else pkg_advs.

(* expandPackage on a miss: MkdirAll, ExpandApk (MkdirTemp, the stream files,
   the tar file), then cachePackage (the AdvertiseCachedFile calls) *)
Definition populate_package_ord (ctl_last : bool) (o : nat) (d : string) (a : apk) : list astep :=
  let t := fun m => PTmpMem d o m in
  [MkdirAll (PDir d); MkTemp (PTmpDir d o)] ++
  (match a_sig a with Some s => write_file (t MSig) s | None => [] end) ++
  write_file (t MCtl) (a_ctl a) ++
  (Create (t MDat) :: Create (t MTar) :: mix (t MDat) (t MTar) (a_dat a) (a_tar a) ++
   Close (t MTar) :: Close (t MDat) :: adv_steps (pkg_advs_ord ctl_last o d a) ++ open_tar o d (a_dath a)).
(* the order before 6729dee: control section first (kept: the refutations C19-F2/F3 are about it) *)
Definition populate_package := populate_package_ord false.


(* ---- builders ---------------------------------------------------------------
   One protocol instance each.  [origin n] is what the origin serves for the
   key the advertised name [n] stands for.  A reader is cachedPackage on a
   directory where control and data sections are present: its only effect on
   the disk is PackageData's rebuild of <hash>.dat.tar when that is missing. *)
Inductive builder :=
| BIndex (dir : string)                 (* HEAD, Stat, GET + retrieveAndSaveFile: which revision it gets is the origin's choice *)
| BPackage (dir : string) (a : apk)
| BReader (dir dath : string).

Definition is_reader (b : builder) : bool := match b with BReader _ _ => true | _ => false end.

Definition prog_of_ord (ctl_last : bool) (o : nat) (b : builder) : list astep :=
  match b with
  | BIndex dir => [Head o dir false]
  | BPackage dir a => populate_package_ord ctl_last o dir a
  | BReader dir dath => open_tar o dir dath
  end.
Definition prog_of := prog_of_ord false.

(* builder number k gets temporary-name identity k *)
Fixpoint progs_from (ctl_last : bool) (o : nat) (bs : list builder) : list (list astep) :=
  match bs with
  | [] => []
  | b :: t => prog_of_ord ctl_last o b :: progs_from ctl_last (S o) t
  end.
Definition progs_ord (ctl_last : bool) (bs : list builder) := progs_from ctl_last 0 bs.
Definition progs := progs_ord false.

(* ---- the readers --------------------------------------------------------- *)
Record members := { m_ctl : content; m_sig : option content; m_dat : content; m_tar : content }.
Inductive lookup := Miss | NeedsRebuild | Hit (m : members).

(* cachedPackage: [datahash_of] reads "datahash" out of the control section *)
Definition read_package (datahash_of : content -> string) (d : disk) (dir ctlh : string) : lookup :=
  match resolve d (PMember dir MCtl ctlh) with
  | None => Miss
  | Some (ctl, _) =>
      let sg := match resolve d (PMember dir MSig ctlh) with Some (s, _) => Some s | None => None end in
      let dh := datahash_of ctl in
      match resolve d (PMember dir MDat dh) with
      | None => Miss
      | Some (dat, _) =>
          match resolve d (PMember dir MTar dh) with
          | Some (tar, _) => Hit {| m_ctl := ctl; m_sig := sg; m_dat := dat; m_tar := tar |}
          | None => NeedsRebuild      (* PackageData rebuilds <hash>.dat.tar (temporary file + rename) *)
          end
      end
  end.

(* cachedPackage is NOT one atomic look at the directory: control and signature
   are looked up first (state d1), data and tar later (state d2, after other
   builders have moved) *)
Definition read_package_seq (datahash_of : content -> string) (d1 d2 : disk) (dir ctlh : string) : lookup :=
  match resolve d1 (PMember dir MCtl ctlh) with
  | None => Miss
  | Some (ctl, _) =>
      let sg := match resolve d1 (PMember dir MSig ctlh) with Some (s, _) => Some s | None => None end in
      let dh := datahash_of ctl in
      match resolve d2 (PMember dir MDat dh) with
      | None => Miss
      | Some (dat, _) =>
          match resolve d2 (PMember dir MTar dh) with
          | Some (tar, _) => Hit {| m_ctl := ctl; m_sig := sg; m_dat := dat; m_tar := tar |}
          | None => NeedsRebuild
          end
      end
  end.

(* in full generality: the four sections are looked up in four states (the
   order of cachedPackage: control, signature, data, tar) *)
Definition read_package_seq4 (datahash_of : content -> string) (d1 d2 d3 d4 : disk) (dir ctlh : string) : lookup :=
  match resolve d1 (PMember dir MCtl ctlh) with
  | None => Miss
  | Some (ctl, _) =>
      let sg := match resolve d2 (PMember dir MSig ctlh) with Some (s, _) => Some s | None => None end in
      let dh := datahash_of ctl in
      match resolve d3 (PMember dir MDat dh) with
      | None => Miss
      | Some (dat, _) =>
          match resolve d4 (PMember dir MTar dh) with
          | Some (tar, _) => Hit {| m_ctl := ctl; m_sig := sg; m_dat := dat; m_tar := tar |}
          | None => NeedsRebuild
          end
      end
  end.

(* the online index lookup: os.Stat(<etag file>) then os.Open *)
Definition read_index (d : disk) (dir etag : string) : option (content * bool) :=
  resolve d (PIndex dir etag).

(* fetchOffline opens the directory entry with the newest mtime, whatever its
   name; the model has no clocks, so the chosen entry [e] is a parameter *)
Definition read_offline (d : disk) (e : path) : option (content * bool) := resolve d e.

(* ---- trace conformance ---------------------------------------------------
   What a real builder did, abstracted from its system calls.  Writes are
   checked separately (they must hit files that are open for writing), so the
   number and size of write calls is not compared. *)
Inductive tev :=
| TMkdir (p : path)
| TCreate (p : path)
| TWrite (p : path)
| TClose (p : path)
| TStat (p : path) (found : bool)
| TRemove (p : path)
| TSymlink (src dst : path) (eexist : bool)
| TRename (src dst : path).

Definition path_eqb (a b : path) : bool := if path_eq_dec a b then true else false.

Definition is_append (a : astep) : bool := match a with Append _ _ => true | _ => false end.
Definition is_twrite (e : tev) : bool := match e with TWrite _ => true | _ => false end.

(* control skeleton: the program without its Append steps against the trace
   without its write events; Advertise consumes the observed Stat and then
   expects the branch the real code took *)
Fixpoint accepts_skel (prog : list astep) (tr : list tev) : bool :=
  match prog, tr with
  | [], [] => true
  | MkTemp p :: prog', TMkdir q :: tr' => path_eqb p q && accepts_skel prog' tr'
  | Create p :: prog', TCreate q :: tr' => path_eqb p q && accepts_skel prog' tr'
  | Close p :: prog', TClose q :: tr' => path_eqb p q && accepts_skel prog' tr'
  | Advertise src dst :: prog', TStat q true :: TRemove r :: tr' =>
      path_eqb dst q && path_eqb src r && accepts_skel prog' tr'
  | Advertise src dst :: prog', TStat q false :: TSymlink s t _ :: tr' =>
      path_eqb dst q && path_eqb src s && path_eqb dst t && accepts_skel prog' tr'
  (* PackageData: either the tar was there (no event), or temporary file + rename *)
  | Rebuild _ tar tmp :: prog', TCreate q :: TClose q' :: TRename r t :: tr' =>
      path_eqb tmp q && path_eqb tmp q' && path_eqb tmp r && path_eqb tar t && accepts_skel prog' tr'
  | Rebuild _ _ _ :: prog', _ => accepts_skel prog' tr
  | _, _ => false
  end.

(* every write hits a file that is currently open for writing *)
Fixpoint writes_open (opened : list path) (tr : list tev) : bool :=
  match tr with
  | [] => true
  | TCreate p :: tr' => writes_open (p :: opened) tr'
  | TClose p :: tr' => writes_open (List.filter (fun q => negb (path_eqb p q)) opened) tr'
  | TWrite p :: tr' => List.existsb (path_eqb p) opened && writes_open opened tr'
  | _ :: tr' => writes_open opened tr'
  end.

(* MkdirAll of a cache directory is not compared either: it issues mkdir only
   for the components that are missing *)
Definition is_mkdirall (a : astep) : bool := match a with MkdirAll _ => true | _ => false end.

Definition accepts (prog : list astep) (tr : list tev) : bool :=
  accepts_skel (List.filter (fun a => negb (is_append a || is_mkdirall a)) prog)
               (List.filter (fun e => negb (is_twrite e)) tr)
  && writes_open [] tr.

(* ---- the Go calls the steps stand for (compared with the call order that
   goextract reads from the source on every run) ----------------------------- *)
Definition member_field (m : member) : string :=
  match m with MCtl => "ControlFile" | MSig => "SignatureFile" | MDat => "PackageFile" | MTar => "TarFile" end.
Definition member_of_path (p : path) : member :=
  match p with PTmpMem _ _ m | PMember _ m _ => m | _ => MCtl end.

(* retrieveAndSaveFile: consecutive writes are one io.Copy; Close is deferred *)
Fixpoint index_calls (prog : list astep) (copying : bool) : list string :=
  match prog with
  | [] => []
  | MkdirAll _ :: r => "os.MkdirAll" :: index_calls r false
  | Create _ :: r => "os.CreateTemp" :: index_calls r false
  | Append _ _ :: r => if copying then index_calls r true else "io.Copy" :: index_calls r true
  | Close _ :: r => index_calls r false
  | Advertise _ _ :: r => "paths.AdvertiseCachedFile" :: index_calls r false
  | _ :: r => "?" :: index_calls r false
  end.

Definition advertise_call_names : list string :=
  "os.Stat" :: List.map (fun a => match a with Remove _ => "os.Remove" | Symlink _ _ => "os.Symlink" | _ => "?" end)
                        [Remove (PDir ""); Symlink (PDir "") (PDir "")].

Local Infix "+s+" := String.append (at level 60, right associativity).
Definition cache_package_call_names (advs : list (path * path)) : list string :=
  List.map (fun st => "paths.AdvertiseCachedFile(" +s+ member_field (member_of_path (fst st)) +s+ ")") advs.

(* which of the two orders of cachePackage the source has: the control section
   is advertised last iff the last AdvertiseCachedFile call is the ControlFile's
   (the order itself is compared in full by c19_code_order) *)
Definition ctl_last_of_calls (calls : list string) : bool :=
  match List.rev calls with
  | c :: _ => String.eqb c ("paths.AdvertiseCachedFile(" +s+ member_field MCtl +s+ ")")
  | [] => false
  end.

(* PackageData as modelled by [Rebuild]: open the tar; else open the data
   section, create a TEMPORARY file, copy, rename it to the final name, reopen
   (os.Remove calls are the error paths and are not compared) *)
Definition package_data_call_names : list string :=
  ["os.Open(" +s+ member_field MTar +s+ ")"; "os.Open(" +s+ member_field MDat +s+ ")";
   "os.CreateTemp(_)"; "io.CopyBuffer(_)"; "os.Rename(" +s+ member_field MTar +s+ ")";
   "os.Open(" +s+ member_field MTar +s+ ")"].
Definition not_remove (c : string) : bool := negb (String.prefix "os.Remove(" c).

(* ---- what the index-download steps and the temporary names stand for in the
   source (compared with what goextract reads on every run) ------------------- *)

(* [Get o dir name]: which etag names the file.  The code today: the etag of the
   response handed to the cachePlacer callback, which is the response whose
   body io.Copy reads. *)
Definition name_source (name : option string) : string :=
  match name with
  | None => "etag-of-the-response-handed-to-the-callback"
  | Some _ => "etag-from-outside-the-callback:initialEtag"
  end.
(* the program of a builder after its HEAD and a Stat that misses (run on an
   empty disk against an origin that serves nothing): for an index download
   this is the Get step, whose [name] says which etag will name the file *)
Definition after_head_and_miss (b : builder) : list astep :=
  match procs (run (fun z => z) (fun _ _ => ("", [])) (init (progs [b])) [0; 0]) with
  | [p] => p
  | _ => []
  end.
Definition name_sources_of (prog : list astep) : list string :=
  List.flat_map (fun a => match a with Get _ _ nm => [name_source nm] | _ => [] end) prog.
Definition response_flow_model : list string := ["placer(R)"; "io.Copy(_, R.Body)"].

(* [PTmpFile d o], [PTmpDir d o]: a fresh name per protocol instance, i.e.
   os.CreateTemp / os.MkdirTemp; [PTmpMem d o m]: fixed names inside that
   private directory *)
Definition temp_name_call (p : path) : string :=
  match p with
  | PTmpFile _ _ => "os.CreateTemp(*.tmp)"
  | PTmpDir _ _ => "os.MkdirTemp(expand-apk)"
  | PTmpMem _ _ _ => "os.Create(_)"
  | _ => "?"
  end.
Local Infix "+s+" := String.append (at level 60, right associativity).
Definition temp_sites_model : list string :=
  ["retrieveAndSaveFile:" +s+ temp_name_call (PTmpFile "" 0);     (* populate_index *)
   "PackageData:" +s+ temp_name_call (PTmpFile "" 0);             (* Rebuild's tmp *)
   "ExpandApk:" +s+ temp_name_call (PTmpDir "" 0);                (* populate_package *)
   "ExpandApk:" +s+ temp_name_call (PTmpMem "" 0 MTar)].          (* the tar next to the stream files *)
Definition temp_flows_model : list string :=
  ["retrieveAndSaveFile:advertise-src=result-of-os.CreateTemp";
   "PackageData:rename-src=result-of-os.CreateTemp";
   "ExpandApk:stream-files-dir=result-of-os.MkdirTemp"].
