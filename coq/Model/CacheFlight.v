(* C19 — request coalescing inside one process and the offline choice of an entry.

   1. ONE model object for the four coalescing mechanisms of pkg/apk/apk:
        singleflight.Group            (Cache.headFlight / getFlight)          [MNone]
        flightCache[T].Do             (Cache.discoverKeys; cache.go)           [MSuccess, recheck]
        etagCache + headFlight        (cacheTransport.head with NewCache(true)) [MSuccess, no recheck]
        sync.Once + result map        (apkCache.get, implementation.go)        [MSuccess, recheck: a failed
                                      entry's once is forgotten, fix 6e5c862; MAll before it]
      Concurrent callers of one key get ONE execution of fn; what is memoised
      afterwards depends on the mechanism: nothing, successes only, or every
      result.  The events are the atomic steps of the Go code: the fast-path
      Load, the entry into flight.Do (join a running flight, or become the
      leader: optionally look at the memo again, then call fn), and the end of
      an execution of fn with an outcome chosen by the environment.
   2. fetchOffline's choice among the entries of a cache directory: the first
      entry in listing order whose modification time is not exceeded by any
      other (time.After is strict).
   No proofs here. *)
From Apko Require Import Base.Prelude.
Open Scope string_scope. Open Scope list_scope.

(* ---- 1. flights -------------------------------------------------------------- *)
Inductive outcome := OOk (v : string) | OErr (e : string).
Definition outcome_eqb (a b : outcome) : bool :=
  match a, b with
  | OOk x, OOk y | OErr x, OErr y => String.eqb x y
  | _, _ => false
  end.
Definition is_ok (o : outcome) : bool := match o with OOk _ => true | OErr _ => false end.

Inductive memo_mode := MNone | MSuccess | MAll.

Record fconf := { f_mode : memo_mode; f_recheck : bool }.
(* flightCache.Do: successes are stored; the callback looks at the map again *)
Definition conf_flight_cache := {| f_mode := MSuccess; f_recheck := true |}.
(* cacheTransport.head with an etag cache: load; headFlight.Do(fn: HEAD, store) *)
Definition conf_head_etag := {| f_mode := MSuccess; f_recheck := false |}.
(* a bare singleflight group (headFlight without etag cache, getFlight) *)
Definition conf_singleflight := {| f_mode := MNone; f_recheck := false |}.
(* sync.Once per key + a map of results that keeps errors too (HYPOTHETICAL today: apkCache.get
   before fix 6e5c862, finding C19-F4): Once.Do looks at its done flag under the lock, so
   nothing is executed twice *)
Definition conf_once := {| f_mode := MAll; f_recheck := true |}.

Definition keeps (m : memo_mode) (o : outcome) : bool :=
  match m with MNone => false | MSuccess => is_ok o | MAll => true end.

Record fstate := {
  memo : string -> option outcome;        (* what the map holds *)
  flight : string -> option (list nat);   (* a running execution of fn for the key: its callers, leader first *)
  pending : list (nat * string);          (* callers whose fast-path Load missed and who have not entered flight.Do yet *)
  started : list string;                  (* keys for which an execution of fn was started, latest first *)
  execs : list (string * outcome);        (* finished executions, latest first *)
  rets : list (nat * string * outcome)    (* what each caller was handed, latest first *)
}.
Definition finit : fstate :=
  {| memo := fun _ => None; flight := fun _ => None; pending := []; started := []; execs := []; rets := [] |}.

Definition supd {A} (f : string -> option A) (k : string) (v : option A) : string -> option A :=
  fun q => if String.eqb q k then v else f q.

Definition ck_eqb (a b : nat * string) : bool := Nat.eqb (fst a) (fst b) && String.eqb (snd a) (snd b).
Definition is_pending (s : fstate) (c : nat) (k : string) : bool := List.existsb (ck_eqb (c, k)) (pending s).
Definition drop_pending (s : fstate) (c : nat) (k : string) : list (nat * string) :=
  List.filter (fun x => negb (ck_eqb (c, k) x)) (pending s).

Inductive fevent :=
| ELoad (c : nat) (k : string)              (* the fast path: map.Load(key); a hit returns, a miss goes on to flight.Do *)
| EEnter (c : nat) (k : string)             (* flight.Do(key, …) of a caller whose Load missed *)
| EFinish (k : string) (o : outcome).       (* fn returns *)

Definition fstep (cf : fconf) (s : fstate) (e : fevent) : fstate :=
  match e with
  | ELoad c k =>
      match (match f_mode cf with MNone => None | _ => memo s k end) with
      | Some o => {| memo := memo s; flight := flight s; pending := pending s; started := started s; execs := execs s;
                     rets := (c, k, o) :: rets s |}
      | None => {| memo := memo s; flight := flight s; pending := (c, k) :: pending s; started := started s;
                   execs := execs s; rets := rets s |}
      end
  | EEnter c k =>
      if negb (is_pending s c k) then s else      (* only a caller whose Load missed gets here *)
      match flight s k with
      | Some ws => {| memo := memo s; flight := supd (flight s) k (Some (ws ++ [c])); pending := drop_pending s c k;
                      started := started s; execs := execs s; rets := rets s |}
      | None =>
          match (if f_recheck cf then memo s k else None) with
          | Some o => {| memo := memo s; flight := flight s; pending := drop_pending s c k; started := started s;
                         execs := execs s; rets := (c, k, o) :: rets s |}
          | None => {| memo := memo s; flight := supd (flight s) k (Some [c]); pending := drop_pending s c k;
                       started := k :: started s; execs := execs s; rets := rets s |}
          end
      end
  | EFinish k o =>
      match flight s k with
      | None => s                              (* nothing is running for k: not an event of this object *)
      | Some ws =>
          {| memo := if keeps (f_mode cf) o then supd (memo s) k (Some o) else memo s;
             flight := supd (flight s) k None;
             pending := pending s;
             started := started s;
             execs := (k, o) :: execs s;
             rets := List.map (fun c => (c, k, o)) (List.rev ws) ++ rets s |}
      end
  end.

Definition frun (cf : fconf) (s : fstate) (tr : list fevent) : fstate := fold_left (fstep cf) tr s.

Definition count_key (k : string) (l : list string) : nat :=
  List.length (List.filter (String.eqb k) l).
Definition execs_of (k : string) (s : fstate) : list outcome :=
  List.map snd (List.filter (fun ko => String.eqb k (fst ko)) (execs s)).

(* one caller going through Do from beginning to end while nobody else moves:
   Load, Enter, and — if that started an execution — its end with outcome [o] *)
Definition call_seq (c : nat) (k : string) (o : outcome) : list fevent :=
  [ELoad c k; EEnter c k; EFinish k o].
(* what caller c was handed for k, most recent first *)
Definition results_of (c : nat) (k : string) (s : fstate) : list outcome :=
  List.map snd (List.filter (fun r => Nat.eqb c (fst (fst r)) && String.eqb k (snd (fst r))) (rets s)).

(* a sequence of calls of Do, one after the other, by callers 0,1,2,…; the k-th
   execution of fn for a key ends with the scripted outcome *)
Fixpoint seq_calls (c : nat) (calls : list (string * outcome)) : list fevent :=
  match calls with
  | [] => []
  | (k, o) :: t => call_seq c k o ++ seq_calls (S c) t
  end.

(* ---- 2. fetchOffline --------------------------------------------------------- *)
(* One directory entry as os.ReadDir + DirEntry.Info (an Lstat) see it.  [de_file]
   names the URL whose bytes the entry holds ("" for an entry nobody can attribute),
   [de_whole] says whether it holds ALL the bytes of one served response. *)
Record dentry := {
  de_name : string;
  de_mtime : N;
  de_adv : bool;          (* an advertised name: <etag>.tar.gz / <etag>.etag (a symbolic link) *)
  de_file : string;
  de_rev : string;        (* the served revision (etag) whose bytes it holds or is a prefix of *)
  de_whole : bool
}.

(* newest := des[0]; for de in des[1:] { if de.ModTime().After(newest.ModTime()) { newest = de } } *)
Definition newer (best e : dentry) : dentry := if N.ltb (de_mtime best) (de_mtime e) then e else best.
Definition pick_newest (l : list dentry) : option dentry :=
  match l with
  | [] => None                      (* "no offline cached entries" *)
  | h :: t => Some (fold_left newer t h)
  end.

(* fetchOffline since fix c5d0145 (was finding C19-F5): names ending in ".tmp" are skipped, only
   advertised names are compared; [pick_newest] over ALL entries is what it did before *)
Definition pick_newest_adv (l : list dentry) : option dentry :=
  pick_newest (List.filter de_adv l).

(* which of the two the source of a run has: goextract lists the `if <name has suffix S> { continue }`
   statements inside the loop over the directory *)
Definition pick_of_filter (filter : list string) : option (list dentry -> option dentry) :=
  match filter with
  | [] => Some pick_newest
  | [f] => if String.eqb f "skip-suffix:.tmp" then Some pick_newest_adv else None
  | _ => None
  end.

(* ---- 3. what the shapes read from the source stand for ------------------------------
   goextract lists, for each coalescing site, the fast-path lookup ("fast:load-return") and
   the top-level statements of the callback handed to the group ("cb:…", see
   harness/cmd/goextract/gen_c19_flight.go). *)
Definition has (x : string) (l : list string) : bool := List.existsb (String.eqb x) l.
Fixpoint after_first (x : string) (l : list string) : option (list string) :=
  match l with
  | [] => None
  | h :: t => if String.eqb h x then Some t else after_first x t
  end.
Fixpoint before_first (x : string) (l : list string) : list string :=
  match l with
  | [] => []
  | h :: t => if String.eqb h x then [] else h :: before_first x t
  end.

Definition conf_of_shape (sh : list string) : option fconf :=
  match after_first "cb:call-fn" sh with
  | None => None                                  (* the callback does not do the work: not a shape we know *)
  | Some rest =>
      let recheck := has "cb:load-return" (before_first "cb:call-fn" sh) in
      let mode :=
        if has "cb:if-err-store-return" rest then MAll
        else match after_first "cb:store" rest with
             | None => MNone
             | Some _ => if has "cb:if-err-return" (before_first "cb:store" rest) then MSuccess else MAll
             end in
      (* a site that memoises must look the memo up before entering the group *)
      match mode with
      | MNone => Some {| f_mode := MNone; f_recheck := recheck |}
      | _ => if has "fast:load-return" sh then Some {| f_mode := mode; f_recheck := recheck |} else None
      end
  end.

(* sync.Once per key (LoadOrStore + Do): the done flag is the memo, looked at under the
   once's lock (recheck); everything is kept unless a failed entry's once is forgotten *)
Definition conf_of_once_shape (sh : list string) : option fconf :=
  if has "once:LoadOrStore" sh && has "once.Do:call-fn" sh && has "once.Do:store-unconditional" sh && has "after:load" sh then
    Some {| f_mode := if has "after:if-err-forget-once" sh then MSuccess else MAll; f_recheck := true |}
  else None.

(* ---- 4. the file name of a cached revision (cacheFileFromEtag) ------------------------
   <dir of the cache file>[/APKINDEX]/<etag><ext>, where [etag] is the base32 text that
   etagFromResponse made of the ETag header.  goextract reads which part of [etag] goes
   into the name ("whole": the parameter itself, never reassigned; "reassigned:…" otherwise)
   and the two extensions.  Path containment of the result is C18's subject, not modelled here. *)
Definition etag_ext (exts : list string) (is_index : bool) : string :=
  match exts, is_index with
  | d :: _, false => d
  | _ :: i :: _, true => i
  | _, _ => ""
  end.
Definition etag_part (use : list string) : option (string -> string) :=
  match use with
  | [u] => if String.eqb u "whole" then Some (fun e => e) else None
  | _ => None
  end.
Definition etag_file_base (part : string -> string) (exts : list string) (is_index : bool) (etag : string) : string :=
  String.append (part etag) (etag_ext exts is_index).
Definition etag_file_name (part : string -> string) (exts : list string) (dir : list string) (is_index : bool) (etag : string) : list string :=
  dir ++ (if is_index then ["APKINDEX"] else []) ++ [etag_file_base part exts is_index etag].
(* HYPOTHETICAL: only the first n characters of the etag go into the name (seeded change C19-8) *)
Definition etag_cut (n : nat) (e : string) : string := String.substring 0 n e.
