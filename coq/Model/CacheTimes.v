(* C19 — modification times over the disk protocol of Model/Cache.v.
   The disk model has no clocks of its own; a RUN has one (clk: one tick per step).  The
   modification time of a path is the clock value of the last step that changed what the disk
   holds at that path — for an advertised name (a symbolic link: DirEntry.Info is an Lstat) the
   step that created the link.  [trun] carries these times along a schedule; nothing of
   Model/Cache.v changes.  No proofs here. *)
From Apko Require Import Base.Prelude Model.Cache Model.CacheFlight.
Open Scope string_scope. Open Scope list_scope.

Definition obj_eq_dec (a b : obj) : {a = b} + {a <> b}.
Proof. decide equality; [apply Bool.bool_dec | apply (list_eq_dec string_dec) | apply path_eq_dec]. Defined.
Definition oobj_eqb (a b : option obj) : bool :=
  match a, b with
  | None, None => true
  | Some x, Some y => if obj_eq_dec x y then true else false
  | _, _ => false
  end.

Definition times := path -> option nat.

Section Times.
Variable gunzip : content -> content.
Variable srv : server.

Definition tstep (st : sys * times) (i : nat) : sys * times :=
  let s := fst st in
  let s' := step gunzip srv s i in
  (s', fun p => if oobj_eqb (dsk s' p) (dsk s p) then snd st p else Some (clk s)).

Definition trun (s : sys) (sched : list nat) : sys * times :=
  fold_left tstep sched (s, fun _ => None).
End Times.

Definition is_index (p : path) : bool := match p with PIndex _ _ => true | _ => false end.

(* what os.ReadDir + Info show of APKINDEX/ as far as the advertised names go: for the names
   [etags] (in listing order) that exist, an entry with the time the run gives it *)
Definition index_entry (d : disk) (tm : times) (dir etag : string) : list dentry :=
  match d (PIndex dir etag), tm (PIndex dir etag) with
  | Some _, Some k =>
      [ {| de_name := etag; de_mtime := N.of_nat k; de_adv := true; de_file := "APKINDEX.tar.gz"; de_rev := etag;
           de_whole := match resolve d (PIndex dir etag) with Some (_, b) => b | None => false end |} ]
  | _, _ => []
  end.
Definition index_listing (d : disk) (tm : times) (dir : string) (etags : list string) : list dentry :=
  List.flat_map (index_entry d tm dir) etags.
