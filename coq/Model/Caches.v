(* C08 — executable model of the process-wide caches in front of the resolver:
   pkg/apk/apk/shameful_global_caches.go (resolverCache.Get, disqualifyCache.Get),
   repo.go (PkgResolver.Clone, NewPkgResolver, the first lines of
   GetPackagesWithDependencies, cachedParseVersion / cachedResolvePackageNameVersionPin).

   The model is over an EXPLICIT STORE. In a purely functional model a value is
   never aliased, so "a later resolution cannot see what an earlier one wrote"
   would hold for the wrong reason. Here the mutable Go objects live at
   references; [clone] allocates fresh references for exactly what
   PkgResolver.Clone / maps.Clone copy and shares everything else, and the
   resolver core reads and writes through the references it is handed.
   No proofs in this file. *)
From Apko Require Import Base.Prelude.
Open Scope string_scope. Open Scope list_scope.

(* ---- universes, calls ----------------------------------------------------- *)
Definition idxid := nat.                 (* identity of a NamedIndex object *)
Definition pid := (nat * nat)%type.      (* identity of a *RepositoryPackage: (index, position) *)

Record pkg := {
  p_name : string; p_version : string;
  p_deps : list string; p_provides : list string; p_iif : list string;
  p_origin : string; p_prio : N
}.
Record index := { ix_name : string (* pinned name *); ix_pkgs : list pkg }.
Definition universe := list index.       (* idxid = position *)

(* one ResolveWorld-style call: NewPkgResolver(indexes) followed by
   GetPackagesWithDependencies(world, allArchs). [cl_archs] is the Go map
   allArchs LISTED IN THE ORDER IN WHICH THIS CALL'S `maps.Values` ITERATES IT;
   theorems quantify over every list, hence over every iteration order. *)
Record call := {
  cl_indexes : list idxid;
  cl_world : list string;
  cl_archs : list (string * list idxid)
}.

Definition pid_eqb (a b : pid) : bool := Nat.eqb (fst a) (fst b) && Nat.eqb (snd a) (snd b).

Definition ix_of (u : universe) (i : idxid) : index :=
  nth i u {| ix_name := ""; ix_pkgs := [] |}.

(* ---- disqualifyDifference -------------------------------------------------
   (name, version) present in the indexes of architecture [ixs] *)
Definition has_nv (u : universe) (ixs : list idxid) (n v : string) : bool :=
  existsb (fun i => existsb (fun p => String.eqb (p_name p) n && String.eqb (p_version p) v)
                            (ix_pkgs (ix_of u i))) ixs.

Definition is_dq (u : universe) (archs : list (string * list idxid)) (x : pid) : bool :=
  let p := nth (snd x) (ix_pkgs (ix_of u (fst x)))
               {| p_name := ""; p_version := ""; p_deps := []; p_provides := []; p_iif := []; p_origin := ""; p_prio := 0 |} in
  existsb (fun a => existsb (Nat.eqb (fst x)) (snd a) &&
     existsb (fun b => negb (String.eqb (fst a) (fst b)) && negb (has_nv u (snd b) (p_name p) (p_version p))) archs) archs.

Fixpoint seq_pids (i : nat) (n : nat) : list pid :=
  match n with O => [] | S n' => seq_pids i n' ++ [(i, n')] end.

Fixpoint all_pids_from (i : nat) (u : universe) : list pid :=
  match u with [] => [] | ix :: u' => seq_pids i (List.length (ix_pkgs ix)) ++ all_pids_from (S i) u' end.

(* the result as a set, listed in (index, position) order; the reasons (strings)
   are projected away. "if len(byArch) == 1 return dq" *)
Definition dq_difference (u : universe) (archs : list (string * list idxid)) : list pid :=
  match archs with
  | [_] => []
  | _ => filter (is_dq u archs) (all_pids_from 0 u)
  end.

(* ---- disqualifyCache.Get's key ----------------------------------------------
   slices.Concat(maps.Values(byArch)...) then slices.SortFunc by Name(): for
   fewer than 12 elements pdqsort is an insertion sort, which is stable, so
   indexes with equal names keep the (map iteration) order of the concatenation. *)
Fixpoint ins_by_name (u : universe) (x : idxid) (l : list idxid) : list idxid :=
  match l with
  | [] => [x]
  | y :: t => if String.ltb (ix_name (ix_of u x)) (ix_name (ix_of u y)) then x :: l else y :: ins_by_name u x t
  end.
Definition sort_by_name (u : universe) (l : list idxid) : list idxid :=
  fold_left (fun acc x => ins_by_name u x acc) l [].

Definition dq_key (u : universe) (archs : list (string * list idxid)) : list idxid :=
  sort_by_name u (List.concat (List.map snd archs)).

(* ---- the store ------------------------------------------------------------- *)
Definition ref := nat.

Inductive obj :=
| OSel (m : list (string * pid))      (* PkgResolver.selected *)
| OMap (m : list (string * ref))      (* nameMap / installIfMap: name -> reference of the slice *)
| OSlice (l : list pid)               (* backing array of one []*repositoryPackage *)
| ODq (d : list pid)                  (* a disqualification map (reasons projected away) *)
| OIdx (l : list idxid).              (* the []NamedIndex a resolver was built from *)

Definition store := list obj.
Definition sget (s : store) (r : ref) : option obj := nth_error s r.
Definition alloc (s : store) (o : obj) : store * ref := (s ++ [o], List.length s).
Fixpoint sset (s : store) (r : ref) (o : obj) : store :=
  match s, r with
  | [], _ => []
  | _ :: t, O => o :: t
  | x :: t, S r' => x :: sset t r' o
  end.

(* a *PkgResolver *)
Record rhandle := { h_idx : ref; h_names : ref; h_iif : ref; h_sel : ref }.
(* what one resolution is handed: its resolver and its disqualification map *)
Record handles := { hs_res : rhandle; hs_dq : ref }.

(* what the core can see through its handles: the maps with their slices
   dereferenced, [selected], the disqualification set *)
Record rview := {
  v_idx : list idxid;
  v_names : list (string * list pid);
  v_iif : list (string * list pid);
  v_sel : list (string * pid);
  v_dq : list pid
}.

Fixpoint deref_slices (s : store) (m : list (string * ref)) : option (list (string * list pid)) :=
  match m with
  | [] => Some []
  | (k, r) :: t =>
      match sget s r, deref_slices s t with
      | Some (OSlice l), Some t' => Some ((k, l) :: t')
      | _, _ => None
      end
  end.

Definition deref_map (s : store) (r : ref) : option (list (string * list pid)) :=
  match sget s r with Some (OMap m) => deref_slices s m | _ => None end.

Definition view (s : store) (h : handles) : option rview :=
  match sget s (h_idx (hs_res h)), deref_map s (h_names (hs_res h)), deref_map s (h_iif (hs_res h)),
        sget s (h_sel (hs_res h)), sget s (hs_dq h) with
  | Some (OIdx ix), Some nm, Some im, Some (OSel sel), Some (ODq d) =>
      Some {| v_idx := ix; v_names := nm; v_iif := im; v_sel := sel; v_dq := d |}
  | _, _, _, _, _ => None
  end.

(* ---- building and cloning a resolver ---------------------------------------- *)
Fixpoint alloc_slices (s : store) (m : list (string * list pid)) : store * list (string * ref) :=
  match m with
  | [] => (s, [])
  | (k, l) :: t =>
      let (s1, r) := alloc s (OSlice l) in
      let (s2, t') := alloc_slices s1 t in
      (s2, (k, r) :: t')
  end.

(* the process-wide state: the store, the two tries (as association lists from
   index-identity lists to references) *)
Record state := {
  st : store;
  rcache : list (list idxid * rhandle);     (* globalResolverCache *)
  dcache : list (list idxid * ref)          (* globalDisqualifyCache *)
}.
Definition empty_state : state := {| st := []; rcache := []; dcache := [] |}.

Definition key_eqb (a b : list idxid) : bool := list_eqb Nat.eqb a b.
Fixpoint find_key {A} (k : list idxid) (l : list (list idxid * A)) : option A :=
  match l with
  | [] => None
  | (k', a) :: t => if key_eqb k k' then Some a else find_key k t
  end.

Section WithCore.
  (* newPkgResolver's two maps as pure functions of the index list (supplied by
     the resolver model: own names in index order, then provided names) *)
  Variable mk_names : list idxid -> list (string * list pid).
  Variable mk_iif : list idxid -> list (string * list pid).
  (* disqualifyDifference *)
  Variable dq_diff : list (string * list idxid) -> list pid.
  (* disqualifyCache.Get's key *)
  Variable dkey : list (string * list idxid) -> list idxid.
  (* the resolver core: GetPackagesWithDependencies after it obtained dq *)
  Variable R : Type.
  Variable core : store -> handles -> list string -> store * R.

  (* newPkgResolver *)
  Definition build_resolver (s : store) (ixs : list idxid) : store * rhandle :=
    let (s1, ri) := alloc s (OIdx ixs) in
    let (s2, nm) := alloc_slices s1 (mk_names ixs) in
    let (s3, rn) := alloc s2 (OMap nm) in
    let (s4, im) := alloc_slices s3 (mk_iif ixs) in
    let (s5, rm) := alloc s4 (OMap im) in
    let (s6, rs) := alloc s5 (OSel []) in
    (s6, {| h_idx := ri; h_names := rn; h_iif := rm; h_sel := rs |}).

  (* PkgResolver.Clone: indexes shared; maps.Clone of the two maps = a new map
     object whose values are THE SAME slices; a new empty selected *)
  Definition clone_resolver (s : store) (h : rhandle) : store * rhandle :=
    let nm := match sget s (h_names h) with Some (OMap m) => m | _ => [] end in
    let im := match sget s (h_iif h) with Some (OMap m) => m | _ => [] end in
    let (s1, rn) := alloc s (OMap nm) in
    let (s2, rm) := alloc s1 (OMap im) in
    let (s3, rs) := alloc s2 (OSel []) in
    (s3, {| h_idx := h_idx h; h_names := rn; h_iif := rm; h_sel := rs |}).

  (* resolverCache.Get: find, else newPkgResolver + fill *)
  Definition resolver_find_or_build (x : state) (ixs : list idxid) : state * rhandle :=
    match find_key ixs (rcache x) with
    | Some h => (x, h)
    | None =>
        let (s1, h) := build_resolver (st x) ixs in
        ({| st := s1; rcache := (ixs, h) :: rcache x; dcache := dcache x |}, h)
    end.

  (* ... then `return pr.Clone()`. [cl = false] is the model with the clone
     removed (`return pr`), used only for the non-vacuity example *)
  Definition resolver_get (cl : bool) (x : state) (ixs : list idxid) : state * rhandle :=
    let (x1, proto) := resolver_find_or_build x ixs in
    if cl then
      let (s2, h') := clone_resolver (st x1) proto in
      ({| st := s2; rcache := rcache x1; dcache := dcache x1 |}, h')
    else (x1, proto).

  (* disqualifyCache.Get: find under the concatenated key, else disqualifyDifference + fill *)
  Definition dq_find_or_build (x : state) (archs : list (string * list idxid)) : state * ref :=
    let k := dkey archs in
    match find_key k (dcache x) with
    | Some r => (x, r)
    | None =>
        let (s1, r) := alloc (st x) (ODq (dq_diff archs)) in
        ({| st := s1; rcache := rcache x; dcache := (k, r) :: dcache x |}, r)
    end.

  (* ... then `return maps.Clone(dq)` *)
  Definition dq_get (cl : bool) (x : state) (archs : list (string * list idxid)) : state * ref :=
    let (x1, r) := dq_find_or_build x archs in
    if cl then
      let d := match sget (st x1) r with Some (ODq d) => d | _ => [] end in
      let (s2, r') := alloc (st x1) (ODq d) in
      ({| st := s2; rcache := rcache x1; dcache := dcache x1 |}, r')
    else (x1, r).

  (* one call *)
  Definition call_step (cl : bool) (x : state) (c : call) : state * R :=
    let (x1, h) := resolver_get cl x (cl_indexes c) in
    let (x2, d) := dq_get cl x1 (cl_archs c) in
    let (s3, r) := core (st x2) {| hs_res := h; hs_dq := d |} (cl_world c) in
    ({| st := s3; rcache := rcache x2; dcache := dcache x2 |}, r).

  Definition run_history (cl : bool) (hist : list call) : state :=
    fold_left (fun x c => fst (call_step cl x c)) hist empty_state.

  Definition result_after (cl : bool) (hist : list call) (c : call) : R :=
    snd (call_step cl (run_history cl hist) c).
  Definition result_fresh (cl : bool) (c : call) : R := result_after cl [] c.

  (* the disqualification set the core is handed by call [c] after [hist] *)
  Definition dq_handed (hist : list call) (c : call) : list pid :=
    let x := run_history true hist in
    let (x1, _) := resolver_get true x (cl_indexes c) in
    let (x2, d) := dq_get true x1 (cl_archs c) in
    match sget (st x2) d with Some (ODq l) => l | _ => [] end.

  (* the cached entry (if any) that [c] would find, as the hook
     VerifDisqualifyCacheEntry reports it *)
  Definition dq_entry (x : state) (archs : list (string * list idxid)) : option (list pid) :=
    match find_key (dkey archs) (dcache x) with
    | Some r => match sget (st x) r with Some (ODq l) => Some l | _ => None end
    | None => None
    end.
End WithCore.

(* a core built from a pure function of the view: reads through the handles,
   writes [selected] and the disqualification map it was handed, nothing else *)
Definition core_of {R} (f : rview -> list string -> list (string * pid) * list pid * R) (fail : R)
  (s : store) (h : handles) (w : list string) : store * R :=
  match view s h with
  | Some v =>
      let '(sel', dq', r) := f v w in
      (sset (sset s (h_sel (hs_res h)) (OSel sel')) (hs_dq h) (ODq dq'), r)
  | None => (s, fail)
  end.

(* ---- memo tables (parsedVersions / parsedConstraints) ---------------------- *)
Section Memo.
  Variables (K V : Type) (keq : K -> K -> bool).
  Variable f : K -> option V.      (* None = parse error: nothing is stored *)
  Fixpoint mfind (k : K) (t : list (K * V)) : option V :=
    match t with [] => None | (k', v) :: t' => if keq k k' then Some v else mfind k t' end.
  (* cachedParseVersion: Load; on a miss parse and Store unless it failed *)
  Definition memo_get (t : list (K * V)) (k : K) : option V * list (K * V) :=
    match mfind k t with
    | Some v => (Some v, t)
    | None => match f k with Some v => (Some v, (k, v) :: t) | None => (None, t) end
    end.
  Definition memo_run (t : list (K * V)) (ks : list K) : list (K * V) :=
    fold_left (fun t k => snd (memo_get t k)) ks t.
End Memo.

(* ---- a small concrete core (for examples only) --------------------------------
   Enough of a resolver to be sensitive to everything the real one reads and
   to write everything the real one writes: a request "!n" disqualifies every
   candidate of n (a write to the disqualification map); a request "n" whose
   name is already in [selected] is skipped, as getPackageDependencies skips a
   dependency it finds in p.selected; otherwise the first candidate that is
   not disqualified is chosen and recorded in [selected]. *)
Fixpoint alookup_pids (k : string) (m : list (string * list pid)) : option (list pid) :=
  match m with [] => None | (k', l) :: t => if String.eqb k k' then Some l else alookup_pids k t end.
Definition toy_step (v : rview) (acc : list (string * pid) * list pid * list (option pid)) (w : string)
  : list (string * pid) * list pid * list (option pid) :=
  let '(sel, dq, out) := acc in
  match w with
  | String "!" n =>
      (sel, dq ++ match alookup_pids n (v_names v) with Some l => l | None => [] end, out)
  | n =>
      if existsb (fun e => String.eqb (fst e) n) sel then (sel, dq, out)
      else match alookup_pids n (v_names v) with
           | Some l =>
               match filter (fun p => negb (existsb (pid_eqb p) dq)) l with
               | p :: _ => (sel ++ [(n, p)], dq, out ++ [Some p])
               | [] => (sel, dq, out ++ [None])
               end
           | None => (sel, dq, out ++ [None])
           end
  end.
Definition toy_f (v : rview) (w : list string) : list (string * pid) * list pid * list (option pid) :=
  fold_left (toy_step v) w (v_sel v, v_dq v, []).
Definition toy_core := core_of toy_f [].
