(* C08 — the bridge between the cache-layer model (Model/Caches.v, package
   identity = (index, position), store with references) and the sequential
   resolver model (Model/Resolver.v, package identity = position in the
   universe of ONE resolver, flattened in (index, package) order).
   No proofs in this file. *)
From Apko Require Import Base.Prelude Model.Caches.
From Apko Require Model.Version Model.Resolver.
Open Scope string_scope. Open Scope list_scope.

(* Repository.URI is only compared for equality (RepositoryPackage.URL()); any
   injective function of the index identity will do *)
Fixpoint repo_uri (i : nat) : string := match i with O => "r" | S i' => String "i" (repo_uri i') end.

Definition to_rpkg (i : idxid) (pin : string) (p : pkg) : Resolver.pkg :=
  {| Resolver.p_name := p_name p; Resolver.p_version := p_version p; Resolver.p_origin := p_origin p;
     Resolver.p_deps := p_deps p; Resolver.p_provides := p_provides p; Resolver.p_install_if := p_iif p;
     Resolver.p_prio := p_prio p; Resolver.p_pin := pin; Resolver.p_repo := repo_uri i |}.

(* the universe one resolver sees *)
Definition flatten (u : universe) (ixs : list idxid) : Resolver.universe :=
  List.concat (List.map (fun i => List.map (to_rpkg i (ix_name (ix_of u i))) (ix_pkgs (ix_of u i))) ixs).

Fixpoint flat_of (u : universe) (ixs : list idxid) (x : pid) : option nat :=
  match ixs with
  | [] => None
  | i :: t =>
      if Nat.eqb i (fst x) then Some (snd x)
      else match flat_of u t x with
           | Some n => Some (List.length (ix_pkgs (ix_of u i)) + n)
           | None => None
           end
  end.

Fixpoint unflat (u : universe) (ixs : list idxid) (n : nat) : pid :=
  match ixs with
  | [] => (0, n)
  | i :: t =>
      let len := List.length (ix_pkgs (ix_of u i)) in
      if Nat.ltb n len then (i, n) else unflat u t (n - len)
  end.

Fixpoint filter_some {A} (l : list (option A)) : list A :=
  match l with [] => [] | Some a :: t => a :: filter_some t | None :: t => filter_some t end.

(* packages of other resolvers' indexes have no position in this one: dropped,
   as a Go map entry for a pointer this resolver never looks up *)
Definition flat_pids (u : universe) (ixs : list idxid) (l : list pid) : list nat :=
  filter_some (List.map (flat_of u ixs) l).
Definition flat_map_ (u : universe) (ixs : list idxid) (m : list (string * list pid)) : list (string * list nat) :=
  List.map (fun kl => (fst kl, flat_pids u ixs (snd kl))) m.
Definition unflat_map (u : universe) (ixs : list idxid) (m : list (string * list nat)) : list (string * list pid) :=
  List.map (fun kl => (fst kl, List.map (unflat u ixs) (snd kl))) m.

(* newPkgResolver's maps, in the cache layer's package identities *)
Definition mk_names_of (u : universe) (ixs : list idxid) : list (string * list pid) :=
  unflat_map u ixs (Resolver.r_names (Resolver.new_resolver (flatten u ixs))).
Definition mk_iif_of (u : universe) (ixs : list idxid) : list (string * list pid) :=
  unflat_map u ixs (Resolver.r_iif (Resolver.new_resolver (flatten u ixs))).

(* the resolver a resolution works with, READ BACK THROUGH ITS HANDLES *)
Definition resolver_of_view (u : universe) (v : rview) : Resolver.resolver :=
  {| Resolver.r_pkgs := List.map Resolver.cook_pkg (flatten u (v_idx v));
     Resolver.r_names := flat_map_ u (v_idx v) (v_names v);
     Resolver.r_iif := flat_map_ u (v_idx v) (v_iif v) |}.

(* GetPackagesWithDependencies started with a given content of p.selected
   (Resolver.resolve_with is the case of an empty one, which is what a fresh
   clone has) *)
Definition resolve_with_sel (R : Resolver.resolver) (world : list string) (dq0 : list nat)
  (sel0 : list (string * nat)) : res (list nat) :=
  let cw := List.map Resolver.cook_dep world in
  let ws := List.map Resolver.d_pos cw in
  do dq1 <- Resolver.constrain R cw dq0;
  do r <- Resolver.phase1 (List.length ws) R ws dq1 [];
  let '(dq2, depmap) := r in
  Resolver.phase2 R ws dq2 sel0 ([], [], depmap).

Definition flat_sel (u : universe) (ixs : list idxid) (sel : list (string * pid)) : list (string * nat) :=
  filter_some (List.map (fun e => match flat_of u ixs (snd e) with Some n => Some (fst e, n) | None => None end) sel).

(* the resolver core over the store: reads its resolver, selected and dq through
   the handles, runs the sequential model, writes back what the resolution
   leaves in selected / dq ([fsel], [fdq]: the sequential model does not return
   them; every theorem holds for all of them) *)
Section ResolverCore.
  Variable u : universe.
  Variable fsel : rview -> list string -> list (string * pid).
  Variable fdq : rview -> list string -> list pid.

  Definition resolver_f (v : rview) (w : list string) : list (string * pid) * list pid * res (list pid) :=
    let R := resolver_of_view u v in
    let r := resolve_with_sel R w (flat_pids u (v_idx v) (v_dq v)) (flat_sel u (v_idx v) (v_sel v)) in
    (fsel v w, fdq v w,
     match r with Ok l => Ok (List.map (unflat u (v_idx v)) l) | Err => Err | Panic => Panic | OutOfFuel => OutOfFuel end).

  Definition resolver_core := core_of resolver_f Err.
End ResolverCore.
