(* C08 — PkgResolver.Clone FIELD BY FIELD, and the resolver cache with its key
   and its clone as parameters.

   goextract (gen_c08.go) reads, for every field of the struct literal that
   PkgResolver.Clone returns, HOW it is produced: "shared" (the prototype's own
   value), "maps.Clone" (a new map object with the same values - shallow: the
   slices inside are the same slices), "fresh-empty" (an empty literal), and
   emits the list as Generated/C08Caches.clone_shape.  [clone_by_shape] turns
   such a list into a clone function over the store of Model/Caches.v; the
   theorem c08_clone_fresh is stated about [clone_by_shape C08Caches.clone_shape],
   so an edit of Clone in /repo changes the definition the theorem is about.

   [call_step_g] is Model/Caches.call_step with two more parameters: the key
   under which resolverCache.Get looks the index list up ([rkey]; the code: the
   list as given) and the clone function.  With the code's choices it IS
   call_step (CachesCloneProofs.call_step_g_code).  No proofs in this file. *)
From Apko Require Import Base.Prelude Model.Caches.
Open Scope string_scope. Open Scope list_scope.

Inductive fmode := MShared | MMapsClone | MFreshEmpty | MOther.

Definition fmode_of (s : string) : fmode :=
  if String.eqb s "shared" then MShared
  else if String.eqb s "maps.Clone" then MMapsClone
  else if String.eqb s "slices.Clone" then MMapsClone   (* a new object with the same elements *)
  else if String.eqb s "fresh-empty" then MFreshEmpty
  else MOther.

Fixpoint shape_mode (field : string) (shape : list (string * string)) : fmode :=
  match shape with
  | [] => MOther
  | (f, m) :: t => if String.eqb f field then fmode_of m else shape_mode field t
  end.

(* what a Go expression of the field's type reads at a reference (a reference
   of another kind reads as the empty value: the store is untyped) *)
Definition as_map (o : option obj) : obj := OMap (match o with Some (OMap m) => m | _ => [] end).
Definition as_sel (o : option obj) : obj := OSel (match o with Some (OSel m) => m | _ => [] end).
Definition as_idx (o : option obj) : obj := OIdx (match o with Some (OIdx l) => l | _ => [] end).

(* one field of the literal: the reference the clone's field holds.  [src] is
   what the prototype's field holds (read in the store the call started in),
   [s] the store to allocate in *)
Definition clone_field (m : fmode) (cast : option obj -> obj) (src : option obj) (s : store) (r : ref) : store * ref :=
  match m with
  | MShared | MOther => (s, r)
  | MMapsClone => alloc s (cast src)
  | MFreshEmpty => alloc s (cast None)
  end.

Definition clone_by_shape (shape : list (string * string)) (s : store) (h : rhandle) : store * rhandle :=
  let (s0, ri) := clone_field (shape_mode "indexes" shape) as_idx (sget s (h_idx h)) s (h_idx h) in
  let (s1, rn) := clone_field (shape_mode "nameMap" shape) as_map (sget s (h_names h)) s0 (h_names h) in
  let (s2, rm) := clone_field (shape_mode "installIfMap" shape) as_map (sget s (h_iif h)) s1 (h_iif h) in
  let (s3, rs) := clone_field (shape_mode "selected" shape) as_sel (sget s (h_sel h)) s2 (h_sel h) in
  (s3, {| h_idx := ri; h_names := rn; h_iif := rm; h_sel := rs |}).

Section Gen.
  Variable mk_names : list idxid -> list (string * list pid).
  Variable mk_iif : list idxid -> list (string * list pid).
  Variable dq_diff : list (string * list idxid) -> list pid.
  Variable dkey : list (string * list idxid) -> list idxid.
  Variable R : Type.
  Variable core : store -> handles -> list string -> store * R.
  Variable rkey : list idxid -> list idxid.
  Variable clone : store -> rhandle -> store * rhandle.

  (* resolverCache.Get: find under the key, else newPkgResolver(the list as given) + fill under the key; return the clone *)
  Definition resolver_get_g (x : state) (ixs : list idxid) : state * rhandle :=
    let (x1, proto) :=
      match find_key (rkey ixs) (rcache x) with
      | Some h => (x, h)
      | None =>
          let (s1, h) := build_resolver mk_names mk_iif (st x) ixs in
          ({| st := s1; rcache := (rkey ixs, h) :: rcache x; dcache := dcache x |}, h)
      end in
    let (s2, h') := clone (st x1) proto in
    ({| st := s2; rcache := rcache x1; dcache := dcache x1 |}, h').

  Definition call_step_g (x : state) (c : call) : state * R :=
    let (x1, h) := resolver_get_g x (cl_indexes c) in
    let (x2, d) := dq_get dq_diff dkey true x1 (cl_archs c) in
    let (s3, r) := core (st x2) {| hs_res := h; hs_dq := d |} (cl_world c) in
    ({| st := s3; rcache := rcache x2; dcache := dcache x2 |}, r).

  Definition run_history_g (hist : list call) : state :=
    fold_left (fun x c => fst (call_step_g x c)) hist empty_state.
  Definition result_after_g (hist : list call) (c : call) : R :=
    snd (call_step_g (run_history_g hist) c).

  (* a resolution through a FRESH resolver and a fresh disqualification map:
     newPkgResolver + disqualifyDifference in an empty process, no cache, no clone *)
  Definition result_direct (c : call) : R :=
    let (s1, h) := build_resolver mk_names mk_iif [] (cl_indexes c) in
    let (s2, d) := alloc s1 (ODq (dq_diff (cl_archs c))) in
    snd (core s2 {| hs_res := h; hs_dq := d |} (cl_world c)).
End Gen.
