(* C08 — the disqualification cache AFTER fix 3541d7b (was finding C08-F2): a node
   of the trie keeps one entry PER GROUPING of the indexes by architecture.

   disqualifyCache.Get still walks the trie along the concatenation of the map's
   values sorted by Name() ([Caches.dq_key], the PATH); at the leaf, find returns
   the entry whose stored grouping equals the request's map (maps.EqualFunc +
   slices.Equal: the same architectures, each with the same index objects in the
   same order) and fill appends (copy of the grouping, difference).  A two-level
   map (path -> grouping -> entry) is a one-level map keyed by the pair; the
   cache layer of Model/Caches.v (unchanged) is parametric in its key function
   [dkey : grouping -> list idxid], so the new lookup is that layer with

       grouping_key u archs  =  (path, the grouping as a Go map)

   written as a list of numbers because that is the type of the layer's keys:
   the path, length-prefixed, followed by a length-prefixed, prefix-free encoding
   of the grouping LISTED IN ORDER OF ITS ARCHITECTURE NAMES (a Go map has no
   listing order; [cl_archs] has one: the order of this call's iteration).
   CachesGroupedProofs.grouping_key_inj: equal keys -> the two listings are
   permutations of each other, i.e. the same Go map.  No proofs in this file. *)
From Apko Require Import Base.Prelude Model.Caches.
Open Scope string_scope. Open Scope list_scope.

Definition grouping := list (string * list idxid).

Fixpoint ins_by_arch (e : string * list idxid) (l : grouping) : grouping :=
  match l with
  | [] => [e]
  | y :: t => if String.leb (fst e) (fst y) then e :: l else y :: ins_by_arch e t
  end.
Definition sort_by_arch (g : grouping) : grouping := fold_right ins_by_arch [] g.

Definition enc_str (s : string) : list nat :=
  let l := list_ascii_of_string s in List.length l :: List.map nat_of_ascii l.
Definition enc_entry (e : string * list idxid) : list nat :=
  enc_str (fst e) ++ (List.length (snd e) :: snd e).
Definition enc_grouping (g : grouping) : list nat :=
  List.length g :: List.concat (List.map enc_entry g).

Definition grouping_key (u : universe) (archs : grouping) : list idxid :=
  let path := dq_key u archs in
  (List.length path :: path) ++ enc_grouping (sort_by_arch archs).

(* sameGrouping as a boolean on listings (for the correspondence): same number of
   architectures, every architecture of the one found in the other with the same list *)
Fixpoint glookup (a : string) (g : grouping) : option (list idxid) :=
  match g with [] => None | (k, l) :: t => if String.eqb k a then Some l else glookup a t end.
Definition same_grouping_b (g h : grouping) : bool :=
  Nat.eqb (List.length g) (List.length h) &&
  forallb (fun e => match glookup (fst e) h with Some l => list_eqb Nat.eqb (snd e) l | None => false end) g.
