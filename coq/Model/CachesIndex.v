(* C08 — executable model of the part of the process-wide INDEX cache that the
   resolution's inputs pass through (pkg/apk/apk/index.go):

   * indexCache.get, local-file branch: the parsed result (index or error) is
     stored under cacheURL = path # verification context # repository name; the
     file is re-read when no modification time is recorded UNDER THAT SAME KEY
     or the file's time is After the recorded one; both tables are written
     together, under the cache's mutex;
   * GetRepositoryIndexes: one goroutine per repository line, goroutine i writes
     slot i of a slice made with len(repos); after Wait the nil slots (local
     repository without an index file) are deleted.  The goroutines of the
     local branch are serialised by the mutex in SOME order: the schedule is an
     explicit parameter, theorems quantify over it.

   The bytes of an index file are abstract ([C]: whatever parsing reads), so is
   what parsing makes of them under a key ([parse]: None = an error, which is
   stored like a result).  No proofs in this file. *)
From Apko Require Import Base.Prelude.
Open Scope string_scope. Open Scope list_scope. Local Open Scope Z_scope.

(* cacheURL *)
Record ekey := { ek_path : nat; ek_ctx : string; ek_name : string }.
Definition ekey_eqb (a b : ekey) : bool :=
  Nat.eqb (ek_path a) (ek_path b) && String.eqb (ek_ctx a) (ek_ctx b) && String.eqb (ek_name a) (ek_name b).

(* Go maps / sync.Map as association lists, newest binding first *)
Fixpoint klookup {V} (k : ekey) (m : list (ekey * V)) : option V :=
  match m with
  | [] => None
  | (k', v) :: t => if ekey_eqb k k' then Some v else klookup k t
  end.
Definition kset {V} (k : ekey) (v : V) (m : list (ekey * V)) : list (ekey * V) := (k, v) :: m.

Section IndexCache.
  Variable C : Type.                         (* bytes of an APKINDEX.tar.gz *)
  Variable I : Type.                         (* a NamedIndex *)
  Variable parse : ekey -> C -> option I.    (* parseRepositoryIndex under the key's context + NewNamedRepositoryWithIndex(name, ..) *)

  (* the files: path -> (modification time, bytes); no binding = stat fails with ErrNotExist *)
  Definition files := list (nat * (Z * C)).
  Fixpoint fget (fs : files) (p : nat) : option (Z * C) :=
    match fs with
    | [] => None
    | (p', f) :: t => if Nat.eqb p p' then Some f else fget t p
    end.
  Definition fwrite (fs : files) (p : nat) (mt : Z) (c : C) : files := (p, (mt, c)) :: fs.

  (* indexCache: modtimes, indexes *)
  Record icache := { ic_mod : list (ekey * Z); ic_idx : list (ekey * option I) }.
  Definition ic_empty : icache := {| ic_mod := []; ic_idx := [] |}.

  Inductive gres :=
  | GMissing                 (* stat: ErrNotExist - GetRepositoryIndexes logs and leaves the slot nil *)
  | GGot (r : option I)      (* the stored index, or the stored error *)
  | GLost.                   (* "indexCache did not see key": never happens (CachesIndexProofs.ic_get_never_lost) *)

  (* `before, ok := i.modtimes[cacheURL]; if !ok || mod.After(before)` *)
  Definition needs_refresh (x : icache) (k : ekey) (mt : Z) : bool :=
    match klookup k (ic_mod x) with None => true | Some before => Z.ltb before mt end.

  Definition ic_get (fs : files) (x : icache) (k : ekey) : icache * gres :=
    match fget fs (ek_path k) with
    | None => (x, GMissing)
    | Some (mt, c) =>
        let x' := if needs_refresh x k mt
                  then {| ic_mod := kset k mt (ic_mod x); ic_idx := kset k (parse k c) (ic_idx x) |}
                  else x in
        (x', match klookup k (ic_idx x') with Some r => GGot r | None => GLost end)
    end.

  (* what a process that has never seen the file returns *)
  Definition current (fs : files) (k : ekey) : gres :=
    match fget fs (ek_path k) with None => GMissing | Some (_, c) => GGot (parse k c) end.

  (* ---- histories: the file is (re)written between requests ------------------- *)
  Inductive iev := IWrite (p : nat) (mt : Z) (c : C) | IGet (k : ekey).

  Fixpoint ic_run (fs : files) (x : icache) (evs : list iev) : list gres :=
    match evs with
    | [] => []
    | IWrite p mt c :: t => ic_run (fwrite fs p mt c) x t
    | IGet k :: t => let (x', r) := ic_get fs x k in r :: ic_run fs x' t
    end.

  Fixpoint fresh_run (fs : files) (evs : list iev) : list gres :=
    match evs with
    | [] => []
    | IWrite p mt c :: t => fresh_run (fwrite fs p mt c) t
    | IGet k :: t => current fs k :: fresh_run fs t
    end.

  (* every rewrite gives the file a strictly later modification time *)
  Fixpoint mtimes_increase (fs : files) (evs : list iev) : Prop :=
    match evs with
    | [] => True
    | IWrite p mt c :: t =>
        match fget fs p with Some (m0, _) => m0 < mt | None => True end /\ mtimes_increase (fwrite fs p mt c) t
    | IGet _ :: t => mtimes_increase fs t
    end.

  (* ---- one GetRepositoryIndexes call under a schedule ----------------------------
     [keys]: the cache keys of the repository lines, in the order of the lines;
     [sched]: the order in which the goroutines get the mutex *)
  Fixpoint set_slot {A} (l : list A) (i : nat) (a : A) : list A :=
    match l, i with
    | [], _ => []
    | _ :: t, O => a :: t
    | x :: t, S i' => x :: set_slot t i' a
    end.

  Definition sched_step (fs : files) (keys : list ekey) (st : icache * list (option gres)) (i : nat)
    : icache * list (option gres) :=
    match nth_error keys i with
    | Some k => let (x', r) := ic_get fs (fst st) k in (x', set_slot (snd st) i (Some r))
    | None => st
    end.

  Definition call_sched (fs : files) (x : icache) (keys : list ekey) (sched : list nat) : icache * list (option gres) :=
    fold_left (sched_step fs keys) sched (x, repeat None (List.length keys)).

  (* eg.Wait + slices.DeleteFunc(indexes, nil): None = the call returns an error *)
  Fixpoint assemble (sl : list (option gres)) : option (list I) :=
    match sl with
    | [] => Some []
    | Some GMissing :: t | None :: t => assemble t
    | Some (GGot (Some i)) :: t => match assemble t with Some l => Some (i :: l) | None => None end
    | Some (GGot None) :: _ | Some GLost :: _ => None
    end.

  Definition get_indexes (fs : files) (x : icache) (keys : list ekey) (sched : list nat) : icache * option (list I) :=
    let (x', sl) := call_sched fs x keys sched in (x', assemble sl).

  (* the result in repository order, from what each key alone would get *)
  Definition in_repo_order (fs : files) (x : icache) (keys : list ekey) : option (list I) :=
    assemble (List.map (fun k => Some (snd (ic_get fs x k))) keys).
End IndexCache.

Arguments fget {C} fs p. Arguments fwrite {C} fs p mt c.
Arguments ic_mod {I} i. Arguments ic_idx {I} i.
Arguments needs_refresh {I} x k mt.
Arguments ic_get {C I} parse fs x k. Arguments current {C I} parse fs k.
Arguments ic_run {C I} parse fs x evs. Arguments fresh_run {C I} parse fs evs. Arguments mtimes_increase {C} fs evs.
Arguments sched_step {C I} parse fs keys st i. Arguments call_sched {C I} parse fs x keys sched.
Arguments assemble {I} sl. Arguments get_indexes {C I} parse fs x keys sched. Arguments in_repo_order {C I} parse fs x keys.
Arguments GMissing {I}. Arguments GGot {I} r. Arguments GLost {I}.
Arguments IWrite {C} p mt c. Arguments IGet {C} k.
Arguments ic_empty {I}.

(* ---- the REMOTE branch of indexCache.get ----------------------------------------
   HEAD, then: no ETag in the answer - fetch and parse, nothing is stored ("If
   there's no etag, we can't cache it"; a Last-Modified header is not looked at);
   an ETag e - the result is stored once under cacheURL@e (sync.Once per key) and
   handed to every later request with that key; when a new ETag arrives for a
   cacheURL the entry of the previous one is forgotten (urlToEtag).  A missing
   index is a 404: an error.  [E] = ETags. *)
Section Remote.
  Variable C : Type.
  Variable I : Type.
  Variable E : Type.
  Variable E_eqb : E -> E -> bool.
  Variable parse : ekey -> C -> option I.

  (* what the server holds: path -> (the ETag it sends, if any; bytes) *)
  Definition rfiles := list (nat * (option E * C)).
  Fixpoint rfget (fs : rfiles) (p : nat) : option (option E * C) :=
    match fs with
    | [] => None
    | (p', f) :: t => if Nat.eqb p p' then Some f else rfget t p
    end.
  Definition rpublish (fs : rfiles) (p : nat) (e : option E) (c : C) : rfiles := (p, (e, c)) :: fs.

  (* indexes (cacheURL@etag -> result), urlToEtag *)
  Record remote_cache := { rc_idx : list (ekey * E * option I); rc_cur : list (ekey * E) }.
  Definition rc_empty : remote_cache := {| rc_idx := []; rc_cur := [] |}.

  Fixpoint rlookup (k : ekey) (e : E) (m : list (ekey * E * option I)) : option (option I) :=
    match m with
    | [] => None
    | (k', e', r) :: t => if ekey_eqb k k' && E_eqb e e' then Some r else rlookup k e t
    end.
  Definition rforget (k : ekey) (e : E) (m : list (ekey * E * option I)) : list (ekey * E * option I) :=
    List.filter (fun x => negb (ekey_eqb k (fst (fst x)) && E_eqb e (snd (fst x)))) m.

  Definition rc_get (fs : rfiles) (x : remote_cache) (k : ekey) : remote_cache * gres I :=
    match rfget fs (ek_path k) with
    | None => (x, GGot None)
    | Some (None, c) => (x, GGot (parse k c))
    | Some (Some e, c) =>
        match rlookup k e (rc_idx x) with
        | Some r => (x, GGot r)
        | None =>
            let idx := match klookup k (rc_cur x) with Some prev => rforget k prev (rc_idx x) | None => rc_idx x end in
            let r := parse k c in
            ({| rc_idx := (k, e, r) :: idx; rc_cur := kset k e (rc_cur x) |}, GGot r)
        end
    end.

  Definition rcurrent (fs : rfiles) (k : ekey) : gres I :=
    match rfget fs (ek_path k) with None => GGot None | Some (_, c) => GGot (parse k c) end.

  Inductive rev := RPublish (p : nat) (e : option E) (c : C) | RGet (k : ekey).
  Fixpoint rc_run (fs : rfiles) (x : remote_cache) (evs : list rev) : list (gres I) :=
    match evs with
    | [] => []
    | RPublish p e c :: t => rc_run (rpublish fs p e c) x t
    | RGet k :: t => let (x', r) := rc_get fs x k in r :: rc_run fs x' t
    end.
  Fixpoint rfresh_run (fs : rfiles) (evs : list rev) : list (gres I) :=
    match evs with
    | [] => []
    | RPublish p e c :: t => rfresh_run (rpublish fs p e c) t
    | RGet k :: t => rcurrent fs k :: rfresh_run fs t
    end.

  (* the ETag names the bytes: whatever is published at path p under ETag e is [content_of p e] *)
  Fixpoint etags_name_bytes (content_of : nat -> E -> C) (evs : list rev) : Prop :=
    match evs with
    | [] => True
    | RPublish p (Some e) c :: t => c = content_of p e /\ etags_name_bytes content_of t
    | _ :: t => etags_name_bytes content_of t
    end.
End Remote.

Arguments rfget {C E} fs p. Arguments rpublish {C E} fs p e c.
Arguments rc_idx {I E} r. Arguments rc_cur {I E} r. Arguments rc_empty {I E}.
Arguments rc_get {C I E} E_eqb parse fs x k. Arguments rcurrent {C I E} parse fs k.
Arguments RPublish {C E} p e c. Arguments RGet {C E} k.
Arguments rc_run {C I E} E_eqb parse fs x evs. Arguments rfresh_run {C I E} parse fs evs.
Arguments etags_name_bytes {C E} content_of evs.
