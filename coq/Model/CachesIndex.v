(* C08 — executable model of the part of the process-wide INDEX cache that the
   resolution's inputs pass through (pkg/apk/apk/index.go):

   * indexCache.get, local-file branch: the parsed result (index or error) is
     stored under cacheURL = path # verification context # repository name; the
     file is re-read when no modification time is recorded UNDER THAT SAME KEY
     or the file's time is After the recorded one; both tables are written
     together, under the cache's mutex;
   * GetRepositoryIndexes: one goroutine per repository line, goroutine i writes
     slot i of a slice made with len(repos); after Wait the nil slots (local
     repository without an index file) are deleted.  The goroutines of the
     local branch are serialised by the mutex in SOME order: the schedule is an
     explicit parameter, theorems quantify over it.

   The bytes of an index file are abstract ([C]: whatever parsing reads), so is
   what parsing makes of them under a key ([parse]: None = an error, which is
   stored like a result).  No proofs in this file. *)
From Apko Require Import Base.Prelude.
Open Scope string_scope. Open Scope list_scope. Local Open Scope Z_scope.

(* cacheURL *)
Record ekey := { ek_path : nat; ek_ctx : string; ek_name : string }.
Definition ekey_eqb (a b : ekey) : bool :=
  Nat.eqb (ek_path a) (ek_path b) && String.eqb (ek_ctx a) (ek_ctx b) && String.eqb (ek_name a) (ek_name b).

(* Go maps / sync.Map as association lists, newest binding first *)
Fixpoint klookup {V} (k : ekey) (m : list (ekey * V)) : option V :=
  match m with
  | [] => None
  | (k', v) :: t => if ekey_eqb k k' then Some v else klookup k t
  end.
Definition kset {V} (k : ekey) (v : V) (m : list (ekey * V)) : list (ekey * V) := (k, v) :: m.

Section IndexCache.
  Variable C : Type.                         (* bytes of an APKINDEX.tar.gz *)
  Variable I : Type.                         (* a NamedIndex *)
  Variable parse : ekey -> C -> option I.    (* parseRepositoryIndex under the key's context + NewNamedRepositoryWithIndex(name, ..) *)

  (* the files: path -> (modification time, bytes); no binding = stat fails with ErrNotExist *)
  Definition files := list (nat * (Z * C)).
  Fixpoint fget (fs : files) (p : nat) : option (Z * C) :=
    match fs with
    | [] => None
    | (p', f) :: t => if Nat.eqb p p' then Some f else fget t p
    end.
  Definition fwrite (fs : files) (p : nat) (mt : Z) (c : C) : files := (p, (mt, c)) :: fs.

  (* indexCache: modtimes, indexes *)
  Record icache := { ic_mod : list (ekey * Z); ic_idx : list (ekey * option I) }.
  Definition ic_empty : icache := {| ic_mod := []; ic_idx := [] |}.

  Inductive gres :=
  | GMissing                 (* stat: ErrNotExist - GetRepositoryIndexes logs and leaves the slot nil *)
  | GGot (r : option I)      (* the stored index, or the stored error *)
  | GLost.                   (* "indexCache did not see key": never happens (CachesIndexProofs.ic_get_never_lost) *)

  (* `before, ok := i.modtimes[cacheURL]; if !ok || mod.After(before)` *)
  Definition needs_refresh (x : icache) (k : ekey) (mt : Z) : bool :=
    match klookup k (ic_mod x) with None => true | Some before => Z.ltb before mt end.

  Definition ic_get (fs : files) (x : icache) (k : ekey) : icache * gres :=
    match fget fs (ek_path k) with
    | None => (x, GMissing)
    | Some (mt, c) =>
        let x' := if needs_refresh x k mt
                  then {| ic_mod := kset k mt (ic_mod x); ic_idx := kset k (parse k c) (ic_idx x) |}
                  else x in
        (x', match klookup k (ic_idx x') with Some r => GGot r | None => GLost end)
    end.

  (* what a process that has never seen the file returns *)
  Definition current (fs : files) (k : ekey) : gres :=
    match fget fs (ek_path k) with None => GMissing | Some (_, c) => GGot (parse k c) end.

  (* ---- histories: the file is (re)written between requests ------------------- *)
  Inductive iev := IWrite (p : nat) (mt : Z) (c : C) | IGet (k : ekey).

  Fixpoint ic_run (fs : files) (x : icache) (evs : list iev) : list gres :=
    match evs with
    | [] => []
    | IWrite p mt c :: t => ic_run (fwrite fs p mt c) x t
    | IGet k :: t => let (x', r) := ic_get fs x k in r :: ic_run fs x' t
    end.

  Fixpoint fresh_run (fs : files) (evs : list iev) : list gres :=
    match evs with
    | [] => []
    | IWrite p mt c :: t => fresh_run (fwrite fs p mt c) t
    | IGet k :: t => current fs k :: fresh_run fs t
    end.

  (* every rewrite gives the file a strictly later modification time *)
  Fixpoint mtimes_increase (fs : files) (evs : list iev) : Prop :=
    match evs with
    | [] => True
    | IWrite p mt c :: t =>
        match fget fs p with Some (m0, _) => m0 < mt | None => True end /\ mtimes_increase (fwrite fs p mt c) t
    | IGet _ :: t => mtimes_increase fs t
    end.

  (* ---- one GetRepositoryIndexes call under a schedule ----------------------------
     [keys]: the cache keys of the repository lines, in the order of the lines;
     [sched]: the order in which the goroutines get the mutex *)
  Fixpoint set_slot {A} (l : list A) (i : nat) (a : A) : list A :=
    match l, i with
    | [], _ => []
    | _ :: t, O => a :: t
    | x :: t, S i' => x :: set_slot t i' a
    end.

  Definition sched_step (fs : files) (keys : list ekey) (st : icache * list (option gres)) (i : nat)
    : icache * list (option gres) :=
    match nth_error keys i with
    | Some k => let (x', r) := ic_get fs (fst st) k in (x', set_slot (snd st) i (Some r))
    | None => st
    end.

  Definition call_sched (fs : files) (x : icache) (keys : list ekey) (sched : list nat) : icache * list (option gres) :=
    fold_left (sched_step fs keys) sched (x, repeat None (List.length keys)).

  (* eg.Wait + slices.DeleteFunc(indexes, nil): None = the call returns an error *)
  Fixpoint assemble (sl : list (option gres)) : option (list I) :=
    match sl with
    | [] => Some []
    | Some GMissing :: t | None :: t => assemble t
    | Some (GGot (Some i)) :: t => match assemble t with Some l => Some (i :: l) | None => None end
    | Some (GGot None) :: _ | Some GLost :: _ => None
    end.

  Definition get_indexes (fs : files) (x : icache) (keys : list ekey) (sched : list nat) : icache * option (list I) :=
    let (x', sl) := call_sched fs x keys sched in (x', assemble sl).

  (* the result in repository order, from what each key alone would get *)
  Definition in_repo_order (fs : files) (x : icache) (keys : list ekey) : option (list I) :=
    assemble (List.map (fun k => Some (snd (ic_get fs x k))) keys).
End IndexCache.

Arguments fget {C} fs p. Arguments fwrite {C} fs p mt c.
Arguments ic_mod {I} i. Arguments ic_idx {I} i.
Arguments needs_refresh {I} x k mt.
Arguments ic_get {C I} parse fs x k. Arguments current {C I} parse fs k.
Arguments ic_run {C I} parse fs x evs. Arguments fresh_run {C I} parse fs evs. Arguments mtimes_increase {C} fs evs.
Arguments sched_step {C I} parse fs keys st i. Arguments call_sched {C I} parse fs x keys sched.
Arguments assemble {I} sl. Arguments get_indexes {C I} parse fs x keys sched. Arguments in_repo_order {C I} parse fs x keys.
Arguments GMissing {I}. Arguments GGot {I} r. Arguments GLost {I}.
Arguments IWrite {C} p mt c. Arguments IGet {C} k.
Arguments ic_empty {I}.
