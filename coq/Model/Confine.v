(* C18 — executable model of the places where apko turns untrusted text into a
   host path (no proofs here):

     pkg/apk/fs/rwosfs.go      sanitizePath, dirFS.Link's check, and for every
                               mutating dirFS method the host path it hands to
                               the os package (filepath.Join(base, name), unchecked)
     pkg/apk/apk/common.go     sanitizeArchivePath
     pkg/apk/apk/cache.go      etagFromResponse, cacheFileFromEtag, cacheDirFromFile,
                               cachePathFromURL, cacheDirForPackage
     pkg/apk/apk/implementation.go  InitKeyring's key path
     pkg/apk/apk/index.go      the key-name check of parseRepositoryIndex
     pkg/apk/fs/memfs.go, pkg/tarfs/fs.go   getNodeCountLinks (same text twice)

   Quirks are kept: cacheFileFromEtag's prefix test is a test on STRINGS (the
   other four tests are component-wise since fixes 566455e / 75bbb04).  net/url's
   URL.String() is not modelled: [cache_path_from_url] takes its result as an
   argument (see the note there). *)
From Apko Require Import Base.Prelude Base.C18Path Generated.C18.
Open Scope list_scope.

(* ---- prefix-tested joins ------------------------------------------------ *)

(* isWithin(base, p) of rwosfs.go (and the same test inline in common.go):
   filepath.Rel succeeds and its result neither is ".." nor starts with "../" *)
Definition is_within (base p : str) : bool := within base p.

(* sanitizePath(base, p) *)
Definition sanitize_path (base p : str) : option str :=
  let v := join [base; p] in
  if is_within base v then Some v else None.

(* sanitizeArchivePath(d, t) *)
Definition sanitize_archive_path (d t : str) : option str :=
  let v := join [d; t] in
  if is_within d v then Some v else None.

(* the test at the top of dirFS.Link; the path handed to os.Link when it passes *)
Definition link_target (base oldname : str) : option str :=
  let target := clean (join [base; oldname]) in
  if is_within base target then Some target else None.

(* what the three tests were before fix 566455e, and what cacheFileFromEtag
   still does: a prefix test on the STRINGS *)
Definition string_prefix_test (base p : str) : bool := has_prefix p base.

(* every other mutating dirFS method: filepath.Join(f.base, name), no test *)
Definition dirfs_host_path (base name : str) : str := join [base; name].

(* ---- ETag -> file name ---------------------------------------------------- *)

Definition in_set (cut : str) (c : ascii) : bool := existsb (Ascii.eqb c) cut.
(* strings.Trim(s, cut) for an ASCII cut set *)
Definition trim (cut s : str) : str :=
  rev (drop_while (in_set cut) (rev (drop_while (in_set cut) s))).

Section Base32.
  Variable alpha : str.     (* 32 characters *)
  Variable pad : ascii.
  Definition b32c (v : N) (i : N) : ascii :=
    nth (N.to_nat ((v / 2 ^ (35 - 5 * i)) mod 32)) alpha pad.
  Definition b32chunk (v : N) (n : nat) : str :=
    map (fun i => b32c v (N.of_nat i)) (seq 0 n) ++ repeat pad (8 - n).
  Definition word (a b c d e : N) : N :=
    (a * 2 ^ 32 + b * 2 ^ 24 + c * 2 ^ 16 + d * 2 ^ 8 + e)%N.
  (* encoding/base32 EncodeToString with padding *)
  Fixpoint b32 (l : list N) : str :=
    match l with
    | [] => []
    | [a] => b32chunk (word a 0 0 0 0) 2
    | [a; b] => b32chunk (word a b 0 0 0) 4
    | [a; b; c] => b32chunk (word a b c 0 0) 5
    | [a; b; c; d] => b32chunk (word a b c d 0) 7
    | a :: b :: c :: d :: e :: rest => b32chunk (word a b c d e) 8 ++ b32 rest
    end.
End Base32.

Definition pad_char : ascii := match la etag_pad with c :: _ => c | [] => "="%char end.
Definition etag_encode (s : str) : str := b32 (la etag_alphabet) pad_char (map N_of_ascii s).

(* etagFromResponse: [hdr] is resp.Header["Etag"] (None = key absent) *)
Definition etag_from_response (hdr : option (list str)) : option str :=
  match hdr with
  | Some (v :: _) =>
      match v with
      | [] => None
      | _ => match etag_encode (trim (la etag_trim_cutset) v) with
             | [] => None
             | e => Some e
             end
      end
  | _ => None
  end.

Definition etag_dir_ext (cacheFile : str) : str * str :=
  if has_suffix cacheFile (la etag_index_suffix)
  then (join [dir cacheFile; la etag_index_dir], la etag_ext_index)
  else (dir cacheFile, la etag_ext_default).

(* cacheFileFromEtag; [cwd] is the working directory filepath.Abs consults *)
Definition cache_file_from_etag (cwd cacheFile etag : str) : option str :=
  let '(cacheDir, ext) := etag_dir_ext cacheFile in
  let absPath := abs cwd (join [cacheDir; etag ++ ext]) in
  if has_prefix absPath cacheDir then Some absPath else None.

(* cacheDirFromFile *)
Definition cache_dir_from_file (cacheFile : str) : str :=
  if has_suffix cacheFile (la etag_index_suffix)
  then join [dir cacheFile; la etag_index_dir] else dir cacheFile.

(* ---- URL -> cache path ------------------------------------------------------ *)

Definition hexdigit (n : N) : ascii :=
  nth (N.to_nat n) (la "0123456789ABCDEF") "0"%char.

Definition unreserved (c : ascii) : bool :=
  let n := N_of_ascii c in
  ((48 <=? n) && (n <=? 57) || (65 <=? n) && (n <=? 90) || (97 <=? n) && (n <=? 122)
   || (n =? 45) || (n =? 95) || (n =? 46) || (n =? 126))%N.

(* url.QueryEscape *)
Fixpoint qescape (s : str) : str :=
  match s with
  | [] => []
  | c :: s' =>
      if unreserved c then c :: qescape s'
      else if Ascii.eqb c " "%char then "+"%char :: qescape s'
      else "%"%char :: hexdigit (N_of_ascii c / 16) :: hexdigit (N_of_ascii c mod 16) :: qescape s'
  end.

(* the path u2 is given before it is printed: Dir(Dir(u.Path)) *)
Definition url_repo_dir (path : str) : str := dir (dir path).

(* cachePathFromURL(root, u): [path] is u.Path; [ustr] is u2.String(), where u2
   is u with query and raw fragment cleared and Path := url_repo_dir path.
   URL.String() belongs to net/url and is taken as given; the harness reports
   it (computed with the same three field edits) next to the observed result. *)
Definition cache_path_from_url (root ustr path : str) : option str :=
  let filename := base path in
  let archDir := dir path in
  let d := base archDir in
  let cacheFile := clean (join [root; qescape ustr; d; filename]) in
  (* since fix 75bbb04: component-wise, and the root itself is refused *)
  if strictly_within (clean root) cacheFile then Some cacheFile else None.

(* URL.String() for the plainest URLs (scheme://host + a path made of
   unreserved characters and '/'): used by the correspondence to cross-check
   the reported [ustr] on that class *)
Definition simple_url_string (scheme host p : str) : str :=
  scheme ++ la "://" ++ host ++ (if is_abs p then p else match p with [] => [] | _ => sl :: p end).

(* cacheDirForPackage after packageAsURL *)
Definition cache_dir_for_package (root ustr path : str) : option str :=
  match cache_path_from_url root ustr path with
  | None => None
  | Some p => if str_eqb (ext p) (la ".apk") then Some (trim_suffix p (la ".apk")) else None
  end.

(* ---- key files ---------------------------------------------------------------- *)

(* InitKeyring: filepath.Join("etc", "apk", "keys", filepath.Base(element)) *)
Definition key_path (element : str) : str := join (map la key_dir_elems ++ [base element]).

Fixpoint contains (s p : str) : bool :=
  has_prefix s p || match s with [] => false | _ :: s' => contains s' p end.

(* parseRepositoryIndex: key names that are paths are refused *)
Definition keyname_ok (k : str) : bool := negb (contains k (la keyname_forbidden)).

(* ---- cachedPackage: the cache member named by .PKGINFO's datahash ------------- *)

Definition is_hex_char (c : ascii) : bool :=
  let n := N_of_ascii c in
  ((48 <=? n) && (n <=? 57) || (65 <=? n) && (n <=? 70) || (97 <=? n) && (n <=? 102))%N.

(* hex.DecodeString(s) succeeds: an even number of hexadecimal digits *)
Definition hex_ok (s : str) : bool := Nat.even (List.length s) && forallb is_hex_char s.

(* dat := filepath.Join(cacheDir, datahash+".dat.tar.gz"); the datahash is the
   text of the cached control section's .PKGINFO line, unsanitised *)
Definition cache_member_path (cacheDir datahash : str) : str :=
  join [cacheDir; datahash ++ la cached_dat_suffix].

(* exp.TarFile = strings.TrimSuffix(exp.PackageFile, ".gz") *)
Definition cache_member_tar (cacheDir datahash : str) : str :=
  trim_suffix (cache_member_path cacheDir datahash) (la cached_tar_trim).

(* What cachedPackage does with the name, in source order (the control file is
   there and carries exactly one datahash value):
     os.Stat(dat)                         -- a read; error = cache miss
     hex.DecodeString(datahash)           -- error = cache miss
     exp.PackageData(): os.Open(TarFile); if it does not exist: os.Open(dat),
       os.CreateTemp(filepath.Dir(TarFile), "*.tmp"), os.Rename(tmp, TarFile)
   [false] = the path is only read, [true] = something is created or replaced
   there (for the temporary file: in that directory). *)
Definition cached_package_touches (cacheDir datahash : str) (dat_exists : bool) : list (bool * str) :=
  let dat := cache_member_path cacheDir datahash in
  let tarf := cache_member_tar cacheDir datahash in
  (false, dat) ::
  (if dat_exists && (if cached_hex_before_data then hex_ok datahash else true)
   then [(false, tarf); (false, dat); (true, dir tarf); (true, tarf)]
   else []).

(* the uncompressed tar is rebuilt next to the member (it did not exist before) *)
Definition cached_rebuilds (datahash : str) (dat_exists : bool) : bool :=
  dat_exists && (if cached_hex_before_data then hex_ok datahash else true).

(* verifyExpanded (fix 6d335fb), the datahash part: every datahash value of the
   fetched control section is empty or equals the hex sha256 of the data section
   ([got]); only then are the sections moved into the cache.  cachedPackage's
   a.datahash() wants exactly one value. *)
Definition verify_datahash_accepts (values : list str) (got : str) : bool :=
  forallb (fun v => str_eqb v [] || str_eqb v got) values.

(* ---- the in-memory trees (memfs.go and tarfs/fs.go) --------------------------- *)

Inductive node :=
| NFile
| NLink (target : str)
| NDir (children : list (str * node)).

Fixpoint lookup_child (ch : list (str * node)) (name : str) : option node :=
  match ch with
  | [] => None
  | (n, x) :: t => if str_eqb n name then Some x else lookup_child t name
  end.

Inductive lres := LOk (n : node) | LNotExist | LTooDeep | LFuel.

(* getNodeCountLinks(path, depth): [fuel] bounds the recursion through link
   targets; every component, ".." included, is looked up as a child name *)
Section Walk.
  Variable max_links : nat.
  Variable recurse : str -> nat -> lres.   (* getNodeCountLinks on a link target *)

  Fixpoint walk (cur : node) (traversed : list str) (parts : list str) (depth : nat) : lres :=
    match parts with
    | [] => LOk cur
    | part :: rest =>
        if str_eqb part [] then walk cur traversed rest depth
        else match cur with
             | NDir ch =>
                 match lookup_child ch part with
                 | None => LNotExist
                 | Some (NLink target) =>
                     if Nat.ltb max_links (S depth) then LTooDeep
                     else
                       let t := if is_abs target then target
                                else join [join_sl traversed; target] in
                       match recurse t (S depth) with
                       | LOk n => walk n (traversed ++ [part]) rest depth
                       | e => e
                       end
                 | Some n => walk n (traversed ++ [part]) rest depth
                 end
             | _ => LNotExist
             end
    end.
End Walk.

Fixpoint get_node (fuel : nat) (max_links : nat) (root : node) (path : str) (depth : nat) : lres :=
  match fuel with
  | O => LFuel
  | S fuel' =>
      if str_eqb path [sl] || str_eqb path [dot] then LOk root
      else walk max_links (get_node fuel' max_links root) root [] (split path) depth
  end.

(* ---- a host directory tree with symbolic links, as far as C18-F2 needs it ------ *)

(* the kernel resolves a link found on the way: [links] maps a host path to the
   link's target; one rewriting step replaces the longest-standing prefix *)
Fixpoint resolve_once (links : list (str * str)) (p : str) : option str :=
  match links with
  | [] => None
  | (l, target) :: more =>
      if underb l p && negb (str_eqb (clean l) (clean p)) then
        let rest := skipn (List.length (cc l)) (cc p) in
        let t := if is_abs target then target else join [dir l; target] in
        Some (join [t; join_sl rest])
      else resolve_once more p
  end.

Fixpoint resolve (fuel : nat) (links : list (str * str)) (p : str) : str :=
  match fuel with
  | O => p
  | S f => match resolve_once links p with Some q => resolve f links q | None => p end
  end.
