(* C18 — the directory-backed filesystem on a host that has a PARENT directory.

   Model/DirFS.v (C17) puts the overlay next to a host tree rooted at the base:
   ".." at the base stays there, so WHERE an escaping call lands cannot be said
   in it.  Here the host is one tree rooted at "/" ([node] of Model/Confine.v:
   files, symbolic links with their target text, directories), the base is a
   place inside it, every os.* call of a dirFS method is resolved the way the
   kernel resolves a path (component by component, ".." to the PHYSICAL parent,
   links followed where the call follows them), and each call reports the
   places it creates, modifies or deletes.

     pkg/apk/fs/rwosfs.go   for every mutating dirFS method: the os call on
                            filepath.Join(f.base, name) and the call on the
                            in-memory overlay, in source order ([xstep])
     pkg/apk/fs/memfs.go    the overlay's side of those methods: Mkdir, MkdirAll,
                            OpenFile(O_CREATE) / Create / WriteFile, Symlink, Link,
                            Remove, Chmod, Mknod, over getNodeCountLinks
                            ([get_pos]: the lookup of Model/Confine.v's [get_node],
                            returning the place of the node instead of the node)
     os / the kernel        open(O_CREAT), mkdir, os.MkdirAll, symlink, link
                            (linkat without AT_SYMLINK_FOLLOW), unlink/rmdir,
                            chmod, mknod ([kwalk] and the h_* calls)

   Not modelled: permissions (the harness runs as a user they do not stop),
   file contents, link counts (a hard link is a copy; the call reports the source
   as touched), open handles, the case-insensitive mode.  No proofs here. *)
From Coq Require Import List Ascii String Bool Arith.
From Apko Require Import Base.Prelude Base.C18Path Generated.C18 Model.Confine.
Import ListNotations.
Open Scope list_scope.

(* a place in a tree: the chain of child names from its root *)
Definition pos := list str.

Fixpoint node_at (t : node) (p : pos) : option node :=
  match p with
  | [] => Some t
  | c :: p' =>
      match t with
      | NDir ch => match lookup_child ch c with Some n => node_at n p' | None => None end
      | _ => None
      end
  end.

(* replace ([Some]) or remove ([None]) the first child called [c]; append when absent *)
Fixpoint set_child (ch : list (str * node)) (c : str) (v : option node) : list (str * node) :=
  match ch with
  | [] => match v with Some n => [(c, n)] | None => [] end
  | (k, x) :: t =>
      if str_eqb k c then match v with Some n => (k, n) :: t | None => t end
      else (k, x) :: set_child t c v
  end.

(* apply [f] to the first child called [c] *)
Fixpoint map_child (ch : list (str * node)) (c : str) (f : node -> node) : list (str * node) :=
  match ch with
  | [] => []
  | (k, x) :: t => if str_eqb k c then (k, f x) :: t else (k, x) :: map_child t c f
  end.

Fixpoint upd_at (t : node) (p : pos) (f : node -> node) {struct p} : node :=
  match p with
  | [] => f t
  | c :: p' =>
      match t with
      | NDir ch => NDir (map_child ch c (fun n => upd_at n p' f))
      | _ => t
      end
  end.

Definition put_child (c : str) (v : option node) (d : node) : node :=
  match d with NDir ch => NDir (set_child ch c v) | x => x end.

Definition add_at (t : node) (par : pos) (c : str) (n : node) : node := upd_at t par (put_child c (Some n)).
Definition del_at (t : node) (p : pos) : node := upd_at t (removelast p) (put_child (last p []) None).

Definition is_dir_at (t : node) (p : pos) : bool :=
  match node_at t p with Some (NDir _) => true | _ => false end.
Definition child_at (t : node) (p : pos) (c : str) : option node :=
  match node_at t p with Some (NDir ch) => lookup_child ch c | _ => None end.

(* ---- the kernel's path resolution on the host tree ------------------------------- *)

Inductive kres :=
| KFound (p : pos) (n : node)       (* the object exists, at this place *)
| KAbsent (par : pos) (name : str)  (* its directory exists, at [par]; the last name is free *)
| KErr.                             (* ENOENT / ENOTDIR / ELOOP on the way *)

Definition all_skip (l : list str) : bool := forallb is_skip l.

(* [cur] is where the walk stands (a physical place: no links, no dots),
   [comps] what is left of the path; a link met on the way is replaced by its
   target's components, continued from the link's directory ("/" if the target
   is absolute); [follow] = the call follows a link in the LAST component *)
Fixpoint kwalk (fuel : nat) (h : node) (cur : pos) (comps : list str) (follow : bool) : kres :=
  match fuel with
  | O => KErr
  | S f =>
      match comps with
      | [] => match node_at h cur with Some n => KFound cur n | None => KErr end
      | c :: rest =>
          if is_skip c then kwalk f h cur rest follow
          else
            match node_at h cur with
            | Some (NDir ch) =>
                if is_dd c then kwalk f h (removelast cur) rest follow
                else
                  match lookup_child ch c with
                  | None => if all_skip rest then KAbsent cur c else KErr
                  | Some (NLink t) =>
                      if all_skip rest && negb follow then KFound (cur ++ [c]) (NLink t)
                      else if str_eqb t [] then KErr
                      else kwalk f h (if is_abs t then [] else cur) (split t ++ rest) follow
                  | Some _ => kwalk f h (cur ++ [c]) rest follow
                  end
            | _ => KErr
            end
      end
  end.

Definition kfuel : nat := 400.

(* the result of one os call: the host afterwards, err == nil, the places created,
   modified or deleted *)
Definition hres := (node * bool * list pos)%type.
Definition hfail (h : node) : hres := (h, false, []).

(* open(O_CREAT|O_TRUNC) + write: os.WriteFile, os.Create, os.OpenFile(.., O_CREATE, ..) *)
Definition h_write (h : node) (p : pos) : hres :=
  match kwalk kfuel h [] p true with
  | KFound q NFile => (h, true, [q])
  | KAbsent par c => (add_at h par c NFile, true, [par ++ [c]])
  | _ => hfail h
  end.

Definition h_mkdir (h : node) (p : pos) : hres :=
  match kwalk kfuel h [] p false with
  | KAbsent par c => (add_at h par c (NDir []), true, [par ++ [c]])
  | _ => hfail h
  end.

(* os.MkdirAll: Stat; a directory: done; something else: ENOTDIR; otherwise the
   parent first (the textual parent of the cleaned path), then Mkdir *)
Fixpoint h_mkdirall (n : nat) (h : node) (p : pos) : hres :=
  match kwalk kfuel h [] p true with
  | KFound _ (NDir _) => (h, true, [])
  | KFound _ _ => hfail h
  | _ =>
      match n with
      | O => hfail h
      | S n' =>
          let '(h1, ok, t1) := match p with [] => (h, true, []) | _ => h_mkdirall n' h (removelast p) end in
          if ok then let '(h2, ok2, t2) := h_mkdir h1 p in (h2, ok2, t1 ++ t2) else (h1, false, t1)
      end
  end.

Definition h_symlink (h : node) (t : str) (p : pos) : hres :=
  match kwalk kfuel h [] p false with
  | KAbsent par c => (add_at h par c (NLink t), true, [par ++ [c]])
  | _ => hfail h
  end.

(* link(2) without AT_SYMLINK_FOLLOW: neither last component is followed; the
   source's link count changes *)
Definition h_link (h : node) (old new : pos) : hres :=
  match kwalk kfuel h [] old false with
  | KFound _ (NDir _) => hfail h
  | KFound q n =>
      match kwalk kfuel h [] new false with
      | KAbsent par c => (add_at h par c n, true, [par ++ [c]; q])
      | _ => hfail h
      end
  | _ => hfail h
  end.

(* os.Remove: unlink, else rmdir *)
Definition h_remove (h : node) (p : pos) : hres :=
  match kwalk kfuel h [] p false with
  | KFound _ (NDir (_ :: _)) => hfail h
  | KFound [] _ => hfail h
  | KFound q _ => (del_at h q, true, [q])
  | _ => hfail h
  end.

Definition h_chmod (h : node) (p : pos) : hres :=
  match kwalk kfuel h [] p true with
  | KFound q _ => (h, true, [q])
  | _ => hfail h
  end.

Definition h_mknod (h : node) (p : pos) : hres :=
  match kwalk kfuel h [] p false with
  | KAbsent par c => (add_at h par c NFile, true, [par ++ [c]])
  | _ => hfail h
  end.

(* ---- the overlay (memfs.go) ---------------------------------------------------------- *)

(* getNodeCountLinks, returning the place of the node it finds *)
Section PWalk.
  Variable max_links : nat.
  Variable root : node.
  Variable recurse : str -> nat -> option pos.

  Fixpoint pwalk (cur : pos) (traversed : list str) (parts : list str) (depth : nat) : option pos :=
    match parts with
    | [] => Some cur
    | part :: rest =>
        if str_eqb part [] then pwalk cur traversed rest depth
        else
          match node_at root cur with
          | Some (NDir ch) =>
              match lookup_child ch part with
              | None => None
              | Some (NLink target) =>
                  if Nat.ltb max_links (S depth) then None
                  else
                    let t := if is_abs target then target else join [join_sl traversed; target] in
                    match recurse t (S depth) with
                    | Some q => pwalk q (traversed ++ [part]) rest depth
                    | None => None
                    end
              | Some _ => pwalk (cur ++ [part]) (traversed ++ [part]) rest depth
              end
          | _ => None
          end
    end.
End PWalk.

Fixpoint get_pos (fuel : nat) (max_links : nat) (root : node) (path : str) (depth : nat) : option pos :=
  match fuel with
  | O => None
  | S fuel' =>
      if str_eqb path [sl] || str_eqb path [dot] then Some []
      else pwalk max_links root (get_pos fuel' max_links root) [] [] (split path) depth
  end.

Definition ov_fuel : nat := S (S memfs_max_links).
Definition ov_pos (ov : node) (path : str) : option pos := get_pos ov_fuel memfs_max_links ov path 0.

Definition ores := (node * bool)%type.
Definition ofail (ov : node) : ores := (ov, false).

(* Mkdir / Symlink / Mknod: the parent (filepath.Dir, looked up) must be a
   directory and the base name free *)
Definition ov_new (ov : node) (name : str) (n : node) : ores :=
  match ov_pos ov (dir name) with
  | Some q =>
      if is_dir_at ov q then
        match child_at ov q (base name) with
        | Some _ => ofail ov
        | None => (add_at ov q (base name) n, true)
        end
      else ofail ov
  | None => ofail ov
  end.

(* OpenFile with O_CREATE (Create, WriteFile): a link in the last component is
   followed, its target joined to the textual parent *)
Fixpoint ov_open (fuel : nat) (ov : node) (name : str) (cnt : nat) : ores :=
  match fuel with
  | O => ofail ov
  | S f =>
      match ov_pos ov (dir name) with
      | None => ofail ov
      | Some q =>
          if negb (is_dir_at ov q) then ofail ov
          else
            match child_at ov q (base name) with
            | Some (NDir _) => ofail ov
            | None => (add_at ov q (base name) NFile, true)
            | Some (NLink t) =>
                if Nat.ltb memfs_max_links (S cnt) then ofail ov
                else ov_open f ov (if is_abs t then t else join [dir name; t]) (S cnt)
            | Some NFile => (ov, true)
            end
      end
  end.

(* MkdirAll: every component but "" and "." is entered as a child name (".."
   included), created when missing; a link is resolved from the root *)
Fixpoint ov_mkdirall (ov : node) (cur : pos) (traversed parts : list str) : ores :=
  match parts with
  | [] => (ov, true)
  | part :: rest =>
      if is_skip part then ov_mkdirall ov cur traversed rest
      else
        match child_at ov cur part with
        | None => ov_mkdirall (add_at ov cur part (NDir [])) (cur ++ [part]) (traversed ++ [part]) rest
        | Some (NLink t) =>
            let tt := if is_abs t then t else join [join_sl traversed; t] in
            match ov_pos ov tt with
            | Some q => if is_dir_at ov q then ov_mkdirall ov q (traversed ++ [part]) rest else ofail ov
            | None => ofail ov
            end
        | Some (NDir _) => ov_mkdirall ov (cur ++ [part]) (traversed ++ [part]) rest
        | Some NFile => ofail ov
        end
  end.

(* Link: the new name's parent must be a directory, the old name is looked up
   (links followed), the new base name must be free; the node is shared (here: copied) *)
Definition ov_link (ov : node) (old new : str) : ores :=
  match ov_pos ov (dir new) with
  | Some q =>
      if is_dir_at ov q then
        match ov_pos ov old with
        | Some qo =>
            match node_at ov qo, child_at ov q (base new) with
            | Some n, None => (add_at ov q (base new) n, true)
            | _, _ => ofail ov
            end
        | None => ofail ov
        end
      else ofail ov
  | None => ofail ov
  end.

(* Remove: whatever the child is (a directory with its content too) *)
Definition ov_remove (ov : node) (name : str) : ores :=
  match ov_pos ov (dir name) with
  | Some q =>
      match child_at ov q (base name) with
      | Some _ => (upd_at ov q (put_child (base name) None), true)
      | None => ofail ov
      end
  | None => ofail ov
  end.

Definition ov_chmod (ov : node) (name : str) : ores :=
  match ov_pos ov name with Some _ => (ov, true) | None => ofail ov end.

(* ---- dirFS: both sides, in source order ------------------------------------------------ *)

Inductive hop :=
| HWriteFile (name : str)
| HMkdirAll (name : str)
| HMkdir (name : str)
| HCreate (name : str)            (* Create / OpenFile(O_CREATE) *)
| HSymlink (target name : str)
| HLink (oldname newname : str)
| HRemove (name : str)
| HChmod (name : str)
| HMknod (name : str).

Record xst := mkX { x_host : node; x_ov : node }.

(* filepath.Join(f.base, name) as the kernel gets it: absolute and clean *)
Definition hpath (b name : str) : pos := cc (dirfs_host_path b name).

(* the host call, its error returned; otherwise the overlay's answer *)
Definition host_then (s : xst) (r : hres) (ovf : node -> ores) : xst * bool * list pos :=
  let '(h1, ok, t) := r in
  if ok then let '(v1, ok') := ovf (x_ov s) in (mkX h1 v1, ok', t)
  else (mkX h1 (x_ov s), false, t).

(* the overlay first, its error returned; otherwise the host call's answer *)
Definition ov_then (s : xst) (r : ores) (hf : node -> hres) : xst * bool * list pos :=
  let '(v1, ok) := r in
  if ok then let '(h1, ok', t) := hf (x_host s) in (mkX h1 v1, ok', t)
  else (mkX (x_host s) v1, false, []).

Definition xstep (b : str) (s : xst) (o : hop) : xst * bool * list pos :=
  let h := x_host s in
  match o with
  | HWriteFile n => host_then s (h_write h (hpath b n)) (fun ov => ov_open ov_fuel ov n 0)
  | HMkdirAll n =>
      host_then s (h_mkdirall (S (List.length (hpath b n))) h (hpath b n)) (fun ov => ov_mkdirall ov [] [] (split n))
  | HMkdir n => host_then s (h_mkdir h (hpath b n)) (fun ov => ov_new ov n (NDir []))
  | HCreate n => ov_then s (ov_open ov_fuel (x_ov s) n 0) (fun h => h_write h (hpath b n))
  | HSymlink t n => host_then s (h_symlink h t (hpath b n)) (fun ov => ov_new ov n (NLink t))
  | HLink old new =>
      match link_target b old with
      | None => (s, false, [])            (* "hardlink target ... is outside of the filesystem" *)
      | Some t => host_then s (h_link h (cc t) (hpath b new)) (fun ov => ov_link ov old new)
      end
  | HRemove n => ov_then s (ov_remove (x_ov s) n) (fun h => h_remove h (hpath b n))
  | HChmod n =>
      (* the host's error is ignored *)
      let '(h1, _, t) := h_chmod h (hpath b n) in
      let '(v1, ok) := ov_chmod (x_ov s) n in (mkX h1 v1, ok, t)
  | HMknod n =>
      (* unix.Mknod; if that fails an empty regular file is written in its place *)
      let '(h1, ok, t) := h_mknod h (hpath b n) in
      if ok then host_then s (h1, ok, t) (fun ov => ov_new ov n NFile)
      else host_then s (h_write h (hpath b n)) (fun ov => ov_new ov n NFile)
  end.

(* a sequence: answers and touched places per operation; [stop] = the caller gives
   up at the first error (the installer) *)
Fixpoint xrun (b : str) (stop : bool) (s : xst) (ops : list hop) : xst * list (bool * list pos) :=
  match ops with
  | [] => (s, [])
  | o :: ops' =>
      let '(s1, ok, t) := xstep b s o in
      if stop && negb ok then (s1, [(ok, t)])
      else let '(s2, rs) := xrun b stop s1 ops' in (s2, (ok, t) :: rs)
  end.

(* DirFS(dir) walks the directory and enters what it finds into the overlay:
   the overlay starts as a copy of the host's subtree at the base *)
Definition xinit (b : str) (h : node) : xst :=
  mkX h (match node_at h (cc b) with Some n => n | None => NDir [] end).

(* ---- DirFS(dir) on a root that already has content ------------------------------------------

   The walk of DirFS enters every entry it finds into the overlay: a directory with
   Mkdir, a symbolic link with Symlink(its target), anything else as a file — by the
   kind the stat it uses reports.  [mirror follow h cur t]: the overlay image of the
   subtree [t] found at [cur]; [follow] = the stat follows symbolic links (a link that
   resolves to a directory is then entered as an EMPTY DIRECTORY, one that resolves to
   a file as a file; a dangling one stays a link).  The code uses the DirEntry's own
   lstat ([dirfs_mirror_stat]): [follow = false], and [xinit] is that image. *)
Fixpoint mirror (follow : bool) (h : node) (cur : pos) (t : node) {struct t} : node :=
  match t with
  | NFile => NFile
  | NLink x =>
      if follow then
        match kwalk kfuel h (removelast cur) [last cur []] true with
        | KFound _ (NDir _) => NDir []
        | KFound _ NFile => NFile
        | _ => NLink x
        end
      else NLink x
  | NDir ch =>
      NDir ((fix go (l : list (str * node)) : list (str * node) :=
               match l with
               | [] => []
               | kv :: r => (fst kv, mirror follow h (cur ++ [fst kv]) (snd kv)) :: go r
               end) ch)
  end.

Definition xinit_stat (follow : bool) (b : str) (h : node) : xst :=
  mkX h (match node_at h (cc b) with Some n => mirror follow h (cc b) n | None => NDir [] end).
