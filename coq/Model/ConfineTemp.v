(* C18 — executable model of the file names apko makes up itself (no proofs here):

     os.CreateTemp / os.MkdirTemp   prefix ++ decimal digits ++ suffix below the
                               directory given (the pattern split at its last "*";
                               a pattern with a separator is refused)
     pkg/apk/expandapk         ExpandApk: the temporary directory in cacheDir, the
                               stream files and the uncompressed tar in it;
                               PackageData: the temporary file next to TarFile
     pkg/paths                 AdvertiseCachedFile(src, dst): a symlink at dst,
                               src removed when dst is there already
     pkg/apk/apk/implementation.go  cachePackage: the advertised names;
                               fetchAlpineKeys: the key's file name
                               (url.PathUnescape of filepath.Base of the URL) *)
From Coq Require Import List Ascii String Bool Arith NArith.
From Apko Require Import Base.Prelude Base.C18Path Generated.C18 Model.Confine.
Import ListNotations.
Open Scope list_scope.

Definition is_digit (c : ascii) : bool :=
  let n := N_of_ascii c in ((48 <=? n) && (n <=? 57))%N.
Definition digits_ok (r : str) : bool := negb (str_eqb r []) && forallb is_digit r.

Definition star : ascii := "*"%char.

(* prefixAndSuffix: the pattern around its last "*" *)
Fixpoint last_star (p : str) : option (str * str) :=
  match p with
  | [] => None
  | c :: p' =>
      match last_star p' with
      | Some (a, b) => Some (c :: a, b)
      | None => if Ascii.eqb c star then Some ([], p') else None
      end
  end.

Definition temp_name (pattern r : str) : option str :=
  if existsb is_sl pattern then None
  else match last_star pattern with
       | Some (pre, suf) => Some (pre ++ r ++ suf)
       | None => Some (pattern ++ r)
       end.

(* joinPath(dir, name): text, not filepath.Join *)
Definition temp_path (dir pattern r : str) : option str :=
  option_map (fun n => if has_suffix dir [sl] then dir ++ n else dir ++ sl :: n) (temp_name pattern r).

(* ---- ExpandApk ------------------------------------------------------------------------ *)

Definition expand_tmpdir (cacheDir r : str) : option str := temp_path cacheDir (la expand_tmpdir_pattern) r.

(* expandApkWriter.Next: fmt.Sprintf("%s-%d.%s", filepath.Join(parentDir, baseName), streamId, ext);
   [k] is the stream number in decimal *)
Definition stream_name (k : str) : str := la expand_stream_base ++ la "-" ++ k ++ la "." ++ la expand_stream_ext.
Definition stream_file (tdir k : str) : str :=
  join [tdir; la expand_stream_base] ++ la "-" ++ k ++ la "." ++ la expand_stream_ext.
Definition stream_tar (tdir k : str) : str := trim_suffix (stream_file tdir k) (la expand_tar_trim).

(* everything ExpandApk(source, cacheDir) creates: [r] the random digits of the
   directory name, [ks] the numbers of the streams, [kt] the one whose tar is kept *)
Definition expand_creates (cacheDir r : str) (ks : list str) (kt : str) : list str :=
  match expand_tmpdir cacheDir r with
  | None => []
  | Some td => td :: map (stream_file td) ks ++ [stream_tar td kt]
  end.

(* PackageData: os.CreateTemp(filepath.Dir(TarFile), "*.tmp"), renamed to TarFile *)
Definition packagedata_tmp (tarf r : str) : option str := temp_path (dir tarf) (la packagedata_tmp_pattern) r.

(* AdvertiseCachedFile(src, dst): os.Symlink(rel, dst); os.Remove(src) when dst exists *)
Definition advertise_touches (src dst : str) : list str := [src; dst].

(* cachePackage: <cacheDir>/<hex of a hash><suffix> *)
Definition advertised_name (cacheDir hexname suffix : str) : str := join [cacheDir; hexname ++ suffix].

(* ---- fetchAlpineKeys ------------------------------------------------------------------ *)

Definition hexval (c : ascii) : option N :=
  let n := N_of_ascii c in
  if ((48 <=? n) && (n <=? 57))%N then Some (n - 48)%N
  else if ((65 <=? n) && (n <=? 70))%N then Some (n - 55)%N
  else if ((97 <=? n) && (n <=? 102))%N then Some (n - 87)%N
  else None.

Definition pct : ascii := "%"%char.

(* url.PathUnescape: %XX is decoded, a malformed escape is an error, "+" stays *)
Fixpoint path_unescape (s : str) : option str :=
  match s with
  | [] => Some []
  | c :: r =>
      if Ascii.eqb c pct then
        match r with
        | h1 :: h2 :: r' =>
            match hexval h1, hexval h2 with
            | Some a, Some b => option_map (cons (ascii_of_N (16 * a + b))) (path_unescape r')
            | _, _ => None
            end
        | _ => None
        end
      else option_map (cons c) (path_unescape r)
  end.

(* filepath.Join(keysDirPath, url.PathUnescape(filepath.Base(u))) *)
Definition alpine_key_file (u : str) : option str :=
  option_map (fun n => join [la alpine_key_dir; n]) (path_unescape (base u)).

(* ---- cachePackage and retrieveAndSaveFile, by the derivations goextract reads ------------------ *)

(* [cachepackage_sites]: the four names AdvertiseCachedFile is given as destinations:
   filepath.Join(cacheDir, hex(ControlHash) + sig), filepath.Join(cacheDir, hex(PackageHash) + dat),
   strings.TrimSuffix(<the dat name>, trim), filepath.Join(cacheDir, hex(ControlHash) + ctl);
   the suffix literals are the generated ones, in source order ctl, sig, dat *)
Definition cp_suffix (i : nat) : str := la (nth i cachepackage_suffixes ""%string).
Definition cache_package_dsts (cacheDir ctlhex dathex : str) : list str :=
  [advertised_name cacheDir ctlhex (cp_suffix 1);
   advertised_name cacheDir dathex (cp_suffix 2);
   trim_suffix (advertised_name cacheDir dathex (cp_suffix 2)) (la cachepackage_tar_trim);
   advertised_name cacheDir ctlhex (cp_suffix 0)].

(* [retrieve_sites]: os.MkdirAll(filepath.Dir(cacheFile)), os.CreateTemp(filepath.Dir(cacheFile), "*.tmp"),
   AdvertiseCachedFile(tmp, cacheFile) — [cacheFile] is what the cachePlacer returned *)
Definition retrieve_tmp_pattern : str :=
  match retrieve_sites with
  | _ :: (_, [_; pat]) :: _ => la (String.substring 1 (String.length pat - 2) pat)   (* the literal without its quotes *)
  | _ => []
  end.
Definition retrieve_creates (cacheFile r : str) : list str :=
  dir cacheFile ::
  match temp_path (dir cacheFile) retrieve_tmp_pattern r with Some t => [t] | None => [] end ++ [cacheFile].
