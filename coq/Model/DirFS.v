(* C17 — executable model of the directory-backed filesystem
   (pkg/apk/fs/rwosfs.go, dirFS) on a case-sensitive host (caseMap == nil, so
   caseSensitiveOnDisk / createOnDisk / removeOnDisk all answer true): an
   in-memory overlay (a memFS: Model/MemFS.v, backend MemFS) next to the host
   directory, and for every FullFS method which of the two is asked, in which
   order, whose error wins and whose answer is returned.

   The host side is abstract: one reference-filesystem step (Spec/FsSpec.v,
   [spec_step]) per os.* call.  What this file transcribes is therefore only
   what dirFS decides itself.  No proofs in this file.

   Not modelled: the case-insensitive mode (caseMap), Open/OpenReaderAt (the
   only callers of sanitizePath; not in the operation alphabet), Sub, the
   host's permission checks (the correspondence runs as a user whom they do not
   stop), umask (every observed mode comes from the overlay). *)
From Apko Require Export Model.MemFS Spec.FsSpec.
Open Scope string_scope. Open Scope list_scope.

Record dst := mkD { d_ov : st; d_host : st }.
Definition dinit : dst := mkD init_st init_st.

Definition ov_step : st -> op -> st * out := model_step MemFS.
(* one os.* call on the host: the reference's step, except that Go's os.File
   answers a zero-length Read / ReadAt itself (0 bytes, no error) unless the
   file is closed (ReadAt tests the offset first) *)
(* os.Link is linkat(2) without AT_SYMLINK_FOLLOW, in the order the Linux VFS
   tests things: the old name (its last symbolic link NOT followed), then the
   new name's directory, then "exists", then "is a directory" *)
(* mkdir / symlink / mknod / link at a name whose last component is ".", ".." or
   "/" and that resolves: the kernel says EEXIST (the reference files it under
   "other" together with unlink and readlink of such names) *)
Definition dot_last (h : list node) (p : path) : bool :=
  match s_path h p false with
  | RFound (_ :: _ :: _) (Some _) => false
  | RFound _ _ => true
  | _ => false
  end.

Definition host_link (s : st) (old new : path) : st * out :=
  let h := heap s in
  match s_lnode h old with
  | inr e => (s, OErr e)
  | inl t =>
      if dot_last h new then (s, OErr EExist) else
      match s_leaf h new with
      | inr e => (s, OErr e)
      | inl (pi, nm, c) =>
          if negb (is_dir h pi) then (s, OErr EOther)
          else match c with
               | Some _ => (s, OErr EExist)
               | None => if is_dir h t then (s, OErr EOther) else (seth s (add_child h pi nm t), OOk)
               end
      end
  end.

Definition host_step (s : st) (o : op) : st * out :=
  match o with
  | Link old new => host_link s old new
  | Mkdir p _ | Symlink _ p | Mknod p _ _ => if dot_last (heap s) p then (s, OErr EExist) else spec_step s o
  | Remove p =>
      (* filepath.Join(base, ".") is base itself: rmdir(base) says ENOTEMPTY (if base is
         empty it is removed; that state is outside this model and answered "other") *)
      if is_root_path p && nonempty (n_children (get (heap s) 0)) then (s, OErr EExist) else spec_step s o
  | Read i O => with_handle s i (fun _ => (s, OBytes []))
  | ReadAt i O off => with_handle s i (fun _ => if (off <? 0)%Z then (s, OErr EOther) else (s, OBytes []))
  | _ => spec_step s o
  end.

(* filepath.Clean(filepath.Join(base, oldname)) leaves base: the cleaned name
   begins with ".." (a leading "/" is absorbed by Join) *)
Definition climbs (p : path) : bool :=
  match clean_loop false [] p with c :: _ => String.eqb c ".." | [] => false end.

(* every name the host sees went through filepath.Join(f.base, name), which cleans
   it lexically (and absorbs a leading "/"); link TARGETS are passed as they are *)
Definition hp (p : path) : path := go_clean false p.
Definition host_op (o : op) : op :=
  match o with
  | Mkdir p m => Mkdir (hp p) m | MkdirAll p m => MkdirAll (hp p) m
  | OpenFile p fl m => OpenFile (hp p) fl m | Create p => Create (hp p)
  | ReadFile p => ReadFile (hp p) | WriteFile p b m => WriteFile (hp p) b m
  | ReadDir p => ReadDir (hp p) | Stat p => Stat (hp p) | Lstat p => Lstat (hp p)
  | Symlink t p => Symlink t (hp p) | Link old new => Link (hp old) (hp new)
  | Readlink p => Readlink (hp p) | Remove p => Remove (hp p)
  | Chmod p m => Chmod (hp p) m | Chown p u g => Chown (hp p) u g | Chtimes p t => Chtimes (hp p) t
  | Mknod p m dv => Mknod (hp p) m dv | Readnod p => Readnod (hp p)
  | SetXattr p a v => SetXattr (hp p) a v | GetXattr p a => GetXattr (hp p) a
  | RemoveXattr p a => RemoveXattr (hp p) a | ListXattrs p => ListXattrs (hp p)
  | Read _ _ | ReadAt _ _ _ | Write _ _ | Seek _ _ _ | Close _ => o
  end.
Definition host_call (s : st) (o : op) : st * out := host_step s (host_op o).

(* the host call first; its error is returned; otherwise the overlay's answer *)
Definition host_then_ov (d : dst) (oh oo : op) : dst * out :=
  let '(h1, r) := host_call (d_host d) oh in
  if is_failure r then (mkD (d_ov d) h1, r)
  else let '(v1, r') := ov_step (d_ov d) oo in (mkD v1 h1, r').
(* the host call first, its error ignored *)
Definition host_ignored_then_ov (d : dst) (o : op) : dst * out :=
  let '(h1, _) := host_call (d_host d) o in
  let '(v1, r') := ov_step (d_ov d) o in (mkD v1 h1, r').
(* the overlay first; its error is returned; otherwise the host's answer *)
Definition ov_then_host (d : dst) (oo oh : op) : dst * out :=
  let '(v1, r) := ov_step (d_ov d) oo in
  if is_failure r then (mkD v1 (d_host d), r)
  else let '(h1, r') := host_call (d_host d) oh in (mkD v1 h1, r').
Definition only_ov (d : dst) (o : op) : dst * out :=
  let '(v1, r) := ov_step (d_ov d) o in (mkD v1 (d_host d), r).
Definition only_host (d : dst) (o : op) : dst * out :=
  let '(h1, r) := host_call (d_host d) o in (mkD (d_ov d) h1, r).

(* OpenFile with O_CREATE / Create: the overlay creates (or opens) the entry and
   its handle is closed at once; the file that is returned is the host's *)
Definition open_both (d : dst) (o : op) : dst * out :=
  let '(v1, r) := ov_step (d_ov d) o in
  if is_failure r then (mkD v1 (d_host d), r)
  else let '(v2, _) := ov_step v1 (Close (List.length (handles (d_ov d)))) in
       let '(h1, r') := host_call (d_host d) o in (mkD v2 h1, r').

(* dirFS.Mknod: err != nil && !errors.Is(err, unix.EEXIST) *)
Definition mknod_fallback (r : out) : bool :=
  match r with OErr EExist => false | r => is_failure r end.

Definition dirfs_step (d : dst) (o : op) : dst * out :=
  match o with
  | Mkdir _ _ | MkdirAll _ _ | Symlink _ _ => host_then_ov d o o
  | Link old new =>
      if climbs old then (d, OErr EOther)               (* "hardlink target ... is outside of the filesystem" *)
      else host_then_ov d o o
  | WriteFile p b perm => host_then_ov d o (WriteFile p [] perm)   (* contents only on the host *)
  | Chtimes _ _ => host_then_ov d o o
  | Chmod _ _ | Chown _ _ _ => host_ignored_then_ov d o
  | Mknod p perm dev =>
      (* unix.Mknod; if that fails for another reason than EEXIST (fix bfd5027: a taken name is
         left alone) an empty regular file takes its place on the host *)
      let '(h1, r) := host_call (d_host d) o in
      if mknod_fallback r then
        let '(h2, r2) := host_call (d_host d) (WriteFile p [] 0%N) in
        if is_failure r2 then (mkD (d_ov d) h2, r2)
        else let '(v1, r') := ov_step (d_ov d) o in (mkD v1 h2, r')
      else let '(v1, r') := ov_step (d_ov d) o in (mkD v1 h1, r')
  | Remove _ => ov_then_host d o o
  | OpenFile p fl perm => if f_creat fl then open_both d o else only_host d o
  | Create _ => open_both d o
  | ReadFile _ => only_host d o
  | Read _ _ | ReadAt _ _ _ | Write _ _ | Seek _ _ _ | Close _ => only_host d o   (* every returned file is the host's *)
  | Readlink _ | Lstat _ | SetXattr _ _ _ | GetXattr _ _ | RemoveXattr _ _ | ListXattrs _ => only_ov d o
  | ReadDir p =>
      (* os.ReadDir first (its error wins), then the overlay's listing: names and types are the overlay's *)
      let '(_, r) := host_call (d_host d) o in
      if is_failure r then (d, r) else only_ov d o
  | Readnod p =>
      let '(_, r) := host_call (d_host d) (Stat p) in
      if is_failure r then (d, r) else only_ov d o
  | Stat p =>
      (* the overlay's answer first (its error wins), then os.Stat; mode, owner from
         the overlay, size (and time, not observed) from the host *)
      let '(_, r) := ov_step (d_ov d) o in
      match r with
      | OInfo k perm _ u g _ =>
          match snd (host_call (d_host d) o) with
          | OInfo _ _ sz _ _ t => (d, OInfo k perm sz u g t)
          | r' => (d, r')
          end
      | _ => (d, r)
      end
  end.

Fixpoint dirfs_run (d : dst) (ops : list op) : dst * list out :=
  match ops with
  | [] => (d, [])
  | o :: ops' => let '(d1, r) := dirfs_step d o in
                 let '(d2, rs) := dirfs_run d1 ops' in (d2, r :: rs)
  end.
