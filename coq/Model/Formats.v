(* C16 / C15 — executable model of apko's own text formats, as the Go code
   behaves today (pkg/apk/apk/apkindex.go, package.go, installed.go,
   pkg/passwd/passwd.go, group.go). No proofs in this file.
   Writers are driven by the tables goextract reads from the source
   (Generated/FieldLetters.v): the APKINDEX template rows, the fmt formats and
   arguments of PackageToInstalled / AddInstalledPackage / *.Write.
   Readers are written with the checked slicing primitives of Base/C16Lib, so
   that a Go slice-bounds panic is the value [Panic].
   External codecs (base64, hex) are Section variables. *)
From Apko Require Export Base.Prelude Base.C16Lib Generated.FieldLetters.
Open Scope string_scope. Open Scope list_scope.

(* ---- package records ---------------------------------------------------
   p_btime is BuildTime.Unix() (whole seconds; the zero time.Time is
   zero_time_unix), p_bdate the separate BuildDate field. *)
Record pkg := mkPkg {
  p_name : string;
  p_version : string;
  p_arch : string;
  p_desc : string;
  p_license : string;
  p_origin : string;
  p_maint : string;
  p_url : string;
  p_commit : string;
  p_checksum : list N;
  p_deps : list string;
  p_provides : list string;
  p_installif : list string;
  p_replaces : list string;
  p_size : N;
  p_isize : N;
  p_prio : N;
  p_btime : Z;
  p_bdate : Z
}.
Definition set_name (v : string) (p : pkg) : pkg := mkPkg v (p_version p) (p_arch p) (p_desc p) (p_license p) (p_origin p) (p_maint p) (p_url p) (p_commit p) (p_checksum p) (p_deps p) (p_provides p) (p_installif p) (p_replaces p) (p_size p) (p_isize p) (p_prio p) (p_btime p) (p_bdate p).
Definition set_version (v : string) (p : pkg) : pkg := mkPkg (p_name p) v (p_arch p) (p_desc p) (p_license p) (p_origin p) (p_maint p) (p_url p) (p_commit p) (p_checksum p) (p_deps p) (p_provides p) (p_installif p) (p_replaces p) (p_size p) (p_isize p) (p_prio p) (p_btime p) (p_bdate p).
Definition set_arch (v : string) (p : pkg) : pkg := mkPkg (p_name p) (p_version p) v (p_desc p) (p_license p) (p_origin p) (p_maint p) (p_url p) (p_commit p) (p_checksum p) (p_deps p) (p_provides p) (p_installif p) (p_replaces p) (p_size p) (p_isize p) (p_prio p) (p_btime p) (p_bdate p).
Definition set_desc (v : string) (p : pkg) : pkg := mkPkg (p_name p) (p_version p) (p_arch p) v (p_license p) (p_origin p) (p_maint p) (p_url p) (p_commit p) (p_checksum p) (p_deps p) (p_provides p) (p_installif p) (p_replaces p) (p_size p) (p_isize p) (p_prio p) (p_btime p) (p_bdate p).
Definition set_license (v : string) (p : pkg) : pkg := mkPkg (p_name p) (p_version p) (p_arch p) (p_desc p) v (p_origin p) (p_maint p) (p_url p) (p_commit p) (p_checksum p) (p_deps p) (p_provides p) (p_installif p) (p_replaces p) (p_size p) (p_isize p) (p_prio p) (p_btime p) (p_bdate p).
Definition set_origin (v : string) (p : pkg) : pkg := mkPkg (p_name p) (p_version p) (p_arch p) (p_desc p) (p_license p) v (p_maint p) (p_url p) (p_commit p) (p_checksum p) (p_deps p) (p_provides p) (p_installif p) (p_replaces p) (p_size p) (p_isize p) (p_prio p) (p_btime p) (p_bdate p).
Definition set_maint (v : string) (p : pkg) : pkg := mkPkg (p_name p) (p_version p) (p_arch p) (p_desc p) (p_license p) (p_origin p) v (p_url p) (p_commit p) (p_checksum p) (p_deps p) (p_provides p) (p_installif p) (p_replaces p) (p_size p) (p_isize p) (p_prio p) (p_btime p) (p_bdate p).
Definition set_url (v : string) (p : pkg) : pkg := mkPkg (p_name p) (p_version p) (p_arch p) (p_desc p) (p_license p) (p_origin p) (p_maint p) v (p_commit p) (p_checksum p) (p_deps p) (p_provides p) (p_installif p) (p_replaces p) (p_size p) (p_isize p) (p_prio p) (p_btime p) (p_bdate p).
Definition set_commit (v : string) (p : pkg) : pkg := mkPkg (p_name p) (p_version p) (p_arch p) (p_desc p) (p_license p) (p_origin p) (p_maint p) (p_url p) v (p_checksum p) (p_deps p) (p_provides p) (p_installif p) (p_replaces p) (p_size p) (p_isize p) (p_prio p) (p_btime p) (p_bdate p).
Definition set_checksum (v : list N) (p : pkg) : pkg := mkPkg (p_name p) (p_version p) (p_arch p) (p_desc p) (p_license p) (p_origin p) (p_maint p) (p_url p) (p_commit p) v (p_deps p) (p_provides p) (p_installif p) (p_replaces p) (p_size p) (p_isize p) (p_prio p) (p_btime p) (p_bdate p).
Definition set_deps (v : list string) (p : pkg) : pkg := mkPkg (p_name p) (p_version p) (p_arch p) (p_desc p) (p_license p) (p_origin p) (p_maint p) (p_url p) (p_commit p) (p_checksum p) v (p_provides p) (p_installif p) (p_replaces p) (p_size p) (p_isize p) (p_prio p) (p_btime p) (p_bdate p).
Definition set_provides (v : list string) (p : pkg) : pkg := mkPkg (p_name p) (p_version p) (p_arch p) (p_desc p) (p_license p) (p_origin p) (p_maint p) (p_url p) (p_commit p) (p_checksum p) (p_deps p) v (p_installif p) (p_replaces p) (p_size p) (p_isize p) (p_prio p) (p_btime p) (p_bdate p).
Definition set_installif (v : list string) (p : pkg) : pkg := mkPkg (p_name p) (p_version p) (p_arch p) (p_desc p) (p_license p) (p_origin p) (p_maint p) (p_url p) (p_commit p) (p_checksum p) (p_deps p) (p_provides p) v (p_replaces p) (p_size p) (p_isize p) (p_prio p) (p_btime p) (p_bdate p).
Definition set_replaces (v : list string) (p : pkg) : pkg := mkPkg (p_name p) (p_version p) (p_arch p) (p_desc p) (p_license p) (p_origin p) (p_maint p) (p_url p) (p_commit p) (p_checksum p) (p_deps p) (p_provides p) (p_installif p) v (p_size p) (p_isize p) (p_prio p) (p_btime p) (p_bdate p).
Definition set_size (v : N) (p : pkg) : pkg := mkPkg (p_name p) (p_version p) (p_arch p) (p_desc p) (p_license p) (p_origin p) (p_maint p) (p_url p) (p_commit p) (p_checksum p) (p_deps p) (p_provides p) (p_installif p) (p_replaces p) v (p_isize p) (p_prio p) (p_btime p) (p_bdate p).
Definition set_isize (v : N) (p : pkg) : pkg := mkPkg (p_name p) (p_version p) (p_arch p) (p_desc p) (p_license p) (p_origin p) (p_maint p) (p_url p) (p_commit p) (p_checksum p) (p_deps p) (p_provides p) (p_installif p) (p_replaces p) (p_size p) v (p_prio p) (p_btime p) (p_bdate p).
Definition set_prio (v : N) (p : pkg) : pkg := mkPkg (p_name p) (p_version p) (p_arch p) (p_desc p) (p_license p) (p_origin p) (p_maint p) (p_url p) (p_commit p) (p_checksum p) (p_deps p) (p_provides p) (p_installif p) (p_replaces p) (p_size p) (p_isize p) v (p_btime p) (p_bdate p).
Definition set_btime (v : Z) (p : pkg) : pkg := mkPkg (p_name p) (p_version p) (p_arch p) (p_desc p) (p_license p) (p_origin p) (p_maint p) (p_url p) (p_commit p) (p_checksum p) (p_deps p) (p_provides p) (p_installif p) (p_replaces p) (p_size p) (p_isize p) (p_prio p) v (p_bdate p).
Definition set_bdate (v : Z) (p : pkg) : pkg := mkPkg (p_name p) (p_version p) (p_arch p) (p_desc p) (p_license p) (p_origin p) (p_maint p) (p_url p) (p_commit p) (p_checksum p) (p_deps p) (p_provides p) (p_installif p) (p_replaces p) (p_size p) (p_isize p) (p_prio p) (p_btime p) v.

Definition zero_time_unix : Z := (-62135596800)%Z.
Definition empty_pkg : pkg := mkPkg "" "" "" "" "" "" "" "" "" [] [] [] [] [] 0%N 0%N 0%N zero_time_unix 0%Z.

(* one file entry: the tar.Header fields the installed database talks about *)
Record hdr := mkHdr {
  h_name : string;
  h_isdir : bool;       (* Typeflag == tar.TypeDir *)
  h_mode : Z;
  h_uid : Z;
  h_gid : Z;
  h_csum : string       (* PAXRecords["APK-TOOLS.checksum.SHA1"], "" if absent *)
}.

(* ---- fmt.Sprintf, for the verbs these writers use ------------------------ *)
Inductive farg := AStr (s : string) | AInt (z : Z) | AList (l : list string).

Definition fmt_s (a : farg) : string :=
  match a with
  | AStr s => s
  | AInt z => "%!s(int=" +++ fmt_z z +++ ")"
  | AList l => "[" +++ join " " l +++ "]"        (* Go's default formatting of []string *)
  end.
Definition fmt_d (a : farg) : string :=
  match a with
  | AInt z => fmt_z z
  | AStr s => "%!d(string=" +++ s +++ ")"
  | AList l => "[" +++ join " " (map (fun s => "%!d(string=" +++ s +++ ")") l) +++ "]"
  end.
Definition fmt_04o (a : farg) : string :=
  match a with
  | AInt z => if (0 <=? z)%Z && (z <? 4096)%Z then fmt_o4 (Z.to_N z) else "%!04o(unmodelled)"
  | _ => "%!04o(unmodelled)"
  end.

Fixpoint sprintf (f : string) (args : list farg) : string :=
  match f with
  | EmptyString => EmptyString
  | String c r =>
      if Ascii.eqb c "%" then
        match r with
        | String v r' =>
            if Ascii.eqb v "s" then
              match args with a :: args' => fmt_s a +++ sprintf r' args' | [] => "%!s(MISSING)" +++ sprintf r' [] end
            else if Ascii.eqb v "d" then
              match args with a :: args' => fmt_d a +++ sprintf r' args' | [] => "%!d(MISSING)" +++ sprintf r' [] end
            else if Ascii.eqb v "0" then
              match r' with
              | String "4" (String "o" r'') =>
                  match args with a :: args' => fmt_04o a +++ sprintf r'' args' | [] => "%!o(MISSING)" +++ sprintf r'' [] end
              | _ => "%!(unmodelled verb)" +++ sprintf r' args
              end
            else "%!(unmodelled verb)" +++ sprintf r' args
        | EmptyString => "%!(NOVERB)"
        end
      else String c (sprintf r args)
  end.

(* ---- path/filepath on Linux ------------------------------------------------ *)
Definition ch_slash : ascii := "/"%char.
Definition starts_with_slash (s : string) : bool :=
  match s with String c _ => Ascii.eqb c ch_slash | _ => false end.

Fixpoint clean_comps (rooted : bool) (cs : list string) (out : list string) : list string :=  (* out is a stack, top first *)
  match cs with
  | [] => rev out
  | c :: cs' =>
      if (c =? "") || (c =? ".") then clean_comps rooted cs' out
      else if c =? ".." then
        match out with
        | top :: out' => if top =? ".." then clean_comps rooted cs' (c :: out) else clean_comps rooted cs' out'
        | [] => if rooted then clean_comps rooted cs' out else clean_comps rooted cs' [c]
        end
      else clean_comps rooted cs' (c :: out)
  end.
Definition clean (s : string) : string :=
  let rooted := starts_with_slash s in
  let body := join "/" (clean_comps rooted (split_on ch_slash s) []) in
  let r := if rooted then String ch_slash body else body in
  if r =? "" then "." else r.

Definition path_dir (s : string) : string :=
  match rev (split_on ch_slash s) with
  | _ :: (_ :: _) as pre => clean (join "/" (rev pre) +++ "/")
  | _ => "."
  end.
Fixpoint first_nonempty (l : list string) : option string :=
  match l with [] => None | x :: xs => if x =? "" then first_nonempty xs else Some x end.
Definition path_base (s : string) : string :=
  if s =? "" then "." else
  match first_nonempty (rev (split_on ch_slash s)) with Some b => b | None => "/" end.
Definition path_join2 (a b : string) : string :=
  if negb (a =? "") then clean (a +++ "/" +++ b)
  else if negb (b =? "") then clean b else "".
(* filepath.Rel(base, p) succeeds and its result neither is ".." nor starts with
   "../" (common.go since fix 566455e).  Rel cleans both paths; equal => ".";
   they must agree on being rooted; the common leading components are dropped;
   a base component left over means an error (it is "..") or a result that
   starts with ".."; otherwise the result is what is left of the target. *)
Definition rel_comps (cleaned : string) : list string :=
  if cleaned =? "." then [] else if cleaned =? "/" then [""] else split_on ch_slash cleaned.
Fixpoint strip_prefix (a b : list string) : option (list string) :=
  match a, b with
  | [], _ => Some b
  | x :: a', y :: b' => if x =? y then strip_prefix a' b' else None
  | _ :: _, [] => None
  end.
Definition is_within (base p : string) : bool :=
  let b := clean base in let t := clean p in
  if b =? t then true
  else if negb (Bool.eqb (starts_with_slash b) (starts_with_slash t)) then false
  else match strip_prefix (rel_comps b) (rel_comps t) with
       | Some (c :: _) => negb (c =? "..")
       | Some [] => true
       | None => false
       end.
Definition sanitize_archive_path (d t : string) : string :=   (* error ignored by its caller: "" *)
  let v := path_join2 d t in if is_within d v then v else "".

(* strings.TrimRight(s, string(c)): every trailing c *)
Fixpoint trim_right_char (c : ascii) (s : string) : string :=
  match s with
  | EmptyString => EmptyString
  | String a s' => match trim_right_char c s' with
                   | EmptyString => if Ascii.eqb a c then EmptyString else String a EmptyString
                   | r => String a r
                   end
  end.
(* the spelling of a directory's name on its F: line: AddInstalledPackage removes the
   trailing separators with the function goextract found in the source (TrimRight
   since fix 8e9dafb: all of them; TrimSuffix before: one) *)
Definition installed_dir_trim_all : bool := installed_dir_trim_fn =? "strings.TrimRight".
Definition dir_trim (s : string) : string :=
  if installed_dir_trim_all then trim_right_char ch_slash s else trim_suffix_char ch_slash s.

(* ---- sort.Strings ------------------------------------------------------------ *)
Fixpoint sinsert (x : string) (l : list string) : list string :=
  match l with
  | [] => [x]
  | y :: l' => if String.leb x y then x :: l else y :: sinsert x l'
  end.
Fixpoint ssort (l : list string) : list string :=
  match l with [] => [] | x :: l' => sinsert x (ssort l') end.

(* ---- Go maps as association lists -------------------------------------------- *)
Fixpoint alookup {A} (k : string) (m : list (string * A)) : option A :=
  match m with [] => None | (k', v) :: m' => if k' =? k then Some v else alookup k m' end.
Fixpoint aappend (k v : string) (m : list (string * list string)) : list (string * list string) :=
  match m with
  | [] => [(k, [v])]
  | (k', vs) :: m' => if k' =? k then (k', vs ++ [v]) :: m' else (k', vs) :: aappend k v m'
  end.
Fixpoint aset {A} (k : string) (v : A) (m : list (string * A)) : list (string * A) :=
  match m with
  | [] => [(k, v)]
  | (k', v') :: m' => if k' =? k then (k', v) :: m' else (k', v') :: aset k v m'
  end.

(* ---- sortTarHeaders ------------------------------------------------------------ *)
Definition dir_children (hs : list hdr) : list (string * list string) :=
  fold_left (fun m h => let c := clean (h_name h) in aappend (path_dir c) c m) hs [].
Definition all_headers (hs : list hdr) : list (string * hdr) :=
  fold_left (fun m h => aset (clean (h_name h)) h m) hs [].

Fixpoint sort_children (fuel : nat) (dc : list (string * list string)) (all : list (string * hdr))
  (children : list string) : res (list hdr) :=
  match fuel with
  | O => OutOfFuel
  | S f =>
      let cs := ssort children in
      let files := flat_map (fun c => match alookup c all with
                                      | Some h => if h_isdir h then [] else [h]
                                      | None => [] end) cs in
      do dirs <- (fix go (l : list string) : res (list hdr) :=
                    match l with
                    | [] => Ok []
                    | c :: l' =>
                        match alookup c all with
                        | Some h =>
                            if h_isdir h then
                              do sub <- match alookup c dc with
                                        | Some (x :: xs) => sort_children f dc all (x :: xs)
                                        | _ => Ok []
                                        end;
                              do rest <- go l';
                              Ok (h :: sub ++ rest)
                            else go l'
                        | None => go l'
                        end
                    end) cs;
      Ok (files ++ dirs)
  end.

(* [ord] is the order in which Go happens to range over the directoryChildren
   map; theorems quantify over every permutation of its keys.
   Since fix f716198 sortTarHeaders skips an entry whose cleaned name is "." (tar entry "./": the
   archive root, its own parent) before it fills the two maps; the entry does not appear in the
   result. [sort_headers_ord_raw] / [sort_headers_raw] are the function WITHOUT that test — what
   the code was before the fix (hypothetical now): there a directory entry that cleans to "." is its
   own child and the recursion does not end (OutOfFuel; finding C15-F4, fixed). *)
Definition sort_headers_ord_raw (ord : list string) (hs : list hdr) : res (list hdr) :=
  let dc := dir_children hs in
  let all := all_headers hs in
  let dir_entries := ssort ord in
  let top := ssort (filter (fun d => path_dir d =? ".") dir_entries) in
  sort_children (S (S (List.length hs))) dc all top.
Definition sort_headers_raw (hs : list hdr) : res (list hdr) :=
  sort_headers_ord_raw (map fst (dir_children hs)) hs.
Definition not_dot (h : hdr) : bool := negb (clean (h_name h) =? ".").
Definition sort_headers_ord (ord : list string) (hs : list hdr) : res (list hdr) :=
  sort_headers_ord_raw ord (filter not_dot hs).
Definition sort_headers (hs : list hdr) : res (list hdr) :=
  sort_headers_raw (filter not_dot hs).

(* ============================================================================ *)
Section Codec.
Variable b64enc : list N -> string.
Variable b64dec : string -> option (list N).
Variable hexdec : string -> option (list N).

Definition checksum_string (p : pkg) : string := "Q1" +++ b64enc (p_checksum p).
Definition snonempty (s : string) : bool := negb (s =? "").
Definition lnonempty {A} (l : list A) : bool := match l with [] => false | _ => true end.

(* ---- APKINDEX writer: the template rows ---------------------------------------- *)
(* truth of a template condition (text/template: empty string, zero number,
   empty slice are false; a struct is true) *)
Definition tmpl_cond (c : string) (p : pkg) : option bool :=
  if c =? "" then Some true else
  if c =? ".Arch" then Some (snonempty (p_arch p)) else
  if c =? ".Size" then Some (negb (p_size p =? 0)%N) else
  if c =? ".InstalledSize" then Some (negb (p_isize p =? 0)%N) else
  if c =? ".URL" then Some (snonempty (p_url p)) else
  if c =? ".License" then Some (snonempty (p_license p)) else
  if c =? ".Origin" then Some (snonempty (p_origin p)) else
  if c =? ".Maintainer" then Some (snonempty (p_maint p)) else
  if c =? "and .BuildTime (not .BuildTime.IsZero)" then Some (negb (p_btime p =? zero_time_unix)%Z) else
  if c =? ".RepoCommit" then Some (snonempty (p_commit p)) else
  if c =? ".Dependencies" then Some (lnonempty (p_deps p)) else
  if c =? ".InstallIf" then Some (lnonempty (p_installif p)) else
  if c =? ".Provides" then Some (lnonempty (p_provides p)) else
  if c =? ".Replaces" then Some (lnonempty (p_replaces p)) else
  if c =? ".ProviderPriority" then Some (negb (p_prio p =? 0)%N) else
  None.
Definition tmpl_val (v : string) (p : pkg) : option string :=
  if v =? ".ChecksumString" then Some (checksum_string p) else
  if v =? ".Name" then Some (p_name p) else
  if v =? ".Version" then Some (p_version p) else
  if v =? ".Arch" then Some (p_arch p) else
  if v =? ".Size" then Some (fmt_n (p_size p)) else
  if v =? ".InstalledSize" then Some (fmt_n (p_isize p)) else
  if v =? ".Description" then Some (p_desc p) else
  if v =? ".URL" then Some (p_url p) else
  if v =? ".License" then Some (p_license p) else
  if v =? ".Origin" then Some (p_origin p) else
  if v =? ".Maintainer" then Some (p_maint p) else
  if v =? ".BuildTime.Unix" then Some (fmt_z (p_btime p)) else
  if v =? ".RepoCommit" then Some (p_commit p) else
  if v =? "join .Dependencies" then Some (join index_join_sep (p_deps p)) else
  if v =? "join .InstallIf" then Some (join index_join_sep (p_installif p)) else
  if v =? "join .Provides" then Some (join index_join_sep (p_provides p)) else
  if v =? "join .Replaces" then Some (join index_join_sep (p_replaces p)) else
  if v =? ".Dependencies" then Some (fmt_s (AList (p_deps p))) else
  if v =? ".InstallIf" then Some (fmt_s (AList (p_installif p))) else
  if v =? ".Provides" then Some (fmt_s (AList (p_provides p))) else
  if v =? ".Replaces" then Some (fmt_s (AList (p_replaces p))) else
  if v =? ".ProviderPriority" then Some (fmt_n (p_prio p)) else
  None.
Definition unmodelled : string := "<unmodelled>".
Definition tmpl_row (row : string * (string * string)) (p : pkg) : string :=
  let '(c, (lit, v)) := row in
  match tmpl_cond c p, tmpl_val v p with
  | Some true, Some s => lit +++ s
  | Some false, Some _ => ""
  | _, _ => unmodelled
  end.
Definition exec_template (rows : list (string * (string * string))) (trailer : string) (p : pkg) : string :=
  sconcat (map (fun r => tmpl_row r p) rows ++ [trailer]).
(* ArchiveFromIndex: the APKINDEX member *)
Definition write_index_with rows trailer (ps : list pkg) : string :=
  sconcat (map (fun p => if p_name p =? "" then "" else exec_template rows trailer p) ps).
Definition write_index : list pkg -> string := write_index_with index_template_rows index_template_trailer.

(* ---- shared line shape ------------------------------------------------------------ *)
(* ParsePackageIndex: three separate tests *)
Definition idx_split (line : string) : res (string * string) :=
  if (String.length line <? 2)%nat then Err else
  do c <- gslice line 1 2;
  if negb (c =? ":") then Err else
  do tok <- gslice_to line 1;
  do val <- gslice_from line 2;
  Ok (tok, val).
(* ParseInstalled: one test with || *)
Definition inst_split (line : string) : res (string * string) :=
  do bad <- (if (String.length line <? 2)%nat then Ok true
             else do c <- gslice line 1 2; Ok (negb (c =? ":")));
  if bad then Err else
  do tok <- gslice_to line 1;
  do val <- gslice_from line 2;
  Ok (tok, val).

Definition split_repeated (val : string) : list string :=
  if val =? "" then [] else split_on " " val.

Definition from_opt {A} (o : option A) : res A := match o with Some a => Ok a | None => Err end.

(* the package-level letters common to both readers; [with_r] = the reader has a case "r" *)
Definition pkg_field (with_r : bool) (tok val : string) (p : pkg) : res (option pkg) :=
  if tok =? "P" then Ok (Some (set_name val p)) else
  if tok =? "V" then Ok (Some (set_version val p)) else
  if tok =? "A" then Ok (Some (set_arch val p)) else
  if tok =? "L" then Ok (Some (set_license val p)) else
  if tok =? "T" then Ok (Some (set_desc val p)) else
  if tok =? "o" then Ok (Some (set_origin val p)) else
  if tok =? "m" then Ok (Some (set_maint val p)) else
  if tok =? "U" then Ok (Some (set_url val p)) else
  if tok =? "D" then Ok (Some (set_deps (split_repeated val) p)) else
  if tok =? "p" then Ok (Some (set_provides (split_repeated val) p)) else
  if (tok =? "r") && with_r then Ok (Some (set_replaces (split_repeated val) p)) else
  if tok =? "c" then Ok (Some (set_commit val p)) else
  if tok =? "t" then do i <- from_opt (parse_int64 val); Ok (Some (set_bdate i (set_btime i p))) else
  if tok =? "i" then Ok (Some (set_installif (split_repeated val) p)) else
  if tok =? "S" then do n <- from_opt (parse_uint64 val); Ok (Some (set_size n p)) else
  if tok =? "I" then do n <- from_opt (parse_uint64 val); Ok (Some (set_isize n p)) else
  if tok =? "k" then do n <- from_opt (parse_uint64 val); Ok (Some (set_prio n p)) else
  if tok =? "C" then
    (if has_prefix "Q1" val then
       do v <- gslice_from val 2; do c <- from_opt (b64dec v); Ok (Some (set_checksum c p))
     else Ok (Some p))
  else Ok None.

(* ---- ParsePackageIndex ------------------------------------------------------------ *)
Fixpoint idx_lines (ls : list string) (cur : pkg) (acc : list pkg) : res (list pkg) :=
  match ls with
  | [] => Ok (rev acc)                      (* an unterminated last record is dropped *)
  | l :: ls' =>
      if (String.length l =? 0)%nat then
        idx_lines ls' empty_pkg (if snonempty (p_name cur) then cur :: acc else acc)
      else
        do tv <- idx_split l;
        do r <- pkg_field false (fst tv) (snd tv) cur;
        idx_lines ls' (match r with Some p => p | None => cur end) acc
  end.
Definition parse_index_max (max : N) (s : string) : res (list pkg) :=
  let '(lines, toolong) := scan_lines max s in
  do r <- idx_lines lines empty_pkg [];
  if toolong && index_checks_scanner_err then Err else Ok r.
Definition parse_index : string -> res (list pkg) := parse_index_max index_max_token.

(* ---- installed database: writer ------------------------------------------------------ *)
Definition inst_arg (a : string) (p : pkg) : option farg :=
  if a =? ".Name" then Some (AStr (p_name p)) else
  if a =? ".Version" then Some (AStr (p_version p)) else
  if a =? ".Arch" then Some (AStr (p_arch p)) else
  if a =? ".License" then Some (AStr (p_license p)) else
  if a =? ".Description" then Some (AStr (p_desc p)) else
  if a =? ".Origin" then Some (AStr (p_origin p)) else
  if a =? ".Maintainer" then Some (AStr (p_maint p)) else
  if a =? ".URL" then Some (AStr (p_url p)) else
  if a =? ".RepoCommit" then Some (AStr (p_commit p)) else
  if a =? "strings.Join(.Dependencies, "" "")" then Some (AStr (join " " (p_deps p))) else
  if a =? "strings.Join(.Provides, "" "")" then Some (AStr (join " " (p_provides p))) else
  if a =? "strings.Join(.Replaces, "" "")" then Some (AStr (join " " (p_replaces p))) else
  if a =? "strings.Join(.InstallIf, "" "")" then Some (AStr (join " " (p_installif p))) else
  if a =? ".Dependencies" then Some (AList (p_deps p)) else
  if a =? ".Provides" then Some (AList (p_provides p)) else
  if a =? ".Replaces" then Some (AList (p_replaces p)) else
  if a =? ".InstallIf" then Some (AList (p_installif p)) else
  if a =? ".BuildTime.Unix()" then Some (AInt (p_btime p)) else
  if a =? ".Size" then Some (AInt (Z.of_N (p_size p))) else
  if a =? ".InstalledSize" then Some (AInt (Z.of_N (p_isize p))) else
  if a =? ".ProviderPriority" then Some (AInt (Z.of_N (p_prio p))) else
  if a =? ".ChecksumString()" then Some (AStr (checksum_string p)) else
  None.
Definition inst_cond (c : string) (p : pkg) : option bool :=
  if c =? "" then Some true else
  if c =? "len(.Replaces) != 0" then Some (lnonempty (p_replaces p)) else
  if c =? "len(.Checksum) > 0" then Some (lnonempty (p_checksum p)) else
  if c =? "len(.InstallIf) != 0" then Some (lnonempty (p_installif p)) else
  None.
Definition inst_row (row : string * (string * string)) (p : pkg) : list string :=
  let '(c, (f, a)) := row in
  match inst_cond c p, inst_arg a p with
  | Some true, Some v => [sprintf f [v]]
  | Some false, Some _ => []
  | _, _ => [unmodelled]
  end.
(* PackageToInstalled *)
Definition pkg_to_installed_with rows (p : pkg) : list string := flat_map (fun r => inst_row r p) rows.
Definition pkg_to_installed : pkg -> list string := pkg_to_installed_with installed_pkg_rows.

Definition nth_fmt (k : nat) : string := nth k installed_file_formats unmodelled.
Definition perm_line (f : string) (dflt : Z) (h : hdr) : list string :=
  let perm := Z.land (h_mode h) installed_mode_mask in
  if negb (perm =? dflt)%Z || negb (h_uid h =? 0)%Z || negb (h_gid h =? 0)%Z
  then [sprintf f [AInt (h_uid h); AInt (h_gid h); AInt perm]] else [].
Definition file_lines (h : hdr) : res (list string) :=
  if h_isdir h then
    Ok (sprintf (nth_fmt 1) [AStr (dir_trim (h_name h))] :: perm_line (nth_fmt 2) installed_dir_default_mode h)
  else
    do z <- (if h_csum h =? "" then Ok []
             else if has_prefix "Q1" (h_csum h) then Ok [sprintf (nth_fmt 5) [AStr (h_csum h)]]
             else do b <- from_opt (hexdec (h_csum h)); Ok [sprintf (nth_fmt 5) [AStr ("Q1" +++ b64enc b)]]);
    Ok (sprintf (nth_fmt 3) [AStr (path_base (h_name h))] :: perm_line (nth_fmt 4) installed_file_default_mode h ++ z).
Fixpoint files_lines (hs : list hdr) : res (list string) :=
  match hs with
  | [] => Ok []
  | h :: hs' => do a <- file_lines h; do b <- files_lines hs'; Ok (a ++ b)
  end.
(* the lines of one record, for an already sorted file list *)
Definition installed_record_lines (p : pkg) (sorted : list hdr) : res (list string) :=
  do fl <- files_lines sorted; Ok (pkg_to_installed p ++ fl).
(* AddInstalledPackage: the bytes appended to lib/apk/db/installed *)
Definition write_installed (p : pkg) (files : list hdr) : res string :=
  do sorted <- sort_headers files;
  do ls <- installed_record_lines p sorted;
  Ok (join s_nl ls +++ s_nl +++ s_nl).

(* lib/apk/db/installed after AddInstalledPackage was called for each record in turn
   (the file is opened in append mode; a refusal stops the sequence) *)
Fixpoint write_db (rs : list (pkg * list hdr)) : res string :=
  match rs with
  | [] => Ok ""
  | (p, files) :: rs' => do t <- write_installed p files; do rest <- write_db rs'; Ok (t +++ rest)
  end.

(* ---- installed database: reader ---------------------------------------------------- *)
Definition parse_perms (s : string) : res (Z * Z * Z) :=
  match split_on ":" s with
  | [a; b; c] =>
      do uid <- from_opt (parse_int64 a);
      do gid <- from_opt (parse_int64 b);
      do perms <- from_opt (parse_int64_oct c);
      Ok (uid, gid, perms)
  | _ => Err
  end.

Fixpoint upd_at (k : nat) (f : hdr -> hdr) (l : list hdr) : list hdr :=
  match k, l with
  | O, x :: l' => f x :: l'
  | S k', x :: l' => x :: upd_at k' f l'
  | _, [] => []
  end.
Definition set_perms (u g m : Z) (h : hdr) : hdr := mkHdr (h_name h) (h_isdir h) m u g (h_csum h).

(* reader state: current package, its files (most recent first), lastDir as
   (distance from the most recent entry, name), lastFile as a distance.
   Go keeps pointers into pkg.Files; a later append may reallocate the slice and
   leave lastDir pointing into the old array. The model addresses by position,
   which is what Go does whenever M:/a: directly follow their F:/R: line. *)
Record ist := mkIst { i_pkg : pkg; i_files : list hdr; i_ldir : option (nat * string); i_lfile : option nat }.
Definition empty_ist : ist := mkIst empty_pkg [] None None.
Definition bump (o : option (nat * string)) := match o with Some (k, n) => Some (S k, n) | None => None end.

Definition inst_field (tok val : string) (st : ist) : res ist :=
  do r <- pkg_field true tok val (i_pkg st);
  match r with
  | Some p => Ok (mkIst p (i_files st) (i_ldir st) (i_lfile st))
  | None =>
      if tok =? "F" then
        Ok (mkIst (i_pkg st) (mkHdr val true installed_dir_default_mode 0 0 "" :: i_files st) (Some (O, val)) None)
      else if tok =? "M" then
        match i_ldir st with
        | None => Err
        | Some (k, _) =>
            do ugp <- parse_perms val;
            let '(u, g, m) := ugp in
            Ok (mkIst (i_pkg st) (upd_at k (set_perms u g m) (i_files st)) (i_ldir st) (i_lfile st))
        end
      else if tok =? "R" then
        let full := match i_ldir st with Some (_, d) => sanitize_archive_path d val | None => val end in
        Ok (mkIst (i_pkg st) (mkHdr full false installed_file_default_mode 0 0 "" :: i_files st) (bump (i_ldir st)) (Some O))
      else if tok =? "a" then
        match i_lfile st with
        | None => Err
        | Some k =>
            do ugp <- parse_perms val;
            let '(u, g, m) := ugp in
            Ok (mkIst (i_pkg st) (upd_at k (set_perms u g m) (i_files st)) (i_ldir st) (i_lfile st))
        end
      else Ok st
  end.

Fixpoint inst_lines (ls : list string) (st : ist) (acc : list (pkg * list hdr)) : res (list (pkg * list hdr)) :=
  match ls with
  | [] => Ok (rev acc)
  | l :: ls' =>
      if l =? "" then
        inst_lines ls' empty_ist (if snonempty (p_name (i_pkg st)) then (i_pkg st, rev (i_files st)) :: acc else acc)
      else
        do tv <- inst_split l;
        do st' <- inst_field (fst tv) (snd tv) st;
        inst_lines ls' st' acc
  end.
(* the token limit of ParseInstalled's scanner: what it hands to Scanner.Buffer, or
   bufio.MaxScanTokenSize when it never calls Buffer (goextract reads which) *)
Definition installed_max_token : N := installed_max_token_src.
Definition parse_installed_max (max : N) (s : string) : res (list (pkg * list hdr)) :=
  let '(lines, toolong) := scan_lines max s in
  do r <- inst_lines lines empty_ist [];
  if toolong && installed_checks_scanner_err then Err else Ok r.
Definition parse_installed : string -> res (list (pkg * list hdr)) := parse_installed_max installed_max_token.

End Codec.

(* ---- passwd / group ------------------------------------------------------------------ *)
Record user := mkUser { u_name : string; u_pass : string; u_uid : N; u_gid : N; u_info : string; u_home : string; u_shell : string }.
Record group := mkGroup { g_name : string; g_pass : string; g_gid : N; g_members : list string }.

Definition write_user (u : user) : string :=
  sprintf passwd_format [AStr (u_name u); AStr (u_pass u); AInt (Z.of_N (u_uid u)); AInt (Z.of_N (u_gid u));
                         AStr (u_info u); AStr (u_home u); AStr (u_shell u)].
Definition write_group (g : group) : string :=
  sprintf group_format [AStr (g_name g); AStr (g_pass g); AInt (Z.of_N (g_gid g)); AStr (join group_member_sep (g_members g))].

(* strings.TrimSpace, ASCII part (Unicode spaces at the ends of a line are outside the model) *)
Definition is_space (a : ascii) : bool :=
  let n := N_of_ascii a in ((9 <=? n)%N && (n <=? 13)%N) || (n =? 32)%N.
Fixpoint trim_left (s : string) : string :=
  match s with String a s' => if is_space a then trim_left s' else s | EmptyString => EmptyString end.
Fixpoint trim_right (s : string) : string :=
  match s with
  | EmptyString => EmptyString
  | String a s' => match trim_right s' with
                   | EmptyString => if is_space a then EmptyString else String a EmptyString
                   | r => String a r
                   end
  end.
Definition trim_space (s : string) : string := trim_right (trim_left s).

Definition two32 : Z := 4294967296%Z.
Definition to_uint32 (z : Z) : N := Z.to_N (z mod two32).

Definition parse_user (line : string) : res user :=
  match split_on ":" (trim_space line) with
  | [a; b; c; d; e; f; g] =>
      do uid <- from_opt (parse_int64 c);
      do gid <- from_opt (parse_int64 d);
      Ok (mkUser a b (to_uint32 uid) (to_uint32 gid) e f g)
  | _ => Err
  end.
Definition parse_group (line : string) : res group :=
  match split_on ":" (trim_space line) with
  | [a; b; c; d] =>
      do gid <- from_opt (parse_int64 c);
      Ok (mkGroup a b (to_uint32 gid) (if d =? "" then [] else split_on "," d))   (* fix C16-F6: an empty field is no member *)
  | _ => Err
  end.

Fixpoint map_res {A B} (f : A -> res B) (l : list A) : res (list B) :=
  match l with
  | [] => Ok []
  | x :: l' => do y <- f x; do ys <- map_res f l'; Ok (y :: ys)
  end.
(* UserFile.Load / GroupFile.Load: default scanner, the scanner's error is looked at *)
Definition load_file {A} (parse : string -> res A) (max : N) (s : string) : res (list A) :=
  let '(lines, toolong) := scan_lines max s in
  do r <- map_res parse lines;
  if toolong then Err else Ok r.
Definition load_users : string -> res (list user) := load_file parse_user default_max_token.
Definition load_groups : string -> res (list group) := load_file parse_group default_max_token.
Definition write_users (us : list user) : string := sconcat (map write_user us).
Definition write_groups (gs : list group) : string := sconcat (map write_group gs).
