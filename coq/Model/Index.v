(* C04 — executable model of pkg/apk/apk/index.go (parseRepositoryIndex,
   shouldCheckSignatureForIndex, IndexURL) and apkindex.go (IndexFromArchive).
   No proofs here.

   An index archive is a list of gzip members. Each member is a piece of a tar
   stream: entries, then possibly a PAX/GNU meta-header that has no entry after
   it inside the member ("pending"), then zero blocks (none, one, or the
   two-block end-of-archive marker) up to the end of the member.

   The code reads the archive TWICE:
   - the signature pass decompresses the FIRST member alone (Multistream(false))
     and walks its tar entries; a pending meta-header is read and dropped
     (archive/tar returns a clean EOF), zero blocks end the walk;
   - the parse pass (IndexFromArchive) decompresses the members it is given as
     ONE tar stream; there a meta-header left pending by one member applies to
     the first entry of the next, and an end-of-archive marker ends the whole
     walk. Since fix c87da01 the parse pass is given only the verified bytes
     (the members after the first) when checking is on; with checking off it
     is given the whole archive. Before the fix it was always given the whole
     archive, and what the unsigned first member left behind (pending
     meta-header, zero blocks) renamed, resized or hid signed entries
     (replays C04-F1/F2 in the harness corpus).
   Both are transcribed below. gzip and tar byte decoding themselves are not
   modelled (the harness sweeps them on the real code); hashes, signature
   verification and the APKINDEX text parser are Section variables. *)
From Apko Require Import Base.Prelude Base.Regex Generated.Regexes Generated.IndexConsts Generated.IndexShapes.
Open Scope string_scope. Open Scope list_scope.

Inductive halg := SHA1 | SHA256.
Definition halg_eqb (a b : halg) : bool :=
  match a, b with SHA1, SHA1 | SHA256, SHA256 => true | _, _ => false end.

Inductive tail := TClean | TZero1 | TEOA.
(* a PAX 'x' header (path / size records) or a GNU 'L' header (rename only) *)
Record meta := { mt_rename : option string; mt_resize : option N }.
Record entry := { e_name : string; e_body : list N }.
Record member := { m_entries : list entry; m_pending : option meta; m_tail : tail }.
Definition archive := list member.

(* ---- strings ------------------------------------------------------------ *)
Fixpoint strip_prefix (p s : string) : option string :=
  match p with
  | EmptyString => Some s
  | String a p' =>
      match s with
      | String b s' => if Ascii.eqb a b then strip_prefix p' s' else None
      | EmptyString => None
      end
  end.
Definition has_prefix (p s : string) : bool :=
  match strip_prefix p s with Some _ => true | None => false end.

(* split at the first '.' *)
Fixpoint cut_dot (s : string) : option (string * string) :=
  match s with
  | EmptyString => None
  | String c s' =>
      if Ascii.eqb c "."%char then Some (EmptyString, s')
      else match cut_dot s' with
           | Some (a, b) => Some (String c a, b)
           | None => None
           end
  end.

Fixpoint contains_slash (s : string) : bool :=
  match s with
  | EmptyString => false
  | String c s' => Ascii.eqb c "/"%char || contains_slash s'
  end.

Fixpoint mem_str (x : string) (l : list string) : bool :=
  match l with [] => false | y :: l' => String.eqb x y || mem_str x l' end.

Fixpoint assoc_str {A} (x : string) (l : list (string * A)) : option A :=
  match l with [] => None | (k, v) :: l' => if String.eqb x k then Some v else assoc_str x l' end.

(* ---- signatureFileRegex.FindStringSubmatch ------------------------------
   The accept/reject decision is the generated regular expression's; the two
   sub-matches are cut out by hand: group 1 cannot contain '.', so it ends at
   the first '.' after the literal prefix. (Compared with Go's own sub-matches
   by the "names" stage.) *)
Definition sig_lit_prefix : string := ".SIGN.".
Definition sig_name_parts (name : string) : option (string * string) :=
  if full_match signature_file_regex name then
    match strip_prefix sig_lit_prefix name with
    | Some r => cut_dot r
    | None => None
    end
  else None.

(* ---- the `switch signatureType` ----------------------------------------- *)
Inductive sig_kind := KSkip | KAlg (a : halg) | KError.
Definition action_kind (act : string) : sig_kind :=
  if String.eqb act "continue" then KSkip
  else if String.eqb act "crypto.SHA1" then KAlg SHA1
  else if String.eqb act "crypto.SHA256" then KAlg SHA256
  else KError.
Definition sig_kind_of (t : string) : sig_kind :=
  match assoc_str t sig_type_table with
  | Some act => action_kind act
  | None => match assoc_str "<default>" sig_type_table with
            | Some act => action_kind act
            | None => KError
            end
  end.

(* ---- signature pass over the first member ------------------------------- *)
Record sigrec := { s_key : string; s_alg : halg; s_sig : list N }.

Fixpoint sig_pass (keys : list string) (es : list entry) : res (list sigrec) :=
  match es with
  | [] => Ok []
  | e :: es' =>
      match sig_name_parts (e_name e) with
      | None => Err                                   (* "failed to find key name in signature file name" *)
      | Some (alg, key) =>
          if negb (mem_str key keys) then sig_pass keys es'      (* key not configured: ignored *)
          else match sig_kind_of alg with
               | KSkip => sig_pass keys es'
               | KError => Err
               | KAlg a =>
                   do more <- sig_pass keys es';
                   Ok ({| s_key := key; s_alg := a; s_sig := e_body e |} :: more)
               end
      end
  end.

(* ---- the parse pass: all members as one tar stream ---------------------- *)
(* Signature: nil until a .SIGN. entry is read (io.ReadAll gives a non-nil slice even
   for an empty body), hence an option *)
Record index := { i_pkgs : list string; i_desc : list N; i_sig : option (list N) }.
Definition empty_index : index := {| i_pkgs := []; i_desc := []; i_sig := None |}.

Inductive pres := POk (i : index) | PErr | PUnmodelled.

Inductive tok := KEntry (e : entry) | KMeta (m : meta) | KZero.
Definition toks_of_member (m : member) : list tok :=
  List.map KEntry (m_entries m) ++
  (match m_pending m with Some mt => [KMeta mt] | None => [] end) ++
  (match m_tail m with TClean => [] | TZero1 => [KZero] | TEOA => [KZero; KZero] end).
Definition toks_of (a : archive) : list tok := List.flat_map toks_of_member a.

Definition blocks (n : N) : N := ((n + 511) / 512)%N.
Definition blen (b : list N) : N := N.of_nat (List.length b).

Inductive eres := EOk (e : entry) | EErr | EUnmodelled.
(* a meta-header applied to the entry that follows it. A size record keeps the
   reader aligned only when the number of 512-byte blocks is unchanged; fewer
   blocks make the next header read land inside this entry's content (text is
   not a header: ErrHeader); more blocks swallow the following headers — not
   modelled. *)
Definition apply_meta (mt : meta) (e : entry) : eres :=
  let name := match mt_rename mt with Some n => n | None => e_name e end in
  match mt_resize mt with
  | None => EOk {| e_name := name; e_body := e_body e |}
  | Some k =>
      let n := blen (e_body e) in
      if (blocks k =? blocks n)%N then
        EOk {| e_name := name;
               e_body := firstn (N.to_nat k) (e_body e ++ repeat 0%N (N.to_nat (blocks n * 512 - n))) |}
      else if (blocks k <? blocks n)%N then EErr
      else EUnmodelled
  end.

Section Oracles.
  Variable B D : Type.
  Variable raw : list member -> B.                 (* the raw bytes of the remaining gzip members *)
  Variable hash : halg -> B -> D.
  Variable verify : string -> halg -> D -> list N -> bool.   (* key configured under that name *)
  Variable parse_text : list N -> option (list string).       (* ParsePackageIndex: None = error *)

  (* the switch of IndexFromArchive on one entry; None = error *)
  Definition handle (idx : index) (e : entry) : option index :=
    if String.eqb (e_name e) apk_index_filename then
      match parse_text (e_body e) with
      | Some ps => Some {| i_pkgs := ps; i_desc := i_desc idx; i_sig := i_sig idx |}
      | None => None
      end
    else if String.eqb (e_name e) description_filename then
      Some {| i_pkgs := i_pkgs idx; i_desc := e_body e; i_sig := i_sig idx |}
    else if has_prefix sign_prefix (e_name e) then
      Some {| i_pkgs := i_pkgs idx; i_desc := i_desc idx; i_sig := Some (e_body e) |}
    else None.

  Fixpoint read_toks (carried : option meta) (idx : index) (ts : list tok) : pres :=
    match ts with
    | [] => POk idx                                  (* EOF; a carried meta-header is dropped *)
    | KZero :: ts' =>
        match ts' with
        | [] => POk idx                              (* one zero block, then EOF *)
        | KZero :: _ => POk idx                      (* end-of-archive marker: the walk stops *)
        | _ => PErr                                  (* zero block then a non-zero block *)
        end
    | KMeta mt :: ts' =>
        match carried with
        | None => read_toks (Some mt) idx ts'
        | Some _ => PUnmodelled                      (* two meta-headers in a row *)
        end
    | KEntry e :: ts' =>
        match (match carried with Some mt => apply_meta mt e | None => EOk e end) with
        | EErr => PErr
        | EUnmodelled => PUnmodelled
        | EOk e' =>
            match handle idx e' with
            | None => PErr
            | Some idx' => read_toks None idx' ts'
            end
        end
    end.

  Definition index_from_archive (a : archive) : pres := read_toks None empty_index (toks_of a).

  Definition sig_verifies (rest : list member) (s : sigrec) : bool :=
    verify (s_key s) (s_alg s) (hash (s_alg s) (raw rest)) (s_sig s).

  (* `for _, sig := range sigs { ... }` with the `verified` flag: the signatures are
     tried in the order of their entries; the first one RSAVerifyDigest accepts sets
     verified = true, verifiedSignature = sig.Signature and leaves the loop; a
     failure is logged and the next one is tried. None = the loop ended with
     verified == false. (The digest is computed once per algorithm and kept in a
     map; the value is hash alg indexData either way.) *)
  Fixpoint verify_loop (ok : sigrec -> bool) (sigs : list sigrec) : option sigrec :=
    match sigs with
    | [] => None
    | s :: sigs' => if ok s then Some s else verify_loop ok sigs'
    end.

  (* `if index.Signature == nil { index.Signature = verifiedSignature }` *)
  Definition fill_signature (verified : option (list N)) (i : index) : index :=
    match i_sig i with
    | Some _ => i
    | None => {| i_pkgs := i_pkgs i; i_desc := i_desc i; i_sig := verified |}
    end.
  Definition fill_pres (verified : option (list N)) (r : pres) : pres :=
    match r with POk i => POk (fill_signature verified i) | _ => r end.

  (* parseRepositoryIndex. [keys] = the names in the key map (no duplicates). *)
  Definition parse_repository_index (check : bool) (keys : list string) (a : archive) : pres :=
    if check then
      match keys with
      | [] => PErr                                                (* "no keys provided" *)
      | _ =>
        if existsb contains_slash keys then PErr                  (* "invalid keyname" *)
        else match a with
             | [] => PErr                                         (* no gzip stream at all *)
             | m1 :: rest =>
                 match sig_pass keys (m_entries m1) with
                 | Ok [] => PErr                                  (* len(sigs) == 0: "no signature with known key" *)
                 | Ok sigs =>
                     match verify_loop (sig_verifies rest) sigs with
                     | None => PErr                               (* !verified *)
                     | Some s =>                                  (* first verifying signature wins *)
                         (* fix c87da01: only the verified bytes are parsed *)
                         fill_pres (Some (s_sig s)) (index_from_archive rest)
                     end
                 | _ => PErr
                 end
             end
      end
    else fill_pres None (index_from_archive a).                   (* verifiedSignature stays nil *)
End Oracles.

(* ---- shouldCheckSignatureForIndex / IndexURL ----------------------------- *)
(* IndexURL is Sprintf(index_url_format, repo, arch, indexFilename); the model
   renders "%s" verbs positionally. *)
Fixpoint sprintf_s (fmt : string) (args : list string) : string :=
  match fmt with
  | String "%" (String "s" f') =>
      match args with
      | a :: args' => a ++ sprintf_s f' args'
      | [] => "%!s(MISSING)" ++ sprintf_s f' []
      end
  | String c f' => String c (sprintf_s f' args)
  | EmptyString => EmptyString
  end.
Definition index_url (repo arch : string) : string :=
  sprintf_s index_url_format [repo; arch; index_filename].

(* The test that exempts an index is read from the source (Generated.IndexShapes:
   exempt_match, with $elem ranging over opts.noSignatureIndexes — a range loop or
   slices.ContainsFunc). The model understands exactly one test, the comparison of
   IndexURL(elem, arch) with the index URL; any other text makes the model exempt
   everything, so that c04_optout_exact (and the comparison with the real function)
   fails instead of silently keeping the old meaning. *)
Definition exempt_test (elem arch index : string) : bool :=
  if String.eqb exempt_match "IndexURL($elem,$arch)==$index" then String.eqb (index_url elem arch) index
  else true.

Definition should_check (ignore_signatures : bool) (no_sig_indexes : list string)
    (index arch : string) : bool :=
  if ignore_signatures then false
  else negb (existsb (fun r => exempt_test r arch index) no_sig_indexes).
