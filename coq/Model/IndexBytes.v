(* C04 — parseRepositoryIndex over the BYTES of the archive (pkg/apk/apk/index.go).

   Model/Index.v takes an archive as a list of gzip members and so builds in that
   the digest is taken "after the first member". This file drops that: the
   archive is a byte string b, and the code's own bookkeeping decides where the
   signed bytes start:

       buf := bytes.NewReader(b); gzipReader := gzip.NewReader(buf); Multistream(false)
       ... tar walk over gzipReader (the signature pass) ...
       readBytes := len(b) - buf.Len();  indexData := b[readBytes:]
       digest(alg) := alg.New().Write(indexData).Sum(nil)          (once per algorithm)
       for _, sig := range sigs { if RSAVerifyDigest(digest(sig.alg), sig.alg, sig.Signature, keys[sig.KeyID]) == nil
                                    { verified = true; verifiedSignature = sig.Signature; break } }
       if !verified { error };  parsed = indexData
       IndexFromArchive(parsed);  if index.Signature == nil { index.Signature = verifiedSignature }

   What the readers do with bytes is not modelled; they are Section variables:
   [gz_first b] = what the signature pass sees of b — the decompressed bytes the
   tar reader pulled out of the first gzip stream and HOW MANY BYTES of b the gzip
   reader had consumed when the tar walk ended (whatever that number is: nothing is
   assumed about it, in particular not that it is a member boundary); None = gzip
   header/deflate/CRC error. [tar_entries] = archive/tar over those bytes (None =
   error). [index_of_bytes] = IndexFromArchive. The key map carries key MATERIAL:
   [verify] takes the bytes stored under the entry's key name. *)
From Apko Require Import Base.Prelude Base.Regex Generated.Regexes Generated.IndexConsts Model.Index.
Open Scope string_scope. Open Scope list_scope.

Definition keymap := list (string * list N).      (* name -> PEM bytes; names distinct *)
Definition key_names (keys : keymap) : list string := map fst keys.

Section Bytes.
  Variable D : Type.
  Variable gz_first : list N -> option (list N * nat).
  Variable tar_entries : list N -> option (list entry).
  Variable hash : halg -> list N -> D.
  Variable verify : list N -> halg -> D -> list N -> bool.     (* key material, digest type, digest, signature *)
  Variable index_of_bytes : list N -> option index.            (* IndexFromArchive; None = error *)

  Definition key_bytes (keys : keymap) (name : string) : list N :=
    match assoc_str name keys with Some kb => kb | None => [] end.     (* keys[sig.KeyID]; absent = nil *)

  (* b[readBytes:] *)
  Definition index_data (b : list N) (read_bytes : nat) : list N := skipn read_bytes b.

  Definition sig_verifies_bytes (keys : keymap) (data : list N) (s : sigrec) : bool :=
    verify (key_bytes keys (s_key s)) (s_alg s) (hash (s_alg s) data) (s_sig s).

  Definition parse_bytes (verified : option (list N)) (data : list N) : pres :=
    match index_of_bytes data with
    | Some i => POk (fill_signature verified i)
    | None => PErr
    end.

  Definition parse_repository_index_bytes (check : bool) (keys : keymap) (b : list N) : pres :=
    if check then
      match keys with
      | [] => PErr
      | _ =>
        if existsb contains_slash (key_names keys) then PErr
        else match gz_first b with
             | None => PErr
             | Some (tarb, read_bytes) =>
                 match tar_entries tarb with
                 | None => PErr
                 | Some es =>
                     match sig_pass (key_names keys) es with
                     | Ok [] => PErr
                     | Ok sigs =>
                         let data := index_data b read_bytes in
                         match verify_loop (sig_verifies_bytes keys data) sigs with
                         | None => PErr
                         | Some s => parse_bytes (Some (s_sig s)) data
                         end
                     | _ => PErr
                     end
                 end
             end
      end
    else parse_bytes None b.
End Bytes.
