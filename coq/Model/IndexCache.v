(* C04 — model of the process-wide index cache in front of parseRepositoryIndex
   (pkg/apk/apk/index.go: indexCache.get, GetRepositoryIndexes).

   A repository's index is abstracted to "whose valid signature it carries, if
   any" (the archive-level decision is Model/Index.v's subject).  What this file
   models is the CACHE DISCIPLINE: a result — accepted index or error — is stored
   under a key and handed to every later request with the same key, without
   looking at the request's keys or options again.  The key is the index URL
   (with the ETag for remote indexes) plus, since fix C04-F3, the verification
   context of the request: whether verification applies and, when it does, the
   configured keys.  [ctx] is that second component; [cached r] says whether
   results for repository r are stored at all (a remote index served without an
   ETag is fetched and parsed on every request). *)
From Apko Require Import Base.Prelude Model.Index Spec.IndexSpec.
Open Scope string_scope. Open Scope list_scope.

Section Cache.
  Variable signer : nat -> option string.
  Variable loc : nat -> string.
  Variable arch : string.
  Variable cached : nat -> bool.
  Variable K : Type.
  Variable K_eqb : K -> K -> bool.
  Variable ctx : repo_call -> nat -> K.

  (* fetch + parseRepositoryIndex for repository r under call c's keys and options *)
  Definition parse_fresh (c : repo_call) (r : nat) : bool := authorised_b signer loc arch c r.

  Definition store := list (nat * K * bool).
  Fixpoint lookup (s : store) (r : nat) (k : K) : option bool :=
    match s with
    | [] => None
    | (r', k', b) :: s' => if Nat.eqb r r' && K_eqb k k' then Some b else lookup s' r k
    end.

  (* indexCache.get: accepted? and the store afterwards *)
  Definition cache_get (s : store) (c : repo_call) (r : nat) : bool * store :=
    if cached r then
      match lookup s r (ctx c r) with
      | Some b => (b, s)
      | None => let b := parse_fresh c r in (b, (r, ctx c r, b) :: s)
      end
    else (parse_fresh c r, s).

  (* the repositories of one call, in some completion order (errgroup: every
     goroutine runs; the call fails when any of them fails) *)
  Fixpoint get_all (s : store) (c : repo_call) (rs : list nat) : list (nat * bool) * store :=
    match rs with
    | [] => ([], s)
    | r :: rs' =>
        let '(b, s1) := cache_get s c r in
        let '(l, s2) := get_all s1 c rs' in ((r, b) :: l, s2)
    end.

  Definition run_call (s : store) (c : repo_call) : repo_call * store :=
    let '(l, s') := get_all s c (rc_repos c) in
    let ok := forallb snd l in
    ({| rc_repos := rc_repos c; rc_keys := rc_keys c; rc_ignore := rc_ignore c; rc_exempt := rc_exempt c;
        o_err := negb ok; o_got := if ok then map fst l else [] |}, s').

  Fixpoint run_history (s : store) (cs : list repo_call) : list repo_call :=
    match cs with
    | [] => []
    | c :: rest => let '(c', s') := run_call s c in c' :: run_history s' rest
    end.
End Cache.

(* the verification context fix C04-F3 puts into the key: does verification apply
   to this index under this call and, if so, which keys are configured *)
Definition vctx := (bool * list string)%type.
Definition vctx_eqb (a b : vctx) : bool :=
  Bool.eqb (fst a) (fst b) && list_eqb String.eqb (snd a) (snd b).
Definition ctx_fixed (loc : nat -> string) (arch : string) (c : repo_call) (r : nat) : vctx :=
  let chk := call_check_required loc arch c r in (chk, if chk then rc_keys c else []).
(* what the key was before the fix: the URL alone *)
Definition ctx_url_only (c : repo_call) (r : nat) : unit := tt.
