(* C04 (final round) — the REMOTE branch of indexCache.get (pkg/apk/apk/index.go) for indexes served
   with an ETag, over histories in which the server's index changes between calls.

       HEAD u; etag := the response's ETag (none: fetch and parse every time, nothing stored)
       key := cacheURL + "@" + etag
       once per key { prev, ok := urlToEtag[cacheURL]; if ok { forget(cacheURL + "@" + prev) }
                      idx, err := fetchAndParse(etag); store(key, idx, err); urlToEtag[cacheURL] = etag }
       return load(key)

   cacheURL = index URL # verification context # pin name. A result — index or ERROR — is stored
   per (repository, context, ETag) and looked up by the EXACT ETag the server announces now; when a
   new ETag is fetched, the entry of the ETag recorded before for that (repository, context) is
   forgotten. The versions of an index reuse the record of Model/IndexCacheFiles.v: the field
   [fv_mtime] carries the ETag (a number), the history events and answers are the same. *)
From Apko Require Import Base.Prelude Model.Index Spec.IndexSpec Model.IndexCacheFiles.
Open Scope string_scope. Open Scope list_scope.

Section Etag.
  Variable loc : nat -> string.
  Variable arch : string.
  Variable K : Type.
  Variable K_eqb : K -> K -> bool.
  Variable ctx : repo_call -> nat -> K.

  Definition eentry := (nat * K * N * option nat)%type.       (* repository, context, ETag, accepted version / error *)
  Definition estore := (list eentry * list (nat * K * N))%type.   (* indexes; urlToEtag *)

  Definition same_key (r : nat) (k : K) (e : N) (x : eentry) : bool :=
    let '(r', k', e', _) := x in Nat.eqb r r' && K_eqb k k' && N.eqb e e'.

  Fixpoint elookup (s : list eentry) (r : nat) (k : K) (e : N) : option (option nat) :=
    match s with
    | [] => None
    | x :: s' => if same_key r k e x then Some (snd x) else elookup s' r k e
    end.

  Fixpoint prev_etag (u : list (nat * K * N)) (r : nat) (k : K) : option N :=
    match u with
    | [] => None
    | (r', k', e) :: u' => if Nat.eqb r r' && K_eqb k k' then Some e else prev_etag u' r k
    end.

  Definition eget (w : fworld) (st : estore) (c : repo_call) (r : nat) : option nat * estore :=
    match w r with
    | [] => (None, st)
    | v :: _ =>
        let '(s, u) := st in
        let k := ctx c r in
        match elookup s r k (fv_mtime v) with
        | Some res => (res, st)
        | None =>
            let res := if auth_sig loc arch c r (fv_signer v) && fv_parses v then Some (fv_id v) else None in
            let s1 := match prev_etag u r k with
                      | Some p => filter (fun x => negb (same_key r k p x)) s      (* forget(prevKey) *)
                      | None => s
                      end in
            (res, ((r, k, fv_mtime v, res) :: s1, (r, k, fv_mtime v) :: u))
        end
    end.

  Fixpoint eget_all (w : fworld) (st : estore) (c : repo_call) (rs : list nat) : list (nat * option nat) * estore :=
    match rs with
    | [] => ([], st)
    | r :: rs' => let '(res, st1) := eget w st c r in
                  let '(l, st2) := eget_all w st1 c rs' in ((r, res) :: l, st2)
    end.

  Fixpoint erun (w : fworld) (st : estore) (evs : list fevent) : list fanswer :=
    match evs with
    | [] => []
    | EvRewrite r v :: rest => AnsRewrite :: erun (put_version w r v) st rest
    | EvCall c _ :: rest =>
        let '(l, st') := eget_all w st c (rc_repos c) in
        let ok := forallb (fun p => match snd p with Some _ => true | None => false end) l in
        AnsCall (negb ok) (if ok then got_of l else []) :: erun w st' rest
    end.
End Etag.
