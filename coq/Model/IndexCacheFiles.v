(* C04 (wave 3) — the local-file branch of indexCache.get (pkg/apk/apk/index.go) over
   HISTORIES in which the index files are rewritten between calls.

       stat, mod := stat.ModTime(); before, ok := i.modtimes[cacheURL]
       if !ok || mod.After(before) {
           b := os.ReadFile(u); idx, err := parseRepositoryIndex(..., b, ...)
           if err != nil { i.store(cacheURL, nil, err) } else { i.store(cacheURL, index, nil) }
           i.modtimes[cacheURL] = mod }
       return i.load(cacheURL)

   A repository's index file is a sequence of versions (newest first, the head is in
   place); a version has an identity (what the harness's marker package says), the
   key whose valid signature it carries (if any) and a modification time. The cache
   is keyed by (repository, verification context); an entry remembers the mtime it
   was made for and the outcome — accepted version or ERROR: a failure is remembered
   like a success. A newer mtime makes the file be read and verified again. *)
From Apko Require Import Base.Prelude Model.Index Spec.IndexSpec.
Open Scope string_scope. Open Scope list_scope.

(* fv_parses: does IndexFromArchive read the file at all (a truncated archive does not, verified or not) *)
Record fver := { fv_id : nat; fv_signer : option string; fv_mtime : N; fv_parses : bool }.
Definition fworld := nat -> list fver.

Inductive fevent :=
| EvRewrite (r : nat) (v : fver)
| EvCall (c : repo_call) (got : list (nat * nat)).      (* observed: o_err c, and (repository, version) pairs returned *)

Definition put_version (w : fworld) (r : nat) (v : fver) : fworld :=
  fun r' => if Nat.eqb r' r then v :: w r' else w r'.

Section Files.
  Variable loc : nat -> string.
  Variable arch : string.
  Variable K : Type.
  Variable K_eqb : K -> K -> bool.
  Variable ctx : repo_call -> nat -> K.

  (* does call c authorise an index of repository r that carries sg's signature *)
  Definition auth_sig (c : repo_call) (r : nat) (sg : option string) : bool :=
    negb (call_check_required loc arch c r) ||
    match sg with Some k => existsb (String.eqb k) (rc_keys c) | None => false end.

  Definition fentry := (nat * K * N * option nat)%type.      (* repository, context, mtime, accepted version / error *)
  Definition fstore := list fentry.
  Fixpoint flookup (s : fstore) (r : nat) (k : K) : option (N * option nat) :=
    match s with
    | [] => None
    | (r', k', m, res) :: s' => if Nat.eqb r r' && K_eqb k k' then Some (m, res) else flookup s' r k
    end.

  (* one repository of one call; a repository without an index file is logged and skipped by
     GetRepositoryIndexes (fs.ErrNotExist) — the histories of this stage always have a file *)
  Definition fget (w : fworld) (s : fstore) (c : repo_call) (r : nat) : option nat * fstore :=
    match w r with
    | [] => (None, s)
    | v :: _ =>
        let reparse := let res := if auth_sig c r (fv_signer v) && fv_parses v then Some (fv_id v) else None in
                       (res, (r, ctx c r, fv_mtime v, res) :: s) in
        match flookup s r (ctx c r) with
        | Some (before, res) => if (before <? fv_mtime v)%N then reparse else (res, s)
        | None => reparse
        end
    end.

  Fixpoint fget_all (w : fworld) (s : fstore) (c : repo_call) (rs : list nat) : list (nat * option nat) * fstore :=
    match rs with
    | [] => ([], s)
    | r :: rs' => let '(res, s1) := fget w s c r in
                  let '(l, s2) := fget_all w s1 c rs' in ((r, res) :: l, s2)
    end.

  Definition got_of (l : list (nat * option nat)) : list (nat * nat) :=
    flat_map (fun p => match snd p with Some v => [(fst p, v)] | None => [] end) l.

  (* a history: the model's answer to every call, next to the rewrites *)
  Inductive fanswer := AnsRewrite | AnsCall (err : bool) (got : list (nat * nat)).
  Fixpoint frun (w : fworld) (s : fstore) (evs : list fevent) : list fanswer :=
    match evs with
    | [] => []
    | EvRewrite r v :: rest => AnsRewrite :: frun (put_version w r v) s rest
    | EvCall c _ :: rest =>
        let '(l, s') := fget_all w s c (rc_repos c) in
        let ok := forallb (fun p => match snd p with Some _ => true | None => false end) l in
        AnsCall (negb ok) (if ok then got_of l else []) :: frun w s' rest
    end.
End Files.
