(* C04 — RSAVerifyDigest (pkg/apk/signature/rsa.go) in stages, instead of one oracle:

       if len(digest) != digestType.Size()            { return errDigestLength }
       block, _ := pem.Decode(publicKey);   if block == nil { return errNoPemBlock }
       pub, err := x509.ParsePKIXPublicKey(block.Bytes); if err != nil { return ... }
       rsaPub, ok := pub.( *rsa.PublicKey);  if !ok    { return errNoRSAKey }
       err = rsa.VerifyPKCS1v15(rsaPub, digestType, digest, signature); if err != nil { return ... }
       return nil

   The statement list is READ FROM THE SOURCE (Generated.IndexShapes.rsa_verify_steps:
   parameters by position, locals numbered in order of first assignment, any non-nil error
   written err). The model below is the meaning of exactly that list; for any other list
   it answers "verifies" so that every theorem about it fails rather than silently keeping
   the old meaning. The four library calls are Section variables: [digest_fits] =
   len(digest) == digestType.Size(), [pem_first_block] = the bytes of the FIRST PEM block
   (text before it is skipped, anything after it ignored), [parse_pkix], [pkcs1v15]. *)
From Apko Require Import Base.Prelude Generated.IndexShapes Model.Index.
Open Scope string_scope. Open Scope list_scope.

Inductive pubkey (K : Type) := PubRSA (k : K) | PubOther.
Arguments PubRSA {K} k. Arguments PubOther {K}.

Definition rsa_verify_steps_expected : list string :=
  [ "if len($digest)!=$type.Size() return err";
    "$v1,_=pem.Decode($key)"; "if $v1==nil return err";
    "$v2,$v3=x509.ParsePKIXPublicKey($v1.Bytes)"; "if $v3!=nil return err";
    "$v4,$v5=$v2.(*rsa.PublicKey)"; "if !$v5 return err";
    "$v3=rsa.VerifyPKCS1v15($v4,$type,$digest,$sig)"; "if $v3!=nil return err";
    "return nil" ].
Definition rsa_steps_known : bool := list_eqb String.eqb rsa_verify_steps rsa_verify_steps_expected.

Section Rsa.
  Variable KB DER K D : Type.        (* key file bytes, DER bytes, RSA public keys, digests *)
  Variable digest_fits : halg -> D -> bool.
  Variable pem_first_block : KB -> option DER.
  Variable parse_pkix : DER -> option (pubkey K).
  Variable pkcs1v15 : K -> halg -> D -> list N -> bool.

  (* what the expected statement list means (err == nil) — also what the property understands by
     "verifies under the configured key": used by the validators, whatever the source says *)
  Definition rsa_verify_digest_meaning (kb : KB) (a : halg) (d : D) (sig : list N) : bool :=
    if negb (digest_fits a d) then false
    else match pem_first_block kb with
         | None => false
         | Some der =>
             match parse_pkix der with
             | None => false
             | Some PubOther => false
             | Some (PubRSA k) => pkcs1v15 k a d sig
             end
         end.

  (* the model of the function as the source has it on this run *)
  Definition rsa_verify_digest (kb : KB) (a : halg) (d : D) (sig : list N) : bool :=
    if rsa_steps_known then rsa_verify_digest_meaning kb a d sig else true.

  (* the key file is a PKIX RSA public key in its first PEM block *)
  Definition pkix_rsa_key (kb : KB) : option K :=
    match pem_first_block kb with
    | Some der => match parse_pkix der with Some (PubRSA k) => Some k | _ => None end
    | None => None
    end.
End Rsa.
