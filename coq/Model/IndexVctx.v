(* C04 — verificationContext (pkg/apk/apk/index.go): the part of the index-cache key
   that says in which verification context a parsed index was obtained.

       if !shouldCheckSignatureForIndex(u, arch, opts) { return "unverified" }
       names := keys of the key map, sorted
       h := sha256.New()
       for _, name := range names { fmt.Fprintf(h, "%d:%s%d:", len(name), name, len(keys[name])); h.Write(keys[name]) }
       return "verified:" + hex.EncodeToString(h.Sum(nil))

   It is a function of (does verification apply?, the (name, key bytes) pairs sorted
   by name). What is written into the hash for one key — the calls, the format, the
   arguments — is READ FROM THE SOURCE (Generated.IndexShapes.vctx_writes) and
   interpreted here, as are the two literals; the hash is a Section variable.
   Strings are byte strings (Coq [string] = list of bytes). *)
From Coq Require Import DecimalString.
From Apko Require Import Base.Prelude Generated.IndexShapes.
Open Scope list_scope. Open Scope string_scope.   (* ++ is string append here *)

Definition dec (n : N) : string := NilEmpty.string_of_uint (N.to_uint n).
Definition slen (s : string) : N := N.of_nat (String.length s).

(* fmt.Sprintf with %d and %s verbs *)
Inductive farg := FS (s : string) | FD (n : N).
Definition show_farg (a : farg) : string := match a with FS s => s | FD n => dec n end.
Fixpoint sprintf (fmt : string) (args : list farg) : string :=
  match fmt with
  | String "%" (String v f') =>
      if (Ascii.eqb v "d" || Ascii.eqb v "s")%bool then
        match args with
        | a :: args' => show_farg a ++ sprintf f' args'
        | [] => "%!" ++ String v "(MISSING)" ++ sprintf f' []
        end
      else String "%" (String v (sprintf f' args))
  | String c f' => String c (sprintf f' args)
  | EmptyString => EmptyString
  end.

(* the argument expressions goextract prints, evaluated for one key *)
Definition eval_arg (name key : string) (a : string) : option farg :=
  if String.eqb a "$name" then Some (FS name)
  else if String.eqb a "$keys[$name]" then Some (FS key)
  else if String.eqb a "string($keys[$name])" then Some (FS key)
  else if String.eqb a "len($name)" then Some (FD (slen name))
  else if String.eqb a "len($keys[$name])" then Some (FD (slen key))
  else None.

Fixpoint eval_args (name key : string) (l : list string) : option (list farg) :=
  match l with
  | [] => Some []
  | a :: l' => match eval_arg name key a, eval_args name key l' with
               | Some v, Some vs => Some (v :: vs)
               | _, _ => None
               end
  end.

(* one row of vctx_writes; None = a call or an argument the model does not know *)
Definition eval_write (name key : string) (w : string * list string) : option string :=
  let '(call, args) := w in
  if String.eqb call "Fprintf" then
    match args with
    | fmt :: rest => option_map (sprintf fmt) (eval_args name key rest)
    | [] => None
    end
  else if String.eqb call "Write" then
    match args with
    | [a] => match eval_arg name key a with Some (FS s) => Some s | _ => None end
    | _ => None
    end
  else None.

Fixpoint eval_writes (name key : string) (ws : list (string * list string)) : option string :=
  match ws with
  | [] => Some ""
  | w :: ws' => match eval_write name key w, eval_writes name key ws' with
                | Some a, Some b => Some (a ++ b)
                | _, _ => None
                end
  end.

(* what one key contributes to the hash input; a shape the model cannot interpret
   contributes nothing (and the injectivity theorem then fails) *)
Definition vctx_entry (name key : string) : string :=
  match eval_writes name key vctx_writes with Some s => s | None => "" end.

(* sort.Strings on the names: insertion sort by byte-wise comparison (names are the
   keys of a Go map, hence distinct: which sorting algorithm is used does not matter) *)
Definition keypairs := list (string * string).
Fixpoint insert_pair (p : string * string) (l : keypairs) : keypairs :=
  match l with
  | [] => [p]
  | q :: l' => if String.leb (fst p) (fst q) then p :: l else q :: insert_pair p l'
  end.
Fixpoint sort_pairs (l : keypairs) : keypairs :=
  match l with [] => [] | p :: l' => insert_pair p (sort_pairs l') end.

Definition ordered (l : keypairs) : keypairs := if vctx_sorted then sort_pairs l else l.

Fixpoint vctx_preimage_of (l : keypairs) : string :=
  match l with [] => "" | (n, k) :: l' => vctx_entry n k ++ vctx_preimage_of l' end.
Definition vctx_preimage (keys : keypairs) : string := vctx_preimage_of (ordered keys).

(* hex.EncodeToString *)
Definition hex_digit (n : N) : ascii :=
  ascii_of_N (if (n <? 10)%N then 48 + n else 87 + n).
Fixpoint hex (s : string) : string :=
  match s with
  | EmptyString => EmptyString
  | String c s' => let n := N_of_ascii c in String (hex_digit (n / 16)) (String (hex_digit (n mod 16)) (hex s'))
  end.

Section Vctx.
  Variable H : string -> string.            (* SHA-256 of the bytes written *)
  (* [check] = shouldCheckSignatureForIndex(u, arch, opts) *)
  Definition verification_context (check : bool) (keys : keypairs) : string :=
    if check then vctx_prefix ++ hex (H (vctx_preimage keys)) else vctx_unverified.
End Vctx.
