(* C04 (wave 3) — who verifies the indexes that reach resolution through the
   multi-architecture wiring (pkg/apk/apk/implementation.go ResolveWorld,
   pkg/apk/apk/repo.go APK.GetRepositoryIndexes).

   A build has one APK context per architecture; every context carries its own key
   ring (the files of its keys directory), its ignoreSignatures flag, its exemption
   list (noSignatureIndexes) and its repositories, and a map ByArch of the contexts
   of the build. ResolveWorld of context a
     - loads a's own indexes:        a.GetRepositoryIndexes(ctx, <own argument>)
     - for every OTHER context o in a.ByArch loads o's indexes:
                                     o.GetRepositoryIndexes(ctx, <sibling argument>)
       under o's keys and o's exemptions (the method reads them from its receiver),
     - fails when any load fails; otherwise all those indexes reach resolution: the
       own ones build the resolver, the siblings' feed disqualifyDifference (a version
       that a sibling architecture does not list is disqualified).
   The two ignore-signature arguments are READ FROM THE SOURCE
   (Generated.IndexShapes.resolve_own_ignore_arg / resolve_sibling_ignore_arg) and
   interpreted here. An index is abstracted to "whose valid signature it carries, if
   any" and, for the correspondence, the versions of the one package it lists. *)
From Apko Require Import Base.Prelude Generated.IndexShapes Model.Index.
Open Scope string_scope. Open Scope list_scope.

Record wctx := {
  wx_keys : list string;        (* names of the keys configured for this context *)
  wx_ignore : bool;             (* a.ignoreSignatures *)
  wx_exempt : list nat;         (* repositories (by position) listed in a.noSignatureIndexes *)
  wx_nrepos : nat;              (* repositories 0 .. n-1 *)
  wx_byarch : list nat }.       (* a.ByArch: contexts by position (may or may not contain the context itself) *)

Section Wiring.
  Variable ctxs : list wctx.
  Variable signer : nat -> nat -> option string.      (* context j, repository r: whose valid signature the index carries *)
  Variable versions : nat -> nat -> list N.           (* the versions of the package it lists *)

  Definition empty_ctx : wctx := {| wx_keys := []; wx_ignore := false; wx_exempt := []; wx_nrepos := 0; wx_byarch := [] |}.
  Definition ctx_of (j : nat) : wctx := nth j ctxs empty_ctx.

  (* GetRepositoryIndexes of context j with the ignore argument [ign]: does the index of repository r load? *)
  Definition index_loads (ign : bool) (j r : nat) : bool :=
    ign || existsb (Nat.eqb r) (wx_exempt (ctx_of j)) ||
    match signer j r with Some k => existsb (String.eqb k) (wx_keys (ctx_of j)) | None => false end.

  Definition ctx_loads (ign : bool) (j : nat) : bool :=
    forallb (index_loads ign j) (seq 0 (wx_nrepos (ctx_of j))).

  (* the ignore argument as the source writes it, for the request of context a about context o *)
  Definition ignore_arg (text : string) (a o : nat) : bool :=
    if String.eqb text "$a.ignoreSignatures" then wx_ignore (ctx_of a)
    else if String.eqb text "$other.ignoreSignatures" then wx_ignore (ctx_of o)
    else if String.eqb text "false" then false
    else true.     (* "true", or a text the model does not know: no verification *)

  Definition siblings (a : nat) : list nat := filter (fun o => negb (Nat.eqb o a)) (wx_byarch (ctx_of a)).

  (* the (context, repository) pairs whose indexes reach resolution, None = ResolveWorld fails in a load *)
  Definition resolve_loads_with (own_arg sib_arg : string) (a : nat) : option (list (nat * nat)) :=
    if ctx_loads (ignore_arg own_arg a a) a &&
       forallb (fun o => ctx_loads (ignore_arg sib_arg a o) o) (siblings a)
    then Some (flat_map (fun j => map (fun r => (j, r)) (seq 0 (wx_nrepos (ctx_of j)))) (a :: siblings a))
    else None.
  Definition resolve_loads := resolve_loads_with resolve_own_ignore_arg resolve_sibling_ignore_arg.

  (* the tiny resolver of the correspondence: one package; the highest version the own
     indexes list that every sibling architecture lists too (disqualifyDifference) *)
  Definition listed (j : nat) : list N := flat_map (versions j) (seq 0 (wx_nrepos (ctx_of j))).
  (* disqualifications are recorded per package OBJECT: they touch a's own packages only
     when a itself is an entry of a.ByArch (its own index objects are then reused) *)
  Definition candidates (a : nat) : list N :=
    if existsb (Nat.eqb a) (wx_byarch (ctx_of a))
    then filter (fun v => forallb (fun o => existsb (N.eqb v) (listed o)) (siblings a)) (listed a)
    else listed a.
  Definition best (l : list N) : option N :=
    match l with [] => None | v :: l' => Some (fold_left N.max l' v) end.
  Definition resolve_version (a : nat) : option N :=
    match resolve_loads a with None => None | Some _ => best (candidates a) end.
End Wiring.
