(* C07 — executable model of how apko installs an ordered list of packages
   into a filesystem and what it then writes into lib/apk/db/installed.

   Transcribed from (quirks included, no proofs here):
     pkg/tarfs/fs.go            WriteHeader / writeHeader / link      ("lazy" backend, tarfs.New())
     pkg/apk/apk/install.go     installAPKFiles / installRegularFile / writeOneFile
                                ("streaming" backends: apkfs.NewMemFS(), apkfs.DirFS(dir))
     pkg/apk/apk/implementation.go  InstallPackages (installedFiles, slices.DeleteFunc), installPackage
     pkg/apk/apk/installed.go   AddInstalledPackage / sortTarHeaders (which headers reach the text)

   Abstractions. A path is its list of components. File contents and symlink
   targets are numbers: equal numbers <=> equal bytes (the code compares SHA-1
   sums; a collision is outside the model). The filesystem is a flat map from
   paths to nodes; a hard link is a copy of the target's node (nodes written by
   an install are never mutated in place, only replaced). The model declines
   (EUnsupported) every step whose path runs through a symbolic link, and hard
   links to anything but a regular file: path resolution is C17's subject.
   uid/gid of a header are never applied to a node by either install path
   (finding C07-F1): every node the install creates belongs to 0:0. *)
From Apko Require Import Base.Prelude.
Open Scope string_scope. Open Scope list_scope.

Definition path := list string.
Definition path_eqb (a b : path) : bool := list_eqb String.eqb a b.

Inductive kind := KReg | KDir | KSym | KLink.
Definition kind_eqb (a b : kind) : bool :=
  match a, b with KReg, KReg | KDir, KDir | KSym, KSym | KLink, KLink => true | _, _ => false end.

(* one tar header of a package's data section *)
Record hdr := {
  h_path : path;
  h_kind : kind;
  h_mode : N;      (* tar mode & 07777 *)
  h_uid : N; h_gid : N;
  h_sum : N;       (* KReg: content id; KSym: id of the link target; otherwise unused *)
  h_link : path    (* KLink: the target path; KSym: the target string split at "/" (verbatim: a
                      leading "" component = an absolute target, ".." and "." as written) *)
}.

Record pkg := { p_name : string; p_origin : string; p_replaces : list string; p_files : list hdr }.
Definition no_pkg : pkg := {| p_name := ""; p_origin := ""; p_replaces := []; p_files := [] |}.

Inductive node :=
| NDir (mode : N)
| NFile (sum mode : N) (own : option nat) (data : bool)
    (* own = Some i: the bytes are package i's (lazy: the node's tar entry names package i);
       own = None: the file was there before the install (no tar entry);
       data = false: such a file with no bytes (tarfs: node.data == nil) *)
| NSym (tgt : N) (own : option nat) (lnk : path)   (* lnk: the target string split at "/" *)
| NOther.

Definition fsmap := list (path * node).
Fixpoint fs_get (m : fsmap) (p : path) : option node :=
  match m with
  | [] => None
  | (q, n) :: m' => if path_eqb q p then Some n else fs_get m' p
  end.
Fixpoint fs_set (m : fsmap) (p : path) (n : node) : fsmap :=
  match m with
  | [] => [(p, n)]
  | (q, x) :: m' => if path_eqb q p then (q, n) :: m' else (q, x) :: fs_set m' p n
  end.

(* installedFiles: path -> index of the owning package in the list *)
Definition ifmap := list (path * nat).
Fixpoint if_get (m : ifmap) (p : path) : option nat :=
  match m with
  | [] => None
  | (q, i) :: m' => if path_eqb q p then Some i else if_get m' p
  end.
Definition if_set (m : ifmap) (p : path) (i : nat) : ifmap := (p, i) :: m.

Record st := { s_fs : fsmap; s_if : ifmap }.

Inductive ierr :=
| EConflict (p : path)   (* apk.FileConflictError *)
| EOther                 (* any other error *)
| EUnsupported.          (* the model declines (path through a symbolic link, ...) *)

(* results carry the state reached when the error was returned *)
Inductive ires (A : Type) := IOk (a : A) | IErr (e : ierr) (s : st).
Arguments IOk {A} a. Arguments IErr {A} e s.

Inductive backend := Lazy | StreamMem | StreamDir.
Definition is_lazy (b : backend) : bool := match b with Lazy => true | _ => false end.

(* ---- the two decision procedures ---------------------------------------- *)
Inductive decision := KeepOld | Overwrite | Conflict.

Definition declares (p q : pkg) : bool := existsb (String.eqb (p_name q)) (p_replaces p).

(* tarfs.writeHeader, both nodes having a tar entry: [got] is the package of the
   existing entry, [want] the one being installed *)
Definition decide_lazy (got want : pkg) (got_sum want_sum : N) : decision :=
  if N.eqb got_sum want_sum then KeepOld
  else if declares got want then KeepOld
  else if declares want got || String.eqb (p_origin got) (p_origin want) then Overwrite
  else Conflict.

(* installRegularFile after writeOneFile reported FileExistsError; [owner] is
   installedFiles[name] *)
Inductive sdecision := SDec (d : decision) | SErrExists | SErrNotOurs.
Definition decide_stream (owner : option pkg) (want : pkg) (same : bool) : sdecision :=
  if String.eqb (p_origin want) "" then SErrExists
  else if same then SDec KeepOld
  else match owner with
  | None => SErrNotOurs
  | Some pk =>
      if declares pk want then SDec KeepOld
      else if negb (String.eqb (p_origin pk) (p_origin want)) && negb (declares want pk) then SDec Conflict
      else SDec Overwrite
  end.

(* ---- paths --------------------------------------------------------------- *)
Definition parent (p : path) : path := removelast p.
Fixpoint prefixes_from (acc rest : path) : list path :=
  match rest with
  | [] => []
  | c :: r => (acc ++ [c]) :: prefixes_from (acc ++ [c]) r
  end.
(* the non-empty prefixes of p, shortest first, p itself last *)
Definition prefixes (p : path) : list path := prefixes_from [] p.

Inductive pstate := PDir | PMissing | PNotDir | PSymlinked.
Fixpoint walk_dirs (m : fsmap) (ps : list path) : pstate :=
  match ps with
  | [] => PDir
  | q :: more =>
      match fs_get m q with
      | None => PMissing
      | Some (NDir _) => walk_dirs m more
      | Some (NSym _ _ _) => PSymlinked
      | Some _ => PNotDir
      end
  end.
(* getNode(dir): the root always exists *)
Definition dir_state (m : fsmap) (d : path) : pstate := walk_dirs m (prefixes d).

(* MkdirAll(p, perm): missing components are created with THIS perm, existing
   directories keep their mode (finding C07-F2); work done before an error stays *)
Fixpoint mkdir_all (m : fsmap) (ps : list path) (perm : N) : fsmap * option ierr :=
  match ps with
  | [] => (m, None)
  | q :: more =>
      match fs_get m q with
      | None => mkdir_all (fs_set m q (NDir perm)) more perm
      | Some (NDir _) => mkdir_all m more perm
      | Some (NSym _ _ _) => (m, Some EUnsupported)
      | Some _ => (m, Some EOther)
      end
  end.

Definition perm_of (mode : N) : N := N.land mode 511.      (* & 0o777 *)

Definition with_fs (s : st) (m : fsmap) : st := {| s_fs := m; s_if := s_if s |}.

Definition file_node (i : nat) (h : hdr) : node :=
  match h_kind h with
  | KSym => NSym (h_sum h) (Some i) (h_link h)
  | _ => NFile (h_sum h) (h_mode h) (Some i) true
  end.

(* a step returns the new state and whether the header is appended to the
   package's list of "installed files" *)
Definition step_res := ires (st * bool).

Definition need_dir (s : st) (d : path) (k : unit -> step_res) : step_res :=
  match dir_state (s_fs s) d with
  | PDir => k tt
  | PSymlinked => IErr EUnsupported s
  | _ => IErr EOther s
  end.

Definition step_dir (s : st) (h : hdr) : step_res :=
  match mkdir_all (s_fs s) (prefixes (h_path h)) (perm_of (h_mode h)) with
  | (m, None) => IOk (with_fs s m, true)
  | (m, Some e) => IErr e (with_fs s m)
  end.

(* Link(old, new) on all three backends *)
Definition step_link (s : st) (h : hdr) : step_res :=
  need_dir s (parent (h_path h)) (fun _ =>
  match dir_state (s_fs s) (parent (h_link h)) with
  | PSymlinked => IErr EUnsupported s
  | PDir =>
      match fs_get (s_fs s) (h_link h) with
      | None => IErr EOther s
      | Some (NFile sm md ow dt) =>
          match fs_get (s_fs s) (h_path h) with
          | Some _ => IErr EOther s
          | None => IOk (with_fs s (fs_set (s_fs s) (h_path h) (NFile sm md ow dt)), true)
          end
      | Some _ => IErr EUnsupported s
      end
  | _ => IErr EOther s
  end).

Definition set_file (s : st) (i : nat) (h : hdr) : st :=
  {| s_fs := fs_set (s_fs s) (h_path h) (file_node i h);
     s_if := match h_kind h with KReg => if_set (s_if s) (h_path h) i | _ => s_if s end |}.

(* tarfs: WriteHeader for TypeReg / TypeSymlink, then lazilyInstallAPKFiles *)
Definition step_lazy_file (pkgs : list pkg) (i : nat) (me : pkg) (s : st) (h : hdr) : step_res :=
  let p := h_path h in
  let same_link :=
    match h_kind h, dir_state (s_fs s) (parent p), fs_get (s_fs s) p with
    | KSym, PDir, Some (NSym t _ _) => N.eqb t (h_sum h)
    | _, _, _ => false
    end in
  if same_link then IOk (s, true)
  else need_dir s (parent p) (fun _ =>
    let decide j gs :=
      match decide_lazy (nth j pkgs no_pkg) me gs (h_sum h) with
      | KeepOld => IOk (s, true)
      | Overwrite => IOk (set_file s i h, true)
      | Conflict => IErr (EConflict p) s
      end in
    match fs_get (s_fs s) p with
    | None => IOk (set_file s i h, true)
    | Some (NFile gs _ (Some j) _) => decide j gs
    | Some (NSym gs (Some j) _) => decide j gs
    | Some (NFile gs _ None true) => if N.eqb gs (h_sum h) then IOk (s, true) else IErr EOther s
    | Some _ => IErr EOther s       (* "conflicting file has no tar entry" *)
    end).

(* streaming: TypeReg *)
Definition step_stream_reg (pkgs : list pkg) (i : nat) (me : pkg) (s : st) (h : hdr) : step_res :=
  let p := h_path h in
  match dir_state (s_fs s) (parent p) with
  | PSymlinked => IErr EUnsupported s
  | PDir =>
      match fs_get (s_fs s) p with
      | None => IOk (set_file s i h, true)
      | Some (NFile gs _ _ _) =>
          let owner := match if_get (s_if s) p with Some j => Some (nth j pkgs no_pkg) | None => None end in
          match decide_stream owner me (N.eqb gs (h_sum h)) with
          | SDec KeepOld => IOk (s, true)
          | SDec Overwrite => IOk (set_file s i h, true)
          | SDec Conflict => IErr (EConflict p) s
          | SErrExists | SErrNotOurs => IErr EOther s
          end
      | Some (NDir _) => IErr EOther s
      | Some _ => IErr EUnsupported s     (* Stat follows the link; devices *)
      end
  | _ => IErr EOther s
  end.

(* streaming: TypeSymlink. An identical link is skipped with "continue": the
   header is NOT appended (the lazy path appends it) *)
Definition step_stream_sym (i : nat) (s : st) (h : hdr) : step_res :=
  let p := h_path h in
  need_dir s (parent p) (fun _ =>
    match fs_get (s_fs s) p with
    | None => IOk (set_file s i h, true)
    | Some (NSym t _ _) => if N.eqb t (h_sum h) then IOk (s, false) else IErr EOther s
    | Some _ => IErr EOther s
    end).

Definition step (b : backend) (pkgs : list pkg) (i : nat) (me : pkg) (s : st) (h : hdr) : step_res :=
  match h_kind h with
  | KDir => step_dir s h
  | KLink => step_link s h
  | KReg => if is_lazy b then step_lazy_file pkgs i me s h else step_stream_reg pkgs i me s h
  | KSym => if is_lazy b then step_lazy_file pkgs i me s h else step_stream_sym i s h
  end.

(* installAPKFiles / lazilyInstallAPKFiles: [acc] is the list returned on success *)
Fixpoint install_files (b : backend) (pkgs : list pkg) (i : nat) (me : pkg)
    (s : st) (acc : list hdr) (hs : list hdr) : ires (st * list hdr) :=
  match hs with
  | [] => IOk (s, acc)
  | h :: more =>
      match step b pkgs i me s h with
      | IErr e s' => IErr e s'
      | IOk (s', app) => install_files b pkgs i me s' (if app then acc ++ [h] else acc) more
      end
  end.

(* the sequential installer goroutine of InstallPackages: packages [todo],
   the first of which has index [i] in [pkgs]; [done] = allFiles so far *)
Fixpoint install_all (b : backend) (pkgs : list pkg) (i : nat) (s : st)
    (done : list (list hdr)) (todo : list pkg) : ires (st * list (list hdr)) :=
  match todo with
  | [] => IOk (s, done)
  | me :: more =>
      match install_files b pkgs i me s [] (p_files me) with
      | IErr e s' => IErr e s'
      | IOk (s', files) => install_all b pkgs (S i) s' (done ++ [files]) more
      end
  end.

(* slices.DeleteFunc in InstallPackages *)
(* installedFiles is looked up with hdr.Name: a directory header's name ends in
   "/" (as tar writers and synthrepo emit it), the keys are names of regular
   files, so a directory header is never dropped *)
Definition prune (ifs : ifmap) (i : nat) (files : list hdr) : list hdr :=
  filter (fun h => match h_kind h with
                   | KDir => true
                   | _ => match if_get ifs (h_path h) with Some j => Nat.eqb j i | None => true end
                   end) files.

(* which headers sortTarHeaders hands on to the writer: a header below the top
   level needs a directory header of the same package for every ancestor; a
   top-level header is written only if it is a directory with an entry in it *)
Definition is_dir_hdr (files : list hdr) (q : path) : bool :=
  existsb (fun h => path_eqb (h_path h) q && kind_eqb (h_kind h) KDir) files.
Definition emitted (files : list hdr) (h : hdr) : bool :=
  match h_path h with
  | [] => false
  | [x] => kind_eqb (h_kind h) KDir && existsb (fun c => path_eqb (parent (h_path c)) [x] && negb (path_eqb (h_path c) [x])) files
  | _ => forallb (is_dir_hdr files) (prefixes (parent (h_path h)))
  end.
Definition db_entries (ifs : ifmap) (i : nat) (files : list hdr) : list hdr :=
  let pr := prune ifs i files in filter (emitted pr) pr.

Fixpoint db_from (ifs : ifmap) (i : nat) (all : list (list hdr)) : list (list hdr) :=
  match all with
  | [] => []
  | f :: more => db_entries ifs i f :: db_from ifs (S i) more
  end.

Record final := { f_fs : fsmap; f_if : ifmap; f_files : list (list hdr); f_db : list (list hdr) }.
Inductive result := RDone (f : final) | RFail (e : ierr) (s : st).

Definition install (b : backend) (pkgs : list pkg) (init : fsmap) : result :=
  match install_all b pkgs 0 {| s_fs := init; s_if := [] |} [] pkgs with
  | IErr e s => RFail e s
  | IOk (s, all) => RDone {| f_fs := s_fs s; f_if := s_if s; f_files := all; f_db := db_from (s_if s) 0 all |}
  end.

(* ==== symbolic links on the way ============================================
   [step] declines (EUnsupported) whenever a path runs through a symbolic link.
   [step_g] below is the transcription of the same code WITH the path
   resolution of the three filesystems (tarfs/memfs getNode, MkdirAll, openFile,
   Readlink, Symlink, Link, Remove; the directory backend = the kernel + the
   in-memory overlay), on the flat map: a node is identified with its canonical
   path (no directory is reachable under two names except through links).
   [step_l] = [step] where it answers, [step_g] where it declines.  Still
   declined: hard links on the directory backend whose target NAME is a link
   (linkat does not follow it), absolute targets on the directory backend
   (they resolve against the HOST root), a target that resolves to the root. *)

(* filepath.Clean of a relative path, on components ([st] = stack, top first) *)
Fixpoint clean_stack (st : list string) (ps : path) : path :=
  match ps with
  | [] => rev st
  | c :: r =>
      if String.eqb c "" || String.eqb c "." then clean_stack st r
      else if String.eqb c ".." then
        match st with
        | [] => clean_stack [".."] r
        | t :: st' => if String.eqb t ".." then clean_stack (".." :: st) r else clean_stack st' r
        end
      else clean_stack (c :: st) r
  end.
Definition clean_rel (ps : path) : path := clean_stack [] ps.

(* filepath.IsAbs of the target string *)
Definition is_abs_target (l : path) : bool :=
  match l with c :: _ :: _ => String.eqb c "" | _ => false end.
(* linkTarget, or filepath.Join(traversed, linkTarget) *)
Definition link_dest (trav lnk : path) : path :=
  if is_abs_target lnk then lnk else clean_rel (trav ++ lnk).

Definition node_at (m : fsmap) (q : path) : option node :=
  match q with [] => Some (NDir 493) | _ => fs_get m q end.
Definition is_dir_at (m : fsmap) (q : path) : bool :=
  match node_at m q with Some (NDir _) => true | _ => false end.

Inductive nres := NFound (q : path) | NNotExist | NTooDeep.

(* getNodeCountLinks: [d] = maxLinks - linkDepth; the result is the canonical
   path of the node (never a symbolic link: the last component is resolved too) *)
Fixpoint get_node (d : nat) (m : fsmap) (parts : path) {struct d} : nres :=
  (fix walk (cur trav parts : path) {struct parts} : nres :=
     match parts with
     | [] => NFound cur
     | c :: rest =>
         if String.eqb c "" then walk cur trav rest
         else if negb (is_dir_at m cur) then NNotExist          (* node.children == nil *)
         else match fs_get m (cur ++ [c]) with
              | None => NNotExist
              | Some (NSym _ _ lnk) =>
                  match d with
                  | O => NTooDeep
                  | S d' =>
                      match get_node d' m (link_dest trav lnk) with
                      | NFound q => walk q (trav ++ [c]) rest
                      | e => e
                      end
                  end
              | Some _ => walk (cur ++ [c]) (trav ++ [c]) rest
              end
     end) [] [] parts.
Definition max_links : nat := 40.
Definition gn (m : fsmap) (p : path) : nres := get_node max_links m p.

Definition base_of (p : path) : string := last p "".
(* getNode(filepath.Dir(name)) must be a directory *)
Definition resolve_parent (m : fsmap) (p : path) : option path :=
  match gn m (parent p) with
  | NFound q => if is_dir_at m q then Some q else None
  | _ => None
  end.

(* MkdirAll of tarfs and memfs: a symbolic link on the way is replaced by what
   it resolves to, which must be a directory *)
Fixpoint mkdir_g (m : fsmap) (cur trav parts : path) (perm : N) : fsmap * bool :=
  match parts with
  | [] => (m, true)
  | c :: rest =>
      if String.eqb c "" then mkdir_g m cur trav rest perm
      else
        let loc := cur ++ [c] in
        match fs_get m loc with
        | None => mkdir_g (fs_set m loc (NDir perm)) loc (trav ++ [c]) rest perm
        | Some (NDir _) => mkdir_g m loc (trav ++ [c]) rest perm
        | Some (NSym _ _ lnk) =>
            match gn m (link_dest trav lnk) with
            | NFound q => if is_dir_at m q then mkdir_g m q (trav ++ [c]) rest perm else (m, false)
            | _ => (m, false)
            end
        | Some _ => (m, false)
        end
  end.

Definition step_dir_g (s : st) (h : hdr) : step_res :=
  match mkdir_g (s_fs s) [] [] (h_path h) (perm_of (h_mode h)) with
  | (m, true) => IOk (with_fs s m, true)
  | (m, false) => IErr EOther (with_fs s m)
  end.

(* the node is written at [loc]; installedFiles is keyed by the header's name *)
Definition set_at (s : st) (i : nat) (h : hdr) (loc : path) : st :=
  {| s_fs := fs_set (s_fs s) loc (file_node i h);
     s_if := match h_kind h with KReg => if_set (s_if s) (h_path h) i | _ => s_if s end |}.

(* Readlink(name) answers the header's own target *)
Definition same_link_g (s : st) (h : hdr) : bool :=
  match gn (s_fs s) (parent (h_path h)) with
  | NFound q =>
      match fs_get (s_fs s) (q ++ [base_of (h_path h)]) with
      | Some (NSym t _ _) => N.eqb t (h_sum h)
      | _ => false
      end
  | _ => false
  end.

(* tarfs: WriteHeader for TypeReg / TypeSymlink. writeHeader looks the last
   component up in the resolved parent WITHOUT following it *)
Definition step_lazy_g (pkgs : list pkg) (i : nat) (me : pkg) (s : st) (h : hdr) : step_res :=
  let p := h_path h in
  if kind_eqb (h_kind h) KSym && same_link_g s h then IOk (s, true)
  else match resolve_parent (s_fs s) p with
  | None => IErr EOther s
  | Some q =>
      let loc := q ++ [base_of p] in
      let decide j gs :=
        match decide_lazy (nth j pkgs no_pkg) me gs (h_sum h) with
        | KeepOld => IOk (s, true)
        | Overwrite => IOk (set_at s i h loc, true)
        | Conflict => IErr (EConflict p) s
        end in
      match fs_get (s_fs s) loc with
      | None => IOk (set_at s i h loc, true)
      | Some (NFile gs _ (Some j) _) => decide j gs
      | Some (NSym gs (Some j) _) => decide j gs
      | Some (NFile gs _ None true) => if N.eqb gs (h_sum h) then IOk (s, true) else IErr EOther s
      | Some _ => IErr EOther s
      end
  end.

(* Link(old, new): the target is resolved completely, the new name is looked
   up in the resolved parent *)
Definition step_link_g (b : backend) (s : st) (h : hdr) : step_res :=
  match resolve_parent (s_fs s) (h_path h) with
  | None => IErr EOther s
  | Some q =>
      let loc := q ++ [base_of (h_path h)] in
      match gn (s_fs s) (h_link h) with
      | NFound t =>
          match node_at (s_fs s) t with
          | Some (NFile sm md ow dt) =>
              match b with
              | StreamDir =>
                  (* linkat(2) does not follow a link in the LAST component of the target *)
                  if match resolve_parent (s_fs s) (h_link h) with
                     | Some qt => match fs_get (s_fs s) (qt ++ [base_of (h_link h)]) with
                                  | Some (NSym _ _ _) => true
                                  | _ => false
                                  end
                     | None => true
                     end
                  then IErr EUnsupported s
                  else match fs_get (s_fs s) loc with
                       | Some _ => IErr EOther s
                       | None => IOk (with_fs s (fs_set (s_fs s) loc (NFile sm md ow dt)), true)
                       end
              | _ => match fs_get (s_fs s) loc with
                     | Some _ => IErr EOther s
                     | None => IOk (with_fs s (fs_set (s_fs s) loc (NFile sm md ow dt)), true)
                     end
              end
          | _ => IErr EUnsupported s
          end
      | _ => IErr EOther s
      end
  end.

(* memfs openFile(name, O_CREATE|O_EXCL|O_WRONLY) once the last component is a
   symbolic link: the link is FOLLOWED (O_EXCL is not looked at) and the file is
   created where the chain ends *)
Inductive ores := OCreate (loc : path) | OErr | ODecline.
Fixpoint open_create (fuel : nat) (m : fsmap) (name : path) : ores :=
  match fuel with
  | O => OErr                                                   (* "too many links" *)
  | S f =>
      match clean_rel name with
      | [] => ODecline
      | _ =>
          match resolve_parent m name with
          | None => OErr
          | Some q =>
              let loc := q ++ [base_of name] in
              match fs_get m loc with
              | None => OCreate loc
              | Some (NSym _ _ lnk) => open_create f m (link_dest (parent name) lnk)
              | Some (NDir _) => OErr                          (* "is a directory" *)
              | Some _ => ODecline
              end
          end
      end
  end.

(* streaming: TypeReg. writeOneFile's Stat and Open FOLLOW a link at the name:
   the bytes compared are those of the file the name resolves to, the owner
   looked up is installedFiles[name], Remove deletes the entry of the name itself *)
Definition step_stream_reg_g (b : backend) (pkgs : list pkg) (i : nat) (me : pkg) (s : st) (h : hdr) : step_res :=
  let p := h_path h in
  let m := s_fs s in
  match gn m p with
  | NFound q =>
      match node_at m q with
      | Some (NFile gs _ _ _) =>
          let owner := match if_get (s_if s) p with Some j => Some (nth j pkgs no_pkg) | None => None end in
          match decide_stream owner me (N.eqb gs (h_sum h)) with
          | SDec KeepOld => IOk (s, true)
          | SDec Overwrite =>
              match resolve_parent m p with
              | Some qp => IOk (set_at s i h (qp ++ [base_of p]), true)
              | None => IErr EUnsupported s
              end
          | SDec Conflict => IErr (EConflict p) s
          | SErrExists | SErrNotOurs => IErr EOther s
          end
      | Some (NDir _) => IErr EOther s                         (* "is a directory" *)
      | _ => IErr EUnsupported s
      end
  | _ =>
      (* Stat failed: OpenFile(O_CREATE|O_EXCL) *)
      match resolve_parent m p with
      | None => IErr EOther s
      | Some qp =>
          let loc := qp ++ [base_of p] in
          match fs_get m loc with
          | None => IOk (set_at s i h loc, true)
          | Some (NSym _ _ lnk) =>
              if match b with StreamDir => is_abs_target lnk | _ => false end then IErr EUnsupported s else
              match open_create max_links m (link_dest (parent p) lnk) with
              | OCreate loc' =>
                  match b with
                  | StreamDir =>
                      (* the overlay has created the file, open(2) with O_EXCL then
                         fails on the dangling link: an entry that cannot be read stays *)
                      IErr EOther (with_fs s (fs_set m loc' NOther))
                  | _ => IOk (set_at s i h loc', true)        (* written THROUGH the link *)
                  end
              | OErr => IErr EOther s
              | ODecline => IErr EUnsupported s
              end
          | Some _ => IErr EUnsupported s
          end
      end
  end.

(* streaming: TypeSymlink *)
Definition step_stream_sym_g (i : nat) (s : st) (h : hdr) : step_res :=
  if same_link_g s h then IOk (s, false)
  else match resolve_parent (s_fs s) (h_path h) with
  | None => IErr EOther s
  | Some q =>
      let loc := q ++ [base_of (h_path h)] in
      match fs_get (s_fs s) loc with
      | None => IOk (set_at s i h loc, true)
      | Some _ => IErr EOther s
      end
  end.

Fixpoint has_abs_link (m : fsmap) : bool :=
  match m with
  | [] => false
  | (_, NSym _ _ lnk) :: m' => is_abs_target lnk || has_abs_link m'
  | _ :: m' => has_abs_link m'
  end.

Definition step_g (b : backend) (pkgs : list pkg) (i : nat) (me : pkg) (s : st) (h : hdr) : step_res :=
  if match b with StreamDir => has_abs_link (s_fs s) | _ => false end then IErr EUnsupported s else
  match h_kind h with
  | KDir => step_dir_g s h
  | KLink => step_link_g b s h
  | KReg => if is_lazy b then step_lazy_g pkgs i me s h else step_stream_reg_g b pkgs i me s h
  | KSym => if is_lazy b then step_lazy_g pkgs i me s h else step_stream_sym_g i s h
  end.

(* the model the correspondence runs: [step] where it answers, [step_g] where
   it declines *)
Definition step_l (b : backend) (pkgs : list pkg) (i : nat) (me : pkg) (s : st) (h : hdr) : step_res :=
  match step b pkgs i me s h with
  | IErr EUnsupported _ => step_g b pkgs i me s h
  | r => r
  end.

Fixpoint install_files_l (b : backend) (pkgs : list pkg) (i : nat) (me : pkg)
    (s : st) (acc : list hdr) (hs : list hdr) : ires (st * list hdr) :=
  match hs with
  | [] => IOk (s, acc)
  | h :: more =>
      match step_l b pkgs i me s h with
      | IErr e s' => IErr e s'
      | IOk (s', app) => install_files_l b pkgs i me s' (if app then acc ++ [h] else acc) more
      end
  end.

Fixpoint install_all_l (b : backend) (pkgs : list pkg) (i : nat) (s : st)
    (done : list (list hdr)) (todo : list pkg) : ires (st * list (list hdr)) :=
  match todo with
  | [] => IOk (s, done)
  | me :: more =>
      match install_files_l b pkgs i me s [] (p_files me) with
      | IErr e s' => IErr e s'
      | IOk (s', files) => install_all_l b pkgs (S i) s' (done ++ [files]) more
      end
  end.

Definition install_l (b : backend) (pkgs : list pkg) (init : fsmap) : result :=
  match install_all_l b pkgs 0 {| s_fs := init; s_if := [] |} [] pkgs with
  | IErr e s => RFail e s
  | IOk (s, all) => RDone {| f_fs := s_fs s; f_if := s_if s; f_files := all; f_db := db_from (s_if s) 0 all |}
  end.

(* what the layer will say about a node's owner: nothing on either install path
   ever copies a header's uid/gid into the tree *)
Definition node_uid (n : node) : N := 0.
Definition node_gid (n : node) : N := 0.
