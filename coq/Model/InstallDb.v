(* C07 — the database writer when one package ships a path more than once.

   Model/Install.v's [db_entries] says which headers sortTarHeaders hands to the
   writer when every path occurs once in the package's list. The function
   itself (pkg/apk/apk/installed.go) builds two maps keyed by the CLEANED name:
       all[name]              = the header              (a later one overwrites)
       directoryChildren[dir] = names below dir, one per header, in list order
   and walks down from the top-level names that have children. So for a name
   that occurs several times in the list:
     - the header written is always the LAST one of that name;
     - it is written once per occurrence of the name, times the number of times
       its parent directory is expanded (a directory listed twice is expanded
       twice: finding C16-F7); a top-level name is written once however often it
       occurs (the top level comes from the KEYS of directoryChildren);
     - what is below a name whose last header is not a directory is not written.
   xattrs and timestamps of the headers are not written at all (the text has
   F:/M:/R:/a:/Z: lines only), so the model has no fields for them: whatever
   SetXattr/Chtimes do to the tree, the database says nothing about it. *)
From Apko Require Import Base.Prelude Model.Install.
Open Scope string_scope. Open Scope list_scope.

Definition has_hdr (pr : list hdr) (q : path) : bool := existsb (fun h => path_eqb (h_path h) q) pr.
Definition count_path (pr : list hdr) (q : path) : nat :=
  List.length (filter (fun h => path_eqb (h_path h) q) pr).
(* all[q] *)
Definition last_at (pr : list hdr) (q : path) : option hdr :=
  find (fun h => path_eqb (h_path h) q) (rev pr).
(* q is a key of directoryChildren *)
Definition has_child (pr : list hdr) (q : path) : bool :=
  existsb (fun c => path_eqb (parent (h_path c)) q && negb (path_eqb (h_path c) q)) pr.

(* how often the children of [cur] are written when [cur] itself is written [e] times *)
Definition expands (pr : list hdr) (cur : path) (e : nat) : nat :=
  match last_at pr cur with
  | Some h => if kind_eqb (h_kind h) KDir then e else 0
  | None => 0
  end.
Fixpoint emis_from (pr : list hdr) (e : nat) (cur : path) (rest : list path) : nat :=
  match rest with
  | [] => e
  | q :: more => emis_from pr (count_path pr q * expands pr cur e) q more
  end.
(* how often the header of [p] is written *)
Definition emissions (pr : list hdr) (p : path) : nat :=
  match prefixes p with
  | [] => 0
  | q1 :: more => emis_from pr (if has_child pr q1 then 1 else 0) q1 more
  end.

Fixpoint dedup (l : list path) : list path :=
  match l with
  | [] => []
  | x :: r => if existsb (path_eqb x) r then dedup r else x :: dedup r
  end.

Definition db_entries_d (ifs : ifmap) (i : nat) (files : list hdr) : list hdr :=
  let pr := prune ifs i files in
  flat_map (fun q => match last_at pr q with
                     | Some h => repeat h (emissions pr q)
                     | None => []
                     end) (dedup (List.map h_path pr)).

Fixpoint db_from_d (ifs : ifmap) (i : nat) (all : list (list hdr)) : list (list hdr) :=
  match all with
  | [] => []
  | f :: more => db_entries_d ifs i f :: db_from_d ifs (S i) more
  end.

(* the database of a finished install, with the writer above *)
Definition db_of (f : final) : list (list hdr) := db_from_d (f_if f) 0 (f_files f).
