(* C07 — hard links: names and nodes.

   Model/Install.v keeps a flat map from paths to nodes, and a hard link is a
   COPY of the target's node. That is faithful only as long as no step changes a
   node in place: in the three filesystems a hard link is a second NAME for the
   same node (tarfs link(): children[base] = target; memfs the same; the
   directory backend: link(2)), so re-pointing a node in place would change the
   content under every name of it (wave-2 seeded change C07-4 did that in
   tarfs.writeHeader).

   This file transcribes the same install steps over names and a node heap:
     [alloc]  a NEW node under a name   (writeHeader: anode := &node{...};
              parent.children[base] = anode — also where the name existed;
              streaming: Remove + OpenFile(O_CREATE|O_EXCL))
     [bind]   a second name for a node  (link)
     [mutate] re-pointing the existing node in place — what the code does NOT do;
              kept so that the theorems can say what would happen if it did.
   Reads go through [view]: the flat map a reader of the tree sees (each name
   with the node it is bound to); the decisions are those of Model/Install.v,
   taken on that view. Proofs/InstallInodeProofs.v shows that with fresh nodes
   the view of every step is the step of the flat model (so the copy semantics
   is exact), that no step changes a node in place, and that only the header's
   own name is re-bound. [fresh_lazy] is the switch goextract reads off
   tarfs.writeHeader (Generated/C07Install.v: c07_lazy_replace_allocates). *)
From Apko Require Import Base.Prelude Model.Install.
Open Scope string_scope. Open Scope list_scope.

Definition names := list (path * nat).
Fixpoint nm_get (m : names) (p : path) : option nat :=
  match m with
  | [] => None
  | (q, id) :: m' => if path_eqb q p then Some id else nm_get m' p
  end.
Fixpoint nm_set (m : names) (p : path) (id : nat) : names :=
  match m with
  | [] => [(p, id)]
  | (q, x) :: m' => if path_eqb q p then (q, id) :: m' else (q, x) :: nm_set m' p id
  end.

Record ist := { i_names : names; i_heap : list node; i_if : ifmap }.

Definition heap_get (hp : list node) (id : nat) : node := nth id hp NOther.
Fixpoint heap_set (hp : list node) (id : nat) (n : node) : list node :=
  match hp, id with
  | [], _ => []
  | _ :: r, O => n :: r
  | x :: r, S k => x :: heap_set r k n
  end.

(* what a reader of the tree sees *)
Definition view_fs (x : ist) : fsmap :=
  List.map (fun e => (fst e, heap_get (i_heap x) (snd e))) (i_names x).
Definition view (x : ist) : st := {| s_fs := view_fs x; s_if := i_if x |}.

(* ---- the three ways of writing ------------------------------------------- *)
Definition alloc (x : ist) (p : path) (n : node) : ist :=
  {| i_names := nm_set (i_names x) p (List.length (i_heap x)); i_heap := i_heap x ++ [n]; i_if := i_if x |}.
Definition bind (x : ist) (p : path) (id : nat) : ist :=
  {| i_names := nm_set (i_names x) p id; i_heap := i_heap x; i_if := i_if x |}.
Definition mutate (x : ist) (p : path) (n : node) : ist :=
  match nm_get (i_names x) p with
  | Some id => {| i_names := i_names x; i_heap := heap_set (i_heap x) id n; i_if := i_if x |}
  | None => alloc x p n
  end.
Definition replace_node (fresh : bool) (x : ist) (p : path) (n : node) : ist :=
  if fresh then alloc x p n else mutate x p n.

Definition with_if (x : ist) (m : ifmap) : ist := {| i_names := i_names x; i_heap := i_heap x; i_if := m |}.

Definition set_file_i (fresh : bool) (x : ist) (i : nat) (h : hdr) : ist :=
  with_if (replace_node fresh x (h_path h) (file_node i h))
          (match h_kind h with KReg => if_set (i_if x) (h_path h) i | _ => i_if x end).

(* ---- the steps ------------------------------------------------------------- *)
Inductive ir (A : Type) := ROk (a : A) | RErr (e : ierr) (x : ist).
Arguments ROk {A} a. Arguments RErr {A} e x.
Definition step_res_i := ir (ist * bool).

Fixpoint mkdir_all_i (x : ist) (ps : list path) (perm : N) : ist * option ierr :=
  match ps with
  | [] => (x, None)
  | q :: more =>
      match fs_get (view_fs x) q with
      | None => mkdir_all_i (alloc x q (NDir perm)) more perm
      | Some (NDir _) => mkdir_all_i x more perm
      | Some (NSym _ _ _) => (x, Some EUnsupported)
      | Some _ => (x, Some EOther)
      end
  end.

Definition need_dir_i (x : ist) (d : path) (k : unit -> step_res_i) : step_res_i :=
  match dir_state (view_fs x) d with
  | PDir => k tt
  | PSymlinked => RErr EUnsupported x
  | _ => RErr EOther x
  end.

Definition step_dir_i (x : ist) (h : hdr) : step_res_i :=
  match mkdir_all_i x (prefixes (h_path h)) (perm_of (h_mode h)) with
  | (y, None) => ROk (y, true)
  | (y, Some e) => RErr e y
  end.

(* Link(old, new): the new name is bound to the NODE of the old one *)
Definition step_link_i (x : ist) (h : hdr) : step_res_i :=
  need_dir_i x (parent (h_path h)) (fun _ =>
  match dir_state (view_fs x) (parent (h_link h)) with
  | PSymlinked => RErr EUnsupported x
  | PDir =>
      match nm_get (i_names x) (h_link h) with
      | None => RErr EOther x
      | Some id =>
          match heap_get (i_heap x) id with
          | NFile _ _ _ _ =>
              match nm_get (i_names x) (h_path h) with
              | Some _ => RErr EOther x
              | None => ROk (bind x (h_path h) id, true)
              end
          | _ => RErr EUnsupported x
          end
      end
  | _ => RErr EOther x
  end).

Definition step_lazy_file_i (fresh : bool) (pkgs : list pkg) (i : nat) (me : pkg) (x : ist) (h : hdr) : step_res_i :=
  let p := h_path h in
  let fs := view_fs x in
  let same_link :=
    match h_kind h, dir_state fs (parent p), fs_get fs p with
    | KSym, PDir, Some (NSym t _ _) => N.eqb t (h_sum h)
    | _, _, _ => false
    end in
  if same_link then ROk (x, true)
  else need_dir_i x (parent p) (fun _ =>
    let decide j gs :=
      match decide_lazy (nth j pkgs no_pkg) me gs (h_sum h) with
      | KeepOld => ROk (x, true)
      | Overwrite => ROk (set_file_i fresh x i h, true)
      | Conflict => RErr (EConflict p) x
      end in
    match fs_get fs p with
    | None => ROk (set_file_i fresh x i h, true)
    | Some (NFile gs _ (Some j) _) => decide j gs
    | Some (NSym gs (Some j) _) => decide j gs
    | Some (NFile gs _ None true) => if N.eqb gs (h_sum h) then ROk (x, true) else RErr EOther x
    | Some _ => RErr EOther x
    end).

(* streaming: Remove(name) unbinds the name, OpenFile(O_CREATE|O_EXCL) makes a
   new node: always [alloc] (Properties/C07.v: c07_model_constants_are_source) *)
Definition step_stream_reg_i (pkgs : list pkg) (i : nat) (me : pkg) (x : ist) (h : hdr) : step_res_i :=
  let p := h_path h in
  match dir_state (view_fs x) (parent p) with
  | PSymlinked => RErr EUnsupported x
  | PDir =>
      match fs_get (view_fs x) p with
      | None => ROk (set_file_i true x i h, true)
      | Some (NFile gs _ _ _) =>
          let owner := match if_get (i_if x) p with Some j => Some (nth j pkgs no_pkg) | None => None end in
          match decide_stream owner me (N.eqb gs (h_sum h)) with
          | SDec KeepOld => ROk (x, true)
          | SDec Overwrite => ROk (set_file_i true x i h, true)
          | SDec Conflict => RErr (EConflict p) x
          | SErrExists | SErrNotOurs => RErr EOther x
          end
      | Some (NDir _) => RErr EOther x
      | Some _ => RErr EUnsupported x
      end
  | _ => RErr EOther x
  end.

Definition step_stream_sym_i (i : nat) (x : ist) (h : hdr) : step_res_i :=
  let p := h_path h in
  need_dir_i x (parent p) (fun _ =>
    match fs_get (view_fs x) p with
    | None => ROk (set_file_i true x i h, true)
    | Some (NSym t _ _) => if N.eqb t (h_sum h) then ROk (x, false) else RErr EOther x
    | Some _ => RErr EOther x
    end).

Definition step_i (fresh_lazy : bool) (b : backend) (pkgs : list pkg) (i : nat) (me : pkg) (x : ist) (h : hdr) : step_res_i :=
  match h_kind h with
  | KDir => step_dir_i x h
  | KLink => step_link_i x h
  | KReg => if is_lazy b then step_lazy_file_i fresh_lazy pkgs i me x h else step_stream_reg_i pkgs i me x h
  | KSym => if is_lazy b then step_lazy_file_i fresh_lazy pkgs i me x h else step_stream_sym_i i x h
  end.

Fixpoint install_files_i (fresh_lazy : bool) (b : backend) (pkgs : list pkg) (i : nat) (me : pkg)
    (x : ist) (acc : list hdr) (hs : list hdr) : ir (ist * list hdr) :=
  match hs with
  | [] => ROk (x, acc)
  | h :: more =>
      match step_i fresh_lazy b pkgs i me x h with
      | RErr e y => RErr e y
      | ROk (y, app) => install_files_i fresh_lazy b pkgs i me y (if app then acc ++ [h] else acc) more
      end
  end.

Fixpoint install_all_i (fresh_lazy : bool) (b : backend) (pkgs : list pkg) (i : nat) (x : ist)
    (done : list (list hdr)) (todo : list pkg) : ir (ist * list (list hdr)) :=
  match todo with
  | [] => ROk (x, done)
  | me :: more =>
      match install_files_i fresh_lazy b pkgs i me x [] (p_files me) with
      | RErr e y => RErr e y
      | ROk (y, files) => install_all_i fresh_lazy b pkgs (S i) y (done ++ [files]) more
      end
  end.

(* every path of the initial tree has a node of its own *)
Definition ist_of (m : fsmap) : ist :=
  {| i_names := combine (List.map fst m) (seq 0 (List.length m)); i_heap := List.map snd m; i_if := [] |}.

Definition install_i (fresh_lazy : bool) (b : backend) (pkgs : list pkg) (init : fsmap) : result :=
  match install_all_i fresh_lazy b pkgs 0 (ist_of init) [] pkgs with
  | RErr e y => RFail e (view y)
  | ROk (y, all) => RDone {| f_fs := view_fs y; f_if := i_if y; f_files := all; f_db := db_from (i_if y) 0 all |}
  end.
