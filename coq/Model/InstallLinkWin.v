(* C07 — which package's symbolic link the lazy backend ends up with when the
   packages disagree on the target: every header of path p, in install order,
   meets the link in place through tarfs.writeHeader's decision ([decide_lazy]:
   same target -> the first stays; the one in place declares it replaces the
   newcomer -> stays; the newcomer replaces it or is of the same origin (two
   empty origins included, C07-F3) -> the newcomer wins). A Conflict is the
   error of the install and never reaches a final tree.
   Proofs/InstallLinkWinProofs.v: the final tree of the model holds exactly this
   link; Corr/C07.v compares it with the tree the real code leaves. *)
From Apko Require Import Base.Prelude Model.Install.
Open Scope string_scope. Open Scope list_scope.

Definition win_step (pkgs : list pkg) (w : option (nat * hdr)) (k : nat) (h : hdr) : option (nat * hdr) :=
  match w with
  | None => Some (k, h)
  | Some (k', h') =>
      if N.eqb (h_sum h') (h_sum h) then w
      else match decide_lazy (nth k' pkgs no_pkg) (nth k pkgs no_pkg) (h_sum h') (h_sum h) with
           | Overwrite => Some (k, h)
           | _ => w
           end
  end.
Fixpoint win_files (pkgs : list pkg) (p : path) (k : nat) (hs : list hdr) (w : option (nat * hdr)) : option (nat * hdr) :=
  match hs with
  | [] => w
  | h :: more => win_files pkgs p k more (if path_eqb (h_path h) p then win_step pkgs w k h else w)
  end.
Fixpoint win_pkgs (pkgs : list pkg) (p : path) (k : nat) (todo : list pkg) (w : option (nat * hdr)) : option (nat * hdr) :=
  match todo with
  | [] => w
  | me :: more => win_pkgs pkgs p (S k) more (win_files pkgs p k (p_files me) w)
  end.
Definition sym_winner (pkgs : list pkg) (p : path) : option (nat * hdr) := win_pkgs pkgs p 0 pkgs None.

