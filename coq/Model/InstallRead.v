(* C07 — what a reader of the lazy backend sees.

   tarfs does not copy a package's bytes into the tree: a node written from a tar
   entry keeps the entry's header and the package's archive, and when the node is
   read (pkg/tarfs/fs.go:openFile, header.Size != 0) the bytes are fetched with
       anode.te.tfs.Open(anode.te.header.Name)
   i.e. by the entry's NAME from the package's own index
   (pkg/apk/internal/tarfs/tarfs.go:New: index[hdr.Name] = len(files), a later
   entry of a name overwrites; open() follows link entries inside the archive,
   path.Join(dir of the entry, Linkname), up to maxHops).
   As long as a package ships every name once this is the entry the node was
   written from. When a package ships a name twice, a node written from the
   EARLIER entry reads the LATER entry's bytes wherever it survives: under a hard
   link's name, in the tree an aborted install leaves behind, or when the later
   copy was not installed (finding C07-F17).

   [lazy_view] applies this to a tree of Model/Install.v: every node that names a
   package and is not empty shows the bytes of the last non-directory header of
   its entry name in that package ([NOther] = cannot be read). The entry name of
   a node is the path it was written at; under a hard link's name it is the entry
   name of the link's target. Directory headers never collide with these names
   (their names end in "/"). *)
From Apko Require Import Base.Prelude Model.Install.
Open Scope string_scope. Open Scope list_scope.

Definition tar_max_hops : nat := 64.

(* all[name] of the package index, directory entries aside *)
Definition last_entry (files : list hdr) (name : path) : option hdr :=
  find (fun h => path_eqb (h_path h) name && negb (kind_eqb (h_kind h) KDir)) (rev files).

(* fsys.open(name, hops): the content id, None = error *)
Fixpoint tar_open (fuel : nat) (files : list hdr) (name : path) : option N :=
  match fuel with
  | O => None
  | S f =>
      match last_entry files name with
      | None => None
      | Some h =>
          match h_kind h with
          | KReg => Some (h_sum h)
          | KSym => if is_abs_target (h_link h) then None
                    else tar_open f files (clean_rel (parent name ++ h_link h))
          | KLink => tar_open f files (clean_rel (parent name ++ h_link h))
          | KDir => None
          end
      end
  end.

Definition ships_reg (pk : pkg) (q : path) (sm : N) : bool :=
  existsb (fun h => path_eqb (h_path h) q && kind_eqb (h_kind h) KReg && N.eqb (h_sum h) sm) (p_files pk).
Definition link_hdr_at (pkgs : list pkg) (q : path) : option hdr :=
  find (fun h => path_eqb (h_path h) q && kind_eqb (h_kind h) KLink) (flat_map p_files pkgs).

(* te.header.Name of the node found at [q] that names package [k] and has content [sm] *)
Fixpoint entry_name (fuel : nat) (pkgs : list pkg) (k : nat) (sm : N) (q : path) : path :=
  match fuel with
  | O => q
  | S f =>
      if ships_reg (nth k pkgs no_pkg) q sm then q
      else match link_hdr_at pkgs q with
           | Some l => entry_name f pkgs k sm (h_link l)
           | None =>
               (* written through a symbolic link in directory position: the header's
                  literal name is another one; the package's header with these bytes *)
               match find (fun h => kind_eqb (h_kind h) KReg && N.eqb (h_sum h) sm) (p_files (nth k pkgs no_pkg)) with
               | Some h => h_path h
               | None => q
               end
           end
  end.

Definition lazy_node (pkgs : list pkg) (q : path) (n : node) : node :=
  match n with
  | NFile sm md (Some k) true =>
      if N.eqb sm 1 then n          (* header.Size == 0: nothing is fetched *)
      else match tar_open (S tar_max_hops) (p_files (nth k pkgs no_pkg)) (entry_name 8 pkgs k sm q) with
           | Some c => NFile c md (Some k) true
           | None => NOther
           end
  | _ => n
  end.

Definition lazy_view (pkgs : list pkg) (m : fsmap) : fsmap :=
  List.map (fun e => (fst e, lazy_node pkgs (fst e) (snd e))) m.

Definition reader_view (b : backend) (pkgs : list pkg) (m : fsmap) : fsmap :=
  if is_lazy b then lazy_view pkgs m else m.
