(* C10 — executable model of pkg/build/layers.go: groupByOriginAndSize / merge /
   replacesGroup and splitLayers / alignStacks.  No proofs in this file.

   Groups are Go pointers held in two maps (byOrigin, byPackage) that are kept
   in sync; with distinct package names (the installed set) the set of distinct
   groups reachable from the maps is a partition of the packages, which is what
   the model carries ([list grp]); "the group of package n" is the block that
   contains a package named n.  Go's four map iterations (byOrigin, byPackage,
   replaceMap, maps.Values(byOrigin)) are explicit order parameters.
   apk.ResolvePackageNameVersionPin and ParseVersion/SatisfiedBy are functions
   supplied from outside ([rep_name], [rep_sat]). *)
From Apko Require Import Base.Prelude Model.Tar.
Open Scope string_scope. Open Scope list_scope.

Record pkg := { p_name : string; p_version : string; p_origin : string;
                p_size : N; p_replaces : list string }.
Definition grp := list pkg.

Definition names_of (g : grp) : list string := map p_name g.
Definition has_name (n : string) (g : grp) : bool := existsb (fun p => String.eqb (p_name p) n) g.
Definition has_origin (o : string) (g : grp) : bool := existsb (fun p => String.eqb (p_origin p) o) g.

(* ---- byOrigin ------------------------------------------------------------ *)
Fixpoint add_by_origin (p : pkg) (gs : list grp) : list grp :=
  match gs with
  | [] => [[p]]
  | g :: r => if has_origin (p_origin p) g then (g ++ [p]) :: r else g :: add_by_origin p r
  end.
Definition by_origin (pkgs : list pkg) : list grp :=
  fold_left (fun gs p => add_by_origin p gs) pkgs [].

(* ---- merging by replaces ------------------------------------------------- *)
Fixpoint find_group (n : string) (gs : list grp) : option grp :=
  match gs with
  | [] => None
  | g :: r => if has_name n g then Some g else find_group n r
  end.
Fixpoint find_pkg (n : string) (g : grp) : option pkg :=
  match g with
  | [] => None
  | p :: r => if String.eqb (p_name p) n then Some p else find_pkg n r
  end.
(* drop the blocks that contain a package named n *)
Definition remove_group (n : string) (gs : list grp) : list grp :=
  filter (fun g => negb (has_name n g)) gs.

Section Group.
  Variable rep_name : string -> string.          (* ResolvePackageNameVersionPin(rep).Name *)
  Variable rep_sat : string -> pkg -> res bool.  (* ParseVersion(pkg.Version); constraint.SatisfiedBy *)

  (* one `rep` of package [pn]: replacesGroup runs BEFORE the identity test *)
  Definition merge_one (pn : string) (acc : res (list grp)) (rep : string) : res (list grp) :=
    do gs <- acc;
    let tn := rep_name rep in
    match find_group tn gs with
    | None => Ok gs
    | Some replacee =>
        match find_pkg tn replacee with
        | None => Ok gs
        | Some q =>
            do ok <- rep_sat rep q;
            if negb ok then Ok gs
            else match find_group pn gs with
                 | None => Panic                        (* byPackage[pkg] missing *)
                 | Some g =>
                     if has_name pn replacee then Ok gs (* already merged *)
                     else Ok ((g ++ replacee) :: remove_group tn (remove_group pn gs))
                 end
        end
    end.

  Definition merge_pkg (acc : res (list grp)) (pr : string * list string) : res (list grp) :=
    fold_left (merge_one (fst pr)) (snd pr) acc.

  (* replaceMap: packages with a non-empty Replaces *)
  Definition replace_map (pkgs : list pkg) : list (string * list string) :=
    map (fun p => (p_name p, p_replaces p))
        (filter (fun p => match p_replaces p with [] => false | _ => true end) pkgs).

  Definition merge_all (ord3 : list (string * list string)) (gs : list grp) : res (list grp) :=
    fold_left merge_pkg ord3 (Ok gs).

  (* ---- size / tiebreaker / sort / budget ---------------------------------- *)
  Definition str_max (a b : string) : string :=
    match String.compare a b with Lt => b | _ => a end.
  (* group.size is a uint64 and `g.size += pkg.InstalledSize` wraps silently:
     every addition is taken modulo 2^64 (InstalledSize itself is a uint64; the
     harness only produces sizes below 2^64) *)
  Definition u64_mod : N := 18446744073709551616%N.
  Definition wrap64 (n : N) : N := (n mod u64_mod)%N.
  Definition g_size (g : grp) : N := fold_left (fun s p => wrap64 (s + p_size p)) g 0%N.
  Definition g_tie (g : grp) : string := fold_left (fun s p => str_max s (p_name p)) g "".

  (* cmp.Or(cmp.Compare(b.size, a.size), cmp.Compare(a.tiebreaker, b.tiebreaker)) <= 0 *)
  Definition grp_leb (a b : grp) : bool :=
    match N.compare (g_size b) (g_size a) with
    | Lt => true
    | Gt => false
    | Eq => match String.compare (g_tie a) (g_tie b) with Gt => false | _ => true end
    end.
  Fixpoint insert_grp (x : grp) (l : list grp) : list grp :=
    match l with
    | [] => [x]
    | y :: r => if grp_leb x y then x :: l else y :: insert_grp x r
    end.
  Fixpoint sort_grps (l : list grp) : list grp :=
    match l with [] => [] | x :: r => insert_grp x (sort_grps r) end.

  Definition pkg_leb (a b : pkg) : bool :=
    match String.compare (p_name a) (p_name b) with Gt => false | _ => true end.
  Fixpoint insert_pkg (x : pkg) (l : grp) : grp :=
    match l with
    | [] => [x]
    | y :: r => if pkg_leb x y then x :: l else y :: insert_pkg x r
    end.
  Fixpoint sort_pkgs (l : grp) : grp :=
    match l with [] => [] | x :: r => insert_pkg x (sort_pkgs r) end.

  Definition cut_budget (budget : Z) (gs : list grp) : list grp :=
    if (Z.of_nat (List.length gs) >? budget)%Z then
      let cutoff := Z.to_nat (Z.max (budget - 1) 0) in
      firstn cutoff gs ++ [List.concat (skipn cutoff gs)]
    else gs.

  (* The slice of groups is sized by len(byOrigin) (fix d47e591: it used to be
     make([]*group, 0, budget), which panicked for a negative or huge budget).
     A negative budget therefore takes the cut-off branch with cutoff 0 and
     yields ONE merged group (buildLayers rejects it before getting here).
     ord3 : iteration order of replaceMap; ord4 : of maps.Values(byOrigin).
     (The iterations over byOrigin and byPackage that build byPackage and
     replaceMap only fill maps keyed by distinct names.) *)
  Definition group_with (ord3 : list (string * list string) -> list (string * list string))
      (ord4 : list grp -> list grp) (pkgs : list pkg) (budget : Z) : res (list grp) :=
    do merged <- merge_all (ord3 (replace_map pkgs)) (by_origin pkgs);
    Ok (map sort_pkgs (cut_budget budget (sort_grps (ord4 merged)))).

  Definition group (pkgs : list pkg) (budget : Z) : res (list grp) :=
    group_with (fun x => x) (fun x => x) pkgs budget.
End Group.

(* ---- splitLayers ------------------------------------------------------------ *)
Definition parent (p : path) : path := removelast p.

(* the pop loop: from the top, drop until an element whose path is [p] *)
Fixpoint pop_to (p : path) (rev_stack : list entry) : list entry :=
  match rev_stack with
  | [] => []
  | e :: r => if path_eqb (e_path e) p then rev_stack else pop_to p r
  end.
Definition push_dir (stack : list entry) (f : entry) : list entry :=
  rev (pop_to (parent (e_path f)) (rev stack)) ++ [f].

(* alignStacks: afterwards the layer's stack equals the main stack; returned are
   the elements of the main stack after the common prefix *)
Fixpoint align (main lstack : list entry) : list entry :=
  match main, lstack with
  | m :: mr, l :: lr => if path_eqb (e_path m) (e_path l) then align mr lr else main
  | _, _ => main
  end.

Definition with_mtime (d f : entry) : entry :=
  {| e_path := e_path d; e_kind := e_kind d; e_mode := e_mode d; e_uid := e_uid d; e_gid := e_gid d;
     e_uname := e_uname d; e_gname := e_gname d; e_link := e_link d; e_devmaj := e_devmaj d;
     e_devmin := e_devmin d; e_xattrs := e_xattrs d; e_mtime := e_mtime f; e_mnsec := e_mnsec f;
     e_cid := e_cid d; e_size := e_size d |}.

Record lstate := { s_main : list entry; s_stacks : list (list entry); s_outs : list (list entry) }.

(* packageToWriter: groups are visited in order, a later group overwrites *)
Fixpoint writer_of (n : string) (gs : list (list string)) (i : nat) (found : option nat) : option nat :=
  match gs with
  | [] => found
  | g :: r => writer_of n r (S i) (if existsb (String.eqb n) g then Some i else found)
  end.

Fixpoint upd {A} (i : nat) (f : A -> A) (l : list A) : list A :=
  match l, i with
  | [], _ => []
  | x :: r, O => f x :: r
  | x :: r, S j => x :: upd j f r
  end.

Definition is_dir (e : entry) : bool := match e_kind e with KDir => true | _ => false end.

Definition split_step (gs : list (list string)) (own : path -> option string)
    (acc : res lstate) (f : entry) : res lstate :=
  do st <- acc;
  let main := if is_dir f then push_dir (s_main st) f else s_main st in
  do w <- match own (e_path f) with
          | None => Ok (List.length gs)                 (* the top layer *)
          | Some n => match writer_of n gs 0 None with
                      | Some i => Ok i
                      | None => Panic                   (* packageToWriter[...] missing *)
                      end
          end;
  let todo := align main (nth w (s_stacks st) []) in
  let extra := map (fun d => with_mtime d f) (filter (fun d => negb (path_eqb (e_path d) (e_path f))) todo) in
  Ok {| s_main := main;
        s_stacks := upd w (fun _ => main) (s_stacks st);
        s_outs := upd w (fun o => o ++ extra ++ [f]) (s_outs st) |}.

Definition split_layers (gs : list (list string)) (own : path -> option string) (es : list entry)
  : res (list (list entry)) :=
  do st <- fold_left (split_step gs own) es
             (Ok {| s_main := []; s_stacks := repeat [] (S (List.length gs));
                    s_outs := repeat [] (S (List.length gs)) |});
  Ok (s_outs st).

(* applying the layers in order with the reference extractor *)
Definition apply_layers (layers : list (list entry)) : res forest := extract (List.concat layers).
