(* C09 — executable model of the lock path. No proofs here.
     pkg/build/lock.go              LockImageConfiguration (construction of the
                                    per-architecture `resolved` values), unify
     internal/cli/lock.go           LockCmd: one lock.json package entry
     pkg/apk/apk/resolveapk.go      NewAPKResolved
     pkg/build/installable_from_lock.go  installablePackagesForArch
     pkg/build/build_implementation.go   buildImage, Lockfile branch
     pkg/apk/apk/version.go         filterPackages, as reached from a lock entry
   Go sets (sets.Set[string]) are duplicate-free lists, Go maps are association
   lists with unique keys; every place where Go iterates over a set or a map
   takes an explicit order function. Constants, format strings, the regular
   expression and the range arithmetic come from Generated/C09Lock.v. *)
From Apko Require Import Base.Prelude Base.Regex Base.C12Lib Model.Version
  Generated.VersionConsts Generated.C09Lock.
From Coq Require Import DecimalString.
Open Scope string_scope. Open Scope list_scope.

(* ---- sets.Set[string] ------------------------------------------------------ *)
Definition smem (x : string) (s : list string) : bool := existsb (String.eqb x) s.
Definition sins (x : string) (s : list string) : list string := if smem x s then s else s ++ [x].
Definition sdiff (a b : list string) : list string := filter (fun x => negb (smem x b)) a.
Definition sinter (a b : list string) : list string := filter (fun x => smem x b) a.
Definition sdel (x : string) (s : list string) : list string := filter (fun y => negb (String.eqb x y)) s.
(* s1.Equal(s2): len(s1) == len(s2) && s1.IsSuperset(s2) *)
Definition sequal (a b : list string) : bool :=
  Nat.eqb (List.length a) (List.length b) && forallb (fun x => smem x a) b.
(* s.HasAny(xs...) *)
Definition shas_any (s xs : list string) : bool := existsb (fun x => smem x s) xs.
Definition sset_of (l : list string) : list string := fold_left (fun s x => sins x s) l [].

(* ---- Go maps --------------------------------------------------------------- *)
Fixpoint mset {V} (k : string) (v : V) (m : list (string * V)) : list (string * V) :=
  match m with
  | [] => [(k, v)]
  | (k', v') :: m' => if String.eqb k k' then (k, v) :: m' else (k', v') :: mset k v m'
  end.
Definition mdel {V} (k : string) (m : list (string * V)) : list (string * V) :=
  filter (fun kv => negb (String.eqb k (fst kv))) m.
(* m[k] on map[string]string / map[string]sets.Set: the zero value when absent *)
Definition vget (k : string) (m : list (string * string)) : string :=
  match alookup k m with Some v => v | None => "" end.
Definition pget (k : string) (m : list (string * list string)) : list string :=
  match alookup k m with Some v => v | None => [] end.

(* fmt.Sprintf restricted to the verbs %s / %d (arguments pre-rendered) and %% *)
Fixpoint fmt_s (f : string) (args : list string) : string :=
  match f with
  | String "%" (String c f') =>
      if (Ascii.eqb c "s" || Ascii.eqb c "d")%bool then
        match args with
        | a :: args' => a ++ fmt_s f' args'
        | [] => "%!" ++ String c "(MISSING)" ++ fmt_s f' []
        end
      else if Ascii.eqb c "%" then String "%" (fmt_s f' args)
      else String "%" (String c (fmt_s f' args))
  | String c f' => String c (fmt_s f' args)
  | EmptyString => EmptyString
  end.

Definition sort_strings (l : list string) : list string := isort (fun x => x) l.

(* ---- string cutting -------------------------------------------------------- *)
(* idx := strings.IndexAny(s, chars); (s[:idx], s[idx:]) *)
Fixpoint cut_any (chars : string) (s : string) : option (string * string) :=
  match s with
  | EmptyString => None
  | String c s' =>
      if has_char c chars then Some (EmptyString, s)
      else match cut_any chars s' with
           | Some (a, b) => Some (String c a, b)
           | None => None
           end
  end.
Fixpoint has_suffix (s suf : string) : bool :=
  if String.eqb s suf then true
  else match s with EmptyString => false | String _ s' => has_suffix s' suf end.
(* strings.TrimSuffix *)
Fixpoint trim_suffix (s suf : string) : string :=
  if String.eqb s suf then EmptyString
  else match s with
       | EmptyString => EmptyString
       | String c s' => if has_suffix s' suf then String c (trim_suffix s' suf) else s
       end.

(* ---- LockImageConfiguration: one architecture's resolution as `resolved` --- *)
Record rpkg := { p_name : string; p_version : string; p_provides : list string }.
Record resolved := {
  r_arch : string;
  r_packages : list string;
  r_versions : list (string * string);
  r_provided : list (string * list string)
}.

(* parts := packageNameRegex.FindAllStringSubmatch(prov, -1); parts[0][1] *)
Definition provided_name (prov : string) : option string :=
  if full_match lock_package_name_regex prov
  then Some (string_of_bytes (fst (span is_namechar (bytes_of_string prov))))
  else None.

Definition add_pkg (r : resolved) (p : rpkg) : resolved :=
  {| r_arch := r_arch r;
     r_packages := sins (p_name p) (r_packages r);
     r_versions := mset (p_name p) (p_version p) (r_versions r);
     r_provided :=
       fold_left (fun m prov =>
                    match provided_name prov with
                    | None => m
                    | Some n => mset (p_name p) (sins n (pget (p_name p) m)) m
                    end) (p_provides p) (r_provided r) |}.
Definition resolved_of (arch : string) (pkgs : list rpkg) : resolved :=
  fold_left add_pkg pkgs {| r_arch := arch; r_packages := []; r_versions := []; r_provided := [] |}.

(* ---- unify: the original constraints --------------------------------------- *)
Record origs := { o_packages : list string; o_versions : list (string * string); o_pinned : list (string * string) }.

Definition parse_original (orig : string) : string * string * string :=
  let '(name, version) :=
    match cut_any unify_constraint_delims orig with Some (a, b) => (a, b) | None => (orig, "") end in
  let pinned := match cut_any unify_pin_delims orig with Some (_, b) => b | None => "" end in
  (trim_suffix name pinned, trim_suffix version pinned, pinned).

Definition add_original (o : origs) (orig : string) : origs :=
  let '(name, version, pinned) := parse_original orig in
  {| o_packages := sins name (o_packages o);
     o_versions := mset name version (o_versions o);
     o_pinned := mset name pinned (o_pinned o) |}.
Definition parse_originals (l : list string) : origs :=
  fold_left add_original l {| o_packages := []; o_versions := []; o_pinned := [] |}.

(* ---- unify: the accumulator -------------------------------------------------
   acc.provided only ever receives keys that are package names of inputs[0], so
   it is kept as one slot per such name (None = key absent): writes to different
   keys then commute as lists. *)
Record acc := {
  a_packages : list string;
  a_versions : list (string * string);
  a_slots : list (string * option (list string))
}.
Definition sget (k : string) (sl : list (string * option (list string))) : option (list string) :=
  match alookup k sl with Some o => o | None => None end.
Definition supd (k : string) (o : option (list string)) (sl : list (string * option (list string))) :=
  List.map (fun kv => if String.eqb k (fst kv) then (fst kv, o) else kv) sl.
Definition present (sl : list (string * option (list string))) : list (string * list string) :=
  flat_map (fun kv => match snd kv with Some s => [(fst kv, s)] | None => [] end) sl.

Definition init_acc (r0 : resolved) : acc :=
  {| a_packages := r_packages r0;
     a_versions := r_versions r0;
     a_slots := List.map (fun k => (k, alookup k (r_provided r0)))
                  (nodup string_dec (r_packages r0 ++ akeys (r_provided r0))) |}.

(* reflect.DeepEqual on map[string]string and on map[string]sets.Set[string]
   (both sides non-nil, unique keys; set values are never nil here) *)
Definition vmap_eq (a b : list (string * string)) : bool :=
  Nat.eqb (List.length a) (List.length b) &&
  forallb (fun kv => match alookup (fst kv) b with Some v => String.eqb (snd kv) v | None => false end) a.
Definition pmap_eq (a b : list (string * list string)) : bool :=
  Nat.eqb (List.length a) (List.length b) &&
  forallb (fun kv => match alookup (fst kv) b with Some v => sequal (snd kv) v | None => false end) a.

(* the body of `for _, pkg := range acc.packages.UnsortedList()` *)
Definition step_pkg (next : resolved) (a : acc) (pkg : string) : acc :=
  let del := negb (String.eqb (vget pkg (a_versions a)) (vget pkg (r_versions next))) in
  let cur := if del then None else sget pkg (a_slots a) in        (* delete(acc.provided, pkg) *)
  let cs := match cur with Some s => s | None => [] end in
  let ns := pget pkg (r_provided next) in
  let cur' := if sequal cs ns then cur else Some (sinter cs ns) in
  {| a_packages := if del then sdel pkg (a_packages a) else a_packages a;
     a_versions := if del then mdel pkg (a_versions a) else a_versions a;
     a_slots := supd pkg cur' (a_slots a) |}.

(* one iteration of `for _, next := range inputs[1:]`; [ord] is the order in
   which UnsortedList hands out the remaining packages *)
Definition step_arch (ord : list string -> list string) (a : acc) (next : resolved) : acc :=
  if vmap_eq (a_versions a) (r_versions next) && pmap_eq (present (a_slots a)) (r_provided next) then a
  else
    let diff := sdiff (a_packages a) (r_packages next) in
    let a1 := {| a_packages := sdiff (a_packages a) diff;       (* acc.packages.Delete(diff...) *)
                 a_versions := a_versions a; a_slots := a_slots a |} in
    fold_left (step_pkg next) (ord (a_packages a1)) a1.

Fixpoint steps (ord : nat -> list string -> list string) (i : nat) (a : acc) (rest : list resolved) : acc :=
  match rest with
  | [] => a
  | next :: rest' => steps ord (S i) (step_arch (ord i) a next) rest'
  end.

(* `for _, provider := range acc.provided`: elide what some provider provides *)
Definition elide (provs : list (list string)) (missing : list string) : list string :=
  fold_left (fun m prov => if shas_any prov m then sdiff m prov else m) provs missing.

Definition entry (efmt pfmt : string) (versions : list (string * string)) (o : origs) (pkg : string) : string :=
  let e := fmt_s efmt [pkg; vget pkg versions] in
  match vget pkg (o_pinned o) with
  | EmptyString => e
  | pin => fmt_s pfmt [e; pin]
  end.

Definition bymap := list (string * list string).

(* unify(originals, inputs). [ord i] orders the UnsortedList of iteration i,
   [ordp] the range over acc.provided. The error text is not modelled. *)
Definition unify (ord : nat -> list string -> list string)
    (ordp : list (list string) -> list (list string))
    (originals : list string) (inputs : list resolved) : res (bymap * bymap) :=
  match originals with
  | [] => Ok ([(unify_index_key, [])], [])
  | _ :: _ =>
    match inputs with
    | [] => Panic                                   (* inputs[0] *)
    | r0 :: rest =>
      let o := parse_originals originals in
      let a := steps ord 0 (init_acc r0) rest in
      let missing0 := sdiff (o_packages o) (a_packages a) in
      let missing := match missing0 with
                     | [] => []
                     | _ => elide (ordp (List.map snd (present (a_slots a)))) missing0
                     end in
      match missing with
      | _ :: _ => Err
      | [] =>
        (* the loop over sets.List(missing) that would re-emit original
           constraints is unreachable with a non-empty set: nothing to append *)
        let pl := sort_strings (List.map (entry unify_index_entry_format unify_index_pin_format (a_versions a) o) (a_packages a)) in
        let bya := fold_left (fun m r =>
                     mset (r_arch r)
                       (sort_strings (List.map (entry unify_arch_entry_format unify_arch_pin_format (r_versions r) o) (r_packages r))) m)
                   inputs [(unify_index_key, pl)] in
        let mba := fold_left (fun m r =>
                      match sdiff (sdiff (r_packages r) (a_packages a)) missing with
                      | [] => m
                      | l => mset (r_arch r) (sort_strings l) m
                      end) inputs [] in
        Ok (bya, mba)
      end
    end
  end.

Definition id_ord : nat -> list string -> list string := fun _ l => l.
Definition id_ordp : list (list string) -> list (list string) := fun l => l.
Definition rev_ord : nat -> list string -> list string := fun _ l => rev l.
Definition rev_ordp : list (list string) -> list (list string) := fun l => rev l.

(* LockImageConfiguration after resolution: [archs] in the order in which
   `range toInstalls` happened to deliver them *)
Definition lock_image_configuration ord ordp (originals : list string) (archs : list (string * list rpkg)) :=
  unify ord ordp originals (List.map (fun ap => resolved_of (fst ap) (snd ap)) archs).

(* ---- lock.json: section ranges and checksums -------------------------------- *)
Definition dec (z : Z) : string := NilZero.string_of_int (Z.to_int z).

(* sizes and hashes of the three gzip members as expandapk reports them *)
Record expanded := {
  e_signature_size : Z; e_control_size : Z; e_package_size : Z;
  e_signature_hash : list N; e_control_hash : list N; e_package_hash : list N
}.
Definition expanded_env (e : expanded) : ienv :=
  [("SignatureSize", e_signature_size e); ("ControlSize", e_control_size e); ("PackageSize", e_package_size e)].
Definition expanded_hash (e : expanded) (field : string) : list N :=
  if String.eqb field "SignatureHash" then e_signature_hash e
  else if String.eqb field "ControlHash" then e_control_hash e
  else if String.eqb field "PackageHash" then e_package_hash e
  else [].

(* NewAPKResolved, field by field as translated *)
Definition resolved_env (e : expanded) : ienv :=
  List.map (fun fe => (fst fe, aeval (expanded_env e) (snd fe))) apk_resolved_sizes.
Definition resolved_hash (e : expanded) (field : string) : list N :=
  match find (fun fh => String.eqb (fst fh) field) apk_resolved_hashes with
  | Some (_, src) => expanded_hash e src
  | None => []
  end.

Record section := { s_range : string; s_checksum : string }.
Record section_nums := { n_lo : Z; n_hi : Z }.

Definition range_nums (args : list aexp) (lo0 : Z) (e : expanded) : section_nums :=
  match List.map (aeval (resolved_env e)) args with
  | [lo; hi] => {| n_lo := lo; n_hi := hi |}
  | [hi] => {| n_lo := lo0; n_hi := hi |}
  | _ => {| n_lo := 0; n_hi := -1 |}
  end.
Definition control_nums := range_nums lock_control_range_args 0.
Definition data_nums := range_nums lock_data_range_args 0.
Definition signature_nums := range_nums lock_signature_range_args 0.
Definition signature_emitted (e : expanded) : bool :=
  negb (Z.eqb (ilookup lock_signature_guard_field (resolved_env e)) 0).

Section LockEntry.
  Variable b64 : list N -> string.        (* base64.StdEncoding.EncodeToString *)

  Definition mk_section (f : string) (args : list aexp) (prefix hashfield : string) (e : expanded) : section :=
    {| s_range := fmt_s f (List.map (fun a => dec (aeval (resolved_env e) a)) args);
       s_checksum := prefix ++ b64 (resolved_hash e hashfield) |}.
  Definition control_section := mk_section lock_control_range_format lock_control_range_args lock_control_checksum_prefix "ControlHash".
  Definition data_section := mk_section lock_data_range_format lock_data_range_args lock_data_checksum_prefix "DataHash".
  Definition signature_section (e : expanded) : section :=
    if signature_emitted e
    then mk_section lock_signature_range_format lock_signature_range_args lock_signature_checksum_prefix "SignatureHash" e
    else {| s_range := ""; s_checksum := "" |}.
End LockEntry.

(* what expandapk reports for a package file made of three members; the hash
   functions are parameters *)
Definition expand (sha1 sha256 : list N -> list N) (sig ctl dat : list N) : expanded :=
  {| e_signature_size := Z.of_nat (List.length sig); e_control_size := Z.of_nat (List.length ctl);
     e_package_size := Z.of_nat (List.length dat);
     e_signature_hash := match sig with [] => [] | _ => sha1 sig end;
     e_control_hash := sha1 ctl; e_package_hash := sha256 dat |}.

(* bytes lo..hi (inclusive) of a file, as an HTTP Range request returns them *)
Definition slice (lo hi : Z) (file : list N) : list N :=
  firstn (Z.to_nat (hi + 1 - lo)) (skipn (Z.to_nat lo) file).

(* ---- installing from a lock -------------------------------------------------- *)
Record lock_pkg := {
  lp_name : string; lp_url : string; lp_version : string; lp_arch : string; lp_checksum : string
}.
Record installable := { i_name : string; i_url : string; i_checksum : string }.

(* installablePackagesForArch *)
Fixpoint installable_for_arch (pkgs : list lock_pkg) (arch : string) : res (list installable) :=
  match pkgs with
  | [] => Ok []
  | p :: t =>
      if negb (String.eqb (lp_arch p) arch) then installable_for_arch t arch
      else match lp_checksum p with
           | EmptyString => Err
           | _ => do r <- installable_for_arch t arch;
                  Ok ({| i_name := lp_name p; i_url := lp_url p; i_checksum := lp_checksum p |} :: r)
           end
  end.

(* buildImage, Lockfile branch: the packages handed to InstallPackages, which
   fetches and installs its argument one element after the other. [fetch]
   abstracts fetching + installing one package (None = failure). *)
Section LockInstall.
  Context {P : Type}.
  Variable fetch : installable -> option P.
  Fixpoint install_packages (l : list installable) : res (list P) :=
    match l with
    | [] => Ok []
    | i :: t => match fetch i with
                | None => Err
                | Some p => do r <- install_packages t; Ok (p :: r)
                end
    end.
  Definition build_from_lock (pkgs : list lock_pkg) (arch : string) : res (list P) :=
    do l <- installable_for_arch pkgs arch; install_packages l.
End LockInstall.

(* ---- how a lock entry is read back: filterPackages ---------------------------- *)
Record cand := { k_name : string; k_version : string; k_provides : list string; k_deps : list string; k_pinned : string; k_dq : bool }.

(* the version test of filterPackages for one candidate *)
Definition version_admits (dep : Z) (req : mver) (k : cand) : bool :=
  match parse_version (k_version k) with
  | None => false                                    (* "skip invalid ones" *)
  | Some av =>
      satisfies dep av req ||
      existsb (fun prov =>
                 match c_version (resolve_constraint prov) with
                 | EmptyString => false
                 | v => match parse_version v with
                        | Some pv => satisfies dep pv req
                        | None => false
                        end
                 end) (k_provides k)
  end.

(* filterPackages(cands, dq, withVersion(c.version, c.dep), withPreferPin(c.pin))
   as called for a world entry (no allowPin, nothing installed) *)
Definition filter_for (c : constraint) (cands : list cand) : list cand :=
  let pin_ok k := String.eqb (k_pinned k) "" || String.eqb (k_pinned k) (c_pin c) in
  if Z.eqb (c_dep c) dep_versionAny then filter (fun k => negb (k_dq k) && pin_ok k) cands
  else match parse_version (c_version c) with
       | None => []            (* "if the required version is invalid ... we return no matches" *)
       | Some req => filter (fun k => negb (k_dq k) && pin_ok k && version_admits (c_dep c) req k) cands
       end.

(* nameMap[name]: the packages called [name] and those providing it *)
Definition cands_of (U : list cand) (name : string) : list cand :=
  filter (fun k => String.eqb (k_name k) name ||
                   existsb (fun prov => String.eqb (c_name (resolve_constraint prov)) name) (k_provides k)) U.
(* the locked world derived from an install set: one exact entry per member *)
Definition lock_entry_of (k : cand) : string := k_name k ++ "=" ++ k_version k.
Definition lock_of (S : list cand) : list string := List.map lock_entry_of S.
