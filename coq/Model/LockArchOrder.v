(* C09 — LockImageConfiguration, the order in which the per-architecture
   resolutions reach unify.  `toInstalls` is a Go map (architecture -> install
   list); since fix 8c1f464 its keys are sorted before the loop that builds the
   `resolved` values (Generated.C09Lock.lock_archs_order = "sorted", read from
   the loop on every run; "map-range" = the order the map happened to deliver).
   The sort key is the types.Architecture value (the canonical OCI name: amd64,
   arm64, arm/v7, ...), which is also what becomes r.arch
   (ParseArchitecture(arch.ToAPK()).String()); Go's < on strings is the byte
   order, as String.leb.  No proofs here. *)
From Apko Require Import Base.Prelude Base.C12Lib Model.Lock Generated.C09Lock.
Open Scope string_scope. Open Scope list_scope.

Definition sort_archs (archs : list (string * list rpkg)) : list (string * list rpkg) := isort fst archs.

(* [delivered]: the entries of toInstalls in the order in which a range over the
   map would deliver them *)
Definition visit_order (delivered : list (string * list rpkg)) : list (string * list rpkg) :=
  if String.eqb lock_archs_order "sorted" then sort_archs delivered else delivered.

Definition lock_image_configuration_now ord ordp (originals : list string) (delivered : list (string * list rpkg)) :=
  lock_image_configuration ord ordp originals (visit_order delivered).
