(* C09 — where the install ORDER of a locked and of an unlocked build comes from
   (finding C09-F5).  One architecture; no proofs here.

   apko lock  (internal/cli/lock.go:LockCmd): for each architecture build.New on the
     ORIGINAL configuration, bc.ResolveWithBase = ResolveWorld (GetPackagesWith-
     Dependencies over /etc/apk/world) then CalculateWorld (fetch/expand, result
     slice indexed like its argument); lock.Contents.Packages is appended to in
     that order.  The world file holds sets.List(packages) sorted once more by
     SetWorld: the sorted, duplicate-free request list.
   apko build --lockfile (pkg/build/build_implementation.go:buildImage): the
     entries of the architecture in FILE order (installablePackagesForArch) are
     handed to InstallPackages, which installs its argument in order.
   apko build without a lock file (internal/cli/build.go:buildImageComponents):
     build.LockImageConfiguration FIRST, then build.New on configs[arch] — the
     LOCKED configuration, whose package list is the sorted name=version[@pin]
     list of the resolution — and FixateWorld = ResolveWorld + InstallPackages.
   So the locked build installs in the resolution order of the REQUEST list and
   the unlocked build in the resolution order of the LOCK list. *)
From Apko Require Import Base.Prelude Base.C12Lib Model.Version.
From Apko Require Model.Lock Model.LockArchOrder Model.Resolver.
Open Scope string_scope. Open Scope list_scope.

(* /etc/apk/world: sets.List(sets.New(packages...)), sorted again by SetWorld *)
Definition world_of (packages : list string) : list string :=
  Lock.sort_strings (nodup string_dec packages).

(* one architecture's resolution as LockImageConfiguration sees it *)
Definition rpkg_at (U : Resolver.universe) (j : Resolver.pid) : Lock.rpkg :=
  let p := nth j U Resolver.dummy_pkg in
  {| Lock.p_name := Resolver.p_name p; Lock.p_version := Resolver.p_version p; Lock.p_provides := Resolver.p_provides p |}.

(* the package list of configs[arch] after LockImageConfiguration over that one architecture *)
Definition locked_packages (U : Resolver.universe) (arch : string) (packages : list string) (S : list Resolver.pid)
  : res (list string) :=
  match LockArchOrder.lock_image_configuration_now Lock.id_ord Lock.id_ordp packages [(arch, List.map (rpkg_at U) S)] with
  | Ok (bya, _) => match C12Lib.alookup arch bya with Some l => Ok l | None => Err end
  | Err => Err | Panic => Panic | OutOfFuel => OutOfFuel
  end.

(* the order in which LockCmd lists the packages of the architecture *)
Definition lockfile_order (U : Resolver.universe) (packages : list string) : res (list Resolver.pid) :=
  Resolver.resolve U (world_of packages) [].

(* the order in which the unlocked build installs *)
Definition unlocked_order (U : Resolver.universe) (arch : string) (packages : list string) : res (list Resolver.pid) :=
  do members <- Resolver.resolve U (world_of packages) [];
  do L <- locked_packages U arch packages members;
  Resolver.resolve U (world_of L) [].

(* a lock.json entry of package j *)
Definition lock_pkg_at (U : Resolver.universe) (arch : string) (j : Resolver.pid) : Lock.lock_pkg :=
  let p := nth j U Resolver.dummy_pkg in
  {| Lock.lp_name := Resolver.p_name p; Lock.lp_url := Resolver.pkg_url p; Lock.lp_version := Resolver.p_version p;
     Lock.lp_arch := arch; Lock.lp_checksum := "Q1" ++ Resolver.pkg_url p |}.
(* what the installer is handed for package j *)
Definition installable_at (U : Resolver.universe) (j : Resolver.pid) : Lock.installable :=
  let p := nth j U Resolver.dummy_pkg in
  {| Lock.i_name := Resolver.p_name p; Lock.i_url := Resolver.pkg_url p; Lock.i_checksum := "Q1" ++ Resolver.pkg_url p |}.
