(* C09 — the Lockfile branch of buildImage and ResolveWithBase's base-image filter
   (pkg/build/build_implementation.go), over what goextract reads from the source on
   every run (Generated/C09Build.v): the condition of the stale-lock guard, the epoch
   argument of the two install calls, the "already in the base image" condition.
   No proofs here.
     buildImage, Lockfile branch:   lock := FromFile(..)
                                     if lock.Config == nil { warn }                       lock_guard_nil_config_refuses
                                     else if COND { return error }                        lock_guard_refuse
                                     allPkgs := installablePackagesForArch(lock, arch)
                                     InstallPackages(ctx, EPOCH, allPkgs)                  locked_install_epoch
                       else:         FixateWorld(ctx, EPOCH)                               unlocked_install_epoch
     ResolveWithBase:                for resolved { for base { if COND { inBase = true } } ; if !inBase { toInstall += resolved } }
     InstallPackages:                ok := isInstalledPackage(ARG); if ok { continue }     install_skip_arg, is_installed_test *)
From Apko Require Import Base.Prelude Base.C09Lib Generated.C09Build.
Open Scope string_scope. Open Scope list_scope.

(* ---- the stale-lock guard ---------------------------------------------------------------- *)
Record guard_in := {
  gi_config_present : bool;     (* lock.Config != nil *)
  gi_cfg_sum : string;          (* bc.o.ImageConfigChecksum: deep checksum of the configuration as it is NOW ("" = unknown) *)
  gi_cfg_file : string;         (* bc.o.ImageConfigFile: the path the build was given *)
  gi_lock_sum : string;         (* lock.Config.DeepChecksum: the checksum recorded when the lock was emitted *)
  gi_lock_name : string         (* lock.Config.Name: the path `apko lock` was given *)
}.
Definition guard_env (g : guard_in) : genv :=
  [("ImageConfigChecksum", gi_cfg_sum g); ("ImageConfigFile", gi_cfg_file g);
   ("DeepChecksum", gi_lock_sum g); ("Name", gi_lock_name g)].
Definition lock_refused (g : guard_in) : bool :=
  if gi_config_present g then geval (guard_env g) lock_guard_refuse else lock_guard_nil_config_refuses.

(* ---- the base image ------------------------------------------------------------------------ *)
Record bpkg := { bp_name : string; bp_checksum : string }.
Definition filter_env (r b : bpkg) : genv :=
  [("resolved.Name", bp_name r); ("base.Name", bp_name b);
   ("resolved.ChecksumString()", bp_checksum r); ("base.ChecksumString()", bp_checksum b)].
Definition in_base (base : list bpkg) (r : bpkg) : bool :=
  existsb (fun b => geval (filter_env r b) in_base_filter) base.
(* what ResolveWithBase hands on, i.e. what the lock file lists *)
Definition lock_listed (base resolved : list bpkg) : list bpkg := filter (fun r => negb (in_base base r)) resolved.
(* InstallPackages on an image that already holds [installed] *)
(* `ok := a.isInstalledPackage(ARG); if ok { continue }`: ARG (install_skip_arg, e.g. pkg.PackageName()) and the test of
   isInstalledPackage (is_installed_test) are read from the source; PackageName() of an installable package is its name *)
Definition skip_key (p : bpkg) : string := glookup install_skip_arg [("PackageName()", bp_name p); ("Name", bp_name p); ("ChecksumString()", bp_checksum p)].
Definition name_installed (installed : list bpkg) (p : bpkg) : bool :=
  existsb (fun q => geval [("arg", skip_key p); ("installed.Name", bp_name q); ("installed.ChecksumString()", bp_checksum q)] is_installed_test) installed.
(* the installed database is rewritten AFTER the whole list has been installed ("update the installed file" follows g.Wait()),
   so the test sees what was installed BEFORE this call (the base image), never the packages of the same call *)
Definition install_on (installed listed : list bpkg) : list bpkg :=
  installed ++ filter (fun p => negb (name_installed installed p)) listed.
