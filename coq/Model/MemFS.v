(* C17 — executable model of the two in-memory filesystems
   (pkg/apk/fs/memfs.go and pkg/tarfs/fs.go), operation by operation, quirks
   included.  No proofs in this file.

   Paths and symlink targets are kept as the list strings.Split(p, "/")
   (a bijection with strings that a path can be), so that the Go code's own
   lexical processing (filepath.Dir / Base / Join / Clean / IsAbs, and the
   absence of any cleaning in getNodeCountLinks) can be transcribed.

   Abstractions (stated in notes/C17.md): a node's Go `mode` is split into a
   kind and the non-type bits (operations are only issued with permission
   arguments that carry no type bits); node.linkCount and node.name are not
   observable through FullFS and are dropped; the modification time of a node
   that was never Chtimes'd is not observed; the tar-entry side channel
   (WriteHeader, te, hardlinks, rc) is outside the alphabet. *)
From Apko Require Export Base.Prelude Generated.FsConsts.
Open Scope string_scope. Open Scope list_scope.

Inductive backend := MemFS | TarFS.
Inductive kind := KDir | KReg | KSym | KDev.
Inductive eclass := ENotExist | EExist | EClosed | EEOF | EOther.

Definition path := list string.          (* strings.Split(p, "/") *)

Record node := mkNode {
  n_kind : kind; n_perm : N; n_uid : Z; n_gid : Z;
  n_data : list N; n_mtime : option Z; n_target : path; n_dev : N;
  n_xattrs : list (string * list N);
  n_children : list (string * nat) }.

Inductive acc := ARd | AWr | ARdWr.
Record oflags := mkFl { f_acc : acc; f_app : bool; f_creat : bool; f_excl : bool; f_trunc : bool }.

Record handle := mkH { h_ino : nat; h_off : Z; h_fl : oflags; h_open : bool }.
Record st := mkSt { heap : list node; handles : list handle }.

Inductive op :=
| Mkdir (p : path) (perm : N) | MkdirAll (p : path) (perm : N)
| OpenFile (p : path) (fl : oflags) (perm : N) | Create (p : path)
| Read (h n : nat) | ReadAt (h n : nat) (off : Z) | Write (h : nat) (b : list N)
| Seek (h : nat) (off : Z) (wh : nat) | Close (h : nat)
| ReadFile (p : path) | WriteFile (p : path) (b : list N) (perm : N)
| ReadDir (p : path) | Stat (p : path) | Lstat (p : path)
| Symlink (tgt p : path) | Link (old new : path) | Readlink (p : path) | Remove (p : path)
| Chmod (p : path) (perm : N) | Chown (p : path) (uid gid : Z) | Chtimes (p : path) (t : Z)
| Mknod (p : path) (perm : N) (dev : N) | Readnod (p : path)
| SetXattr (p : path) (a : string) (v : list N) | GetXattr (p : path) (a : string)
| RemoveXattr (p : path) (a : string) | ListXattrs (p : path).

Inductive out :=
| OOk | OErr (e : eclass) | OPanic
| OBytes (l : list N) | ONum (z : Z) | OPath (p : path)
| OInfo (k : kind) (perm : N) (size : N) (uid gid : Z) (mtime : option Z)
| ODir (l : list (string * kind)) | OXattrs (l : list (string * list N)).

(* ---- heap primitives ---------------------------------------------------- *)
Definition empty_node (k : kind) (perm : N) : node :=
  mkNode k perm 0%Z 0%Z [] None [] 0%N [] [].
Definition root_node := empty_node KDir 493%N.           (* fs.ModeDir | 0o755 *)
Definition init_st : st := mkSt [root_node] [].

Definition get (h : list node) (i : nat) : node := nth i h (empty_node KReg 0%N).

Fixpoint upd (h : list node) (i : nat) (f : node -> node) : list node :=
  match h, i with
  | [], _ => []
  | x :: h', O => f x :: h'
  | x :: h', S i' => x :: upd h' i' f
  end.

Fixpoint lookup {A} (k : string) (l : list (string * A)) : option A :=
  match l with
  | [] => None
  | (k', v) :: l' => if String.eqb k k' then Some v else lookup k l'
  end.
Fixpoint remove_key {A} (k : string) (l : list (string * A)) : list (string * A) :=
  match l with
  | [] => []
  | (k', v) :: l' => if String.eqb k k' then remove_key k l' else (k', v) :: remove_key k l'
  end.
(* Go map assignment m[k] = v *)
Definition set_key {A} (k : string) (v : A) (l : list (string * A)) : list (string * A) :=
  remove_key k l ++ [(k, v)].

Definition set_children (c : list (string * nat)) (n : node) : node :=
  mkNode (n_kind n) (n_perm n) (n_uid n) (n_gid n) (n_data n) (n_mtime n) (n_target n) (n_dev n) (n_xattrs n) c.
Definition set_data (d : list N) (n : node) : node :=
  mkNode (n_kind n) (n_perm n) (n_uid n) (n_gid n) d (n_mtime n) (n_target n) (n_dev n) (n_xattrs n) (n_children n).
Definition set_perm (p : N) (n : node) : node :=
  mkNode (n_kind n) p (n_uid n) (n_gid n) (n_data n) (n_mtime n) (n_target n) (n_dev n) (n_xattrs n) (n_children n).
Definition set_owner (u g : Z) (n : node) : node :=
  mkNode (n_kind n) (n_perm n) u g (n_data n) (n_mtime n) (n_target n) (n_dev n) (n_xattrs n) (n_children n).
Definition set_mtime (t : option Z) (n : node) : node :=
  mkNode (n_kind n) (n_perm n) (n_uid n) (n_gid n) (n_data n) t (n_target n) (n_dev n) (n_xattrs n) (n_children n).
Definition set_xattrs (x : list (string * list N)) (n : node) : node :=
  mkNode (n_kind n) (n_perm n) (n_uid n) (n_gid n) (n_data n) (n_mtime n) (n_target n) (n_dev n) x (n_children n).

Definition add_child (h : list node) (dir : nat) (name : string) (i : nat) : list node :=
  upd h dir (fun n => set_children (set_key name i (n_children n)) n).
Definition del_child (h : list node) (dir : nat) (name : string) : list node :=
  upd h dir (fun n => set_children (remove_key name (n_children n)) n).
(* allocate a fresh inode (inodes are never reused) and enter it in [dir] *)
Definition create (h : list node) (dir : nat) (name : string) (n : node) : list node * nat :=
  (add_child (h ++ [n]) dir name (List.length h), List.length h).

Definition is_dir (h : list node) (i : nat) : bool :=
  match n_kind (get h i) with KDir => true | _ => false end.
Definition is_sym (h : list node) (i : nat) : bool :=
  match n_kind (get h i) with KSym => true | _ => false end.

Definition str_in (s : string) (l : list string) : bool := existsb (String.eqb s) l.
Definition path_eqb (a b : path) : bool := list_eqb String.eqb a b.

(* ---- Go's lexical path functions on split paths -------------------------- *)
Definition rooted (p : path) : bool :=               (* filepath.IsAbs / HasPrefix "/" *)
  match p with "" :: _ :: _ => true | _ => false end.

(* the element loop of filepath.Clean; [acc] is the output so far, reversed *)
Fixpoint clean_loop (rt : bool) (acc : list string) (p : path) : list string :=
  match p with
  | [] => rev acc
  | c :: p' =>
      if String.eqb c "" || String.eqb c "." then clean_loop rt acc p'
      else if String.eqb c ".." then
        match acc with
        | a :: acc' => if String.eqb a ".." then clean_loop rt (".." :: acc) p' else clean_loop rt acc' p'
        | [] => if rt then clean_loop rt [] p' else clean_loop rt [".."] p'
        end
      else clean_loop rt (c :: acc) p'
  end.
Definition as_path (rt : bool) (o : list string) : path :=
  if rt then "" :: (match o with [] => [""] | _ => o end)
  else match o with [] => ["."] | _ => o end.
Definition go_clean (rt : bool) (p : path) : path := as_path rt (clean_loop rt [] p).

(* filepath.Dir *)
Definition go_dir (p : path) : path :=
  match removelast p with
  | [] => ["."]
  | c :: i => go_clean (String.eqb c "") (c :: i)
  end.
Fixpoint strip_trailing_empty (p : path) : path :=
  match p with
  | [] => []
  | c :: p' => match strip_trailing_empty p' with
               | [] => if String.eqb c "" then [] else [c]
               | q => c :: q
               end
  end.
(* filepath.Base *)
Definition go_base (p : path) : string :=
  match p with
  | [""] => "."
  | _ => match strip_trailing_empty p with [] => "/" | q => last q "/" end
  end.
(* filepath.Join(strings.Join(traversed, "/"), target), target not absolute *)
Definition go_join_trav (trav : list string) (tgt : path) : path := go_clean false (trav ++ tgt).
(* filepath.Join(parent, target) where parent is a result of filepath.Dir *)
Definition go_join_dir (parent tgt : path) : path := go_clean (rooted parent) (parent ++ tgt).

Definition is_root_path (p : path) : bool := path_eqb p ["" ; ""] || path_eqb p ["."].

(* ---- getNodeCountLinks ----------------------------------------------------
   [rec] resolves a link target one nesting level deeper. *)
Definition eres (A : Type) := (A + eclass)%type.

Fixpoint get_loop (rec : path -> eres nat) (h : list node) (parts : path) (cur : nat) (trav : list string)
  : eres nat :=
  match parts with
  | [] => inl cur
  | part :: rest =>
      if String.eqb part "" then get_loop rec h rest cur trav
      else if negb (is_dir h cur) then inr ENotExist                 (* node.children == nil *)
      else match lookup part (n_children (get h cur)) with
           | None => inr ENotExist
           | Some c =>
               if is_sym h c then
                 let t := n_target (get h c) in
                 let t' := if rooted t then t else go_join_trav trav t in
                 match rec t' with
                 | inr e => inr e
                 | inl tn => get_loop rec h rest tn (trav ++ [part])
                 end
               else get_loop rec h rest c (trav ++ [part])
           end
  end.

Fixpoint get_at (d : nat) (h : list node) (p : path) : eres nat :=
  if is_root_path p then inl 0
  else get_loop (match d with O => fun _ => inr EOther | S d' => get_at d' h end) h p 0 [].

Definition getnode_depth (b : backend) := match b with MemFS => memfs_getnode_depth | TarFS => tarfs_getnode_depth end.
Definition openfile_depth (b : backend) := match b with MemFS => memfs_openfile_depth | TarFS => tarfs_openfile_depth end.
Definition get_node (b : backend) (h : list node) (p : path) : eres nat := get_at (getnode_depth b) h p.

(* parent := filepath.Dir(p); base := filepath.Base(p); getNode(parent); children[base] *)
Definition m_leaf (b : backend) (h : list node) (p : path) : eres (nat * string * option nat) :=
  match get_node b h (go_dir p) with
  | inr e => inr e
  | inl pi => inl (pi, go_base p, lookup (go_base p) (n_children (get h pi)))
  end.

(* ---- openFile ------------------------------------------------------------- *)
Inductive opened := OpErr (e : eclass) | OpNode (h : list node) (i : nat).

Fixpoint open_at (b : backend) (d : nat) (h : list node) (name : path) (fl : oflags) (perm : N) : opened :=
  let parent := go_dir name in
  let base := go_base name in
  match get_node b h parent with
  | inr e => OpErr e
  | inl pi =>
      if negb (is_dir h pi) then OpErr EOther
      else match lookup base (n_children (get h pi)) with
           | None =>
               if f_creat fl then let '(h', i) := create h pi base (empty_node KReg perm) in OpNode h' i
               else match b with
                    | TarFS => if path_eqb parent name then OpNode h pi else OpErr ENotExist
                    | MemFS => OpErr ENotExist
                    end
           | Some c =>
               if is_dir h c then OpErr EOther
               else if is_sym h c then
                 match d with
                 | O => OpErr EOther
                 | S d' =>
                     let t := n_target (get h c) in
                     open_at b d' h (if rooted t then t else go_join_dir parent t) fl perm
                 end
               else OpNode h c
           end
  end.

(* newMemFile: O_TRUNC first, then the O_APPEND offset (fix e12e6cc) *)
Definition new_handle (h : list node) (i : nat) (fl : oflags) : list node * handle :=
  let h1 := if f_trunc fl then upd h i (set_data []) else h in
  (h1, mkH i (if f_app fl then Z.of_nat (List.length (n_data (get h1 i))) else 0%Z) fl true).

Definition m_open (b : backend) (s : st) (p : path) (fl : oflags) (perm : N) : st * out :=
  match open_at b (openfile_depth b) (heap s) p fl perm with
  | OpErr e => (s, OErr e)
  | OpNode h i => let '(h1, hd) := new_handle h i fl in (mkSt h1 (handles s ++ [hd]), OOk)
  end.

(* ---- MkdirAll -------------------------------------------------------------- *)
Fixpoint mkdirall_loop (b : backend) (h : list node) (parts : path) (cur : nat) (trav : list string) (perm : N)
  : list node * option eclass :=
  match parts with
  | [] => (h, None)
  | part :: rest =>
      if String.eqb part "" || (match b with MemFS => String.eqb part "." | TarFS => false end)
      then mkdirall_loop b h rest cur trav perm
      else
        let '(h1, nn) := match lookup part (n_children (get h cur)) with
                         | Some c => (h, c)
                         | None => create h cur part (empty_node KDir perm)
                         end in
        let r := if is_sym h1 nn then
                   let t := n_target (get h1 nn) in
                   get_node b h1 (if rooted t then t else go_join_trav trav t)
                 else inl nn in
        match r with
        | inr e => (h1, Some e)
        | inl nn' => if negb (is_dir h1 nn') then (h1, Some EOther)
                     else mkdirall_loop b h1 rest nn' (trav ++ [part]) perm
        end
  end.

(* ---- sorting by name (sort.Slice on distinct names) ------------------------ *)
Fixpoint insert_key {A} (k : string) (v : A) (l : list (string * A)) : list (string * A) :=
  match l with
  | [] => [(k, v)]
  | (k', v') :: l' =>
      if String.ltb k k' then (k, v) :: l
      else if String.eqb k k' then l
      else (k', v') :: insert_key k v l'
  end.
Fixpoint sort_keys {A} (l : list (string * A)) : list (string * A) :=
  match l with [] => [] | (k, v) :: l' => insert_key k v (sort_keys l') end.

(* ---- file handles ----------------------------------------------------------- *)
Definition set_off (o : Z) (hd : handle) : handle := mkH (h_ino hd) o (h_fl hd) (h_open hd).
Definition set_closed (hd : handle) : handle := mkH (h_ino hd) (h_off hd) (h_fl hd) false.
Fixpoint upd_h (l : list handle) (i : nat) (f : handle -> handle) : list handle :=
  match l, i with
  | [], _ => []
  | x :: l', O => f x :: l'
  | x :: l', S i' => x :: upd_h l' i' f
  end.
Definition zeros (n : nat) : list N := repeat 0%N n.
Definition blen (l : list N) : Z := Z.of_nat (List.length l).

(* the bytes of a file after writing [p] at offset [o >= 0] (zero-filled gap) *)
Definition write_at (d : list N) (o : nat) (p : list N) : list N :=
  let d1 := if Nat.ltb (List.length d) o then d ++ zeros (o - List.length d) else d in
  firstn o d1 ++ p ++ skipn (o + List.length p) d1.

Definition info_of (n : node) : out :=
  OInfo (n_kind n) (n_perm n) (N.of_nat (List.length (n_data n))) (n_uid n) (n_gid n) (n_mtime n).

Definition with_handle (s : st) (i : nat) (k : handle -> st * out) : st * out :=
  match nth_error (handles s) i with
  | None => (s, OErr EOther)                       (* not issued by the harness *)
  | Some hd => if h_open hd then k hd else (s, OErr EClosed)
  end.

Definition with_node (b : backend) (s : st) (p : path) (k : nat -> st * out) : st * out :=
  match get_node b (heap s) p with inr e => (s, OErr e) | inl i => k i end.
(* the xattr functions turn every lookup error into ErrNotExist *)
Definition with_node_ne (b : backend) (s : st) (p : path) (k : nat -> st * out) : st * out :=
  match get_node b (heap s) p with inr _ => (s, OErr ENotExist) | inl i => k i end.
Definition with_leaf (b : backend) (s : st) (p : path) (k : nat -> string -> option nat -> st * out) : st * out :=
  match m_leaf b (heap s) p with inr e => (s, OErr e) | inl (pi, base, c) => k pi base c end.

Definition seth (s : st) (h : list node) : st := mkSt h (handles s).

(* Symlink / Mknod / Link (since fix ba6ef02): "parent is not a directory" first,
   then ErrExist, then the new entry *)
Definition enter_new (s : st) (pi : nat) (c : option nat) (mk : list node -> list node) : st * out :=
  if negb (is_dir (heap s) pi) then (s, OErr EOther)
  else match c with
       | Some _ => (s, OErr EExist)
       | None => (seth s (mk (heap s)), OOk)
       end.

Definition rdwr_create_trunc := mkFl ARdWr false true false true.
Definition rdonly := mkFl ARd false false false false.

Definition model_step (b : backend) (s : st) (o : op) : st * out :=
  match o with
  | Mkdir p perm =>
      with_leaf b s p (fun pi base c =>
        if negb (is_dir (heap s) pi) then (s, OErr EOther)
        else match c with
             | Some _ => (s, OErr EExist)
             | None => (seth s (fst (create (heap s) pi base (empty_node KDir perm))), OOk)
             end)
  | MkdirAll p perm =>
      let '(h, e) := mkdirall_loop b (heap s) p 0 [] perm in
      (seth s h, match e with None => OOk | Some e => OErr e end)
  | OpenFile p fl perm => m_open b s p fl perm
  | Create p => m_open b s p rdwr_create_trunc 438%N
  | Read i n =>
      with_handle s i (fun hd =>
        let d := n_data (get (heap s) (h_ino hd)) in
        if (h_off hd >=? blen d)%Z then (s, OErr EEOF)
        else if (h_off hd <? 0)%Z then (s, OPanic)
        else let bs := firstn n (skipn (Z.to_nat (h_off hd)) d) in
             (mkSt (heap s) (upd_h (handles s) i (set_off (h_off hd + blen bs)%Z)), OBytes bs))
  | ReadAt i n off =>
      with_handle s i (fun hd =>
        let d := n_data (get (heap s) (h_ino hd)) in
        if (off <? 0)%Z then (s, OErr EOther)                  (* "negative offset", fix ba6ef02 *)
        else if (off >=? blen d)%Z then (s, OErr EEOF)
        else (s, OBytes (firstn n (skipn (Z.to_nat off) d))))
  | Write i p =>
      with_handle s i (fun hd =>
        if (h_off hd <? 0)%Z then (s, OPanic)
        else let d := n_data (get (heap s) (h_ino hd)) in
             (mkSt (upd (heap s) (h_ino hd) (set_data (write_at d (Z.to_nat (h_off hd)) p)))
                   (upd_h (handles s) i (set_off (h_off hd + blen p)%Z)), ONum (blen p)))
  | Seek i off wh =>
      with_handle s i (fun hd =>
        let d := n_data (get (heap s) (h_ino hd)) in
        let r := match wh with
                 | 0 => Some off | 1 => Some (h_off hd + off)%Z | 2 => Some (blen d + off)%Z | _ => None
                 end in
        match r with
        | None => (s, OErr EOther)
        | Some o' => if (o' <? 0)%Z then (s, OErr EOther)       (* "negative position", fix ba6ef02 *)
                     else (mkSt (heap s) (upd_h (handles s) i (set_off o')), ONum o')
        end)
  | Close i =>
      with_handle s i (fun hd => (mkSt (heap s) (upd_h (handles s) i set_closed), OOk))
  | ReadFile p =>
      match open_at b (openfile_depth b) (heap s) p rdonly 420%N with
      | OpErr e => (s, OErr e)
      | OpNode h i => (s, OBytes (n_data (get h i)))        (* nothing is created without O_CREATE *)
      end
  | WriteFile p bs perm =>
      match open_at b (openfile_depth b) (heap s) p rdwr_create_trunc perm with
      | OpErr e => (s, OErr e)
      | OpNode h i => (seth s (upd h i (set_data bs)), OOk)
      end
  | ReadDir p =>
      with_node b s p (fun i =>
        if negb (is_dir (heap s) i) then (s, OErr EOther)
        else (s, ODir (sort_keys (List.map (fun '(nm, c) => (nm, n_kind (get (heap s) c))) (n_children (get (heap s) i))))))
  | Stat p | Lstat p =>                   (* getNode follows the last link as well *)
      with_node b s p (fun i => (s, info_of (get (heap s) i)))
  | Symlink tgt p =>
      with_leaf b s p (fun pi base c =>
        enter_new s pi c (fun h => fst (create h pi base
          (mkNode KSym 511%N 0%Z 0%Z [] None tgt 0%N [] []))))
  | Mknod p perm dev =>
      with_leaf b s p (fun pi base c =>
        enter_new s pi c (fun h => fst (create h pi base
          (mkNode KDev perm 0%Z 0%Z [] None [] dev [] []))))
  | Link old new =>
      with_leaf b s new (fun pi base c =>
        if negb (is_dir (heap s) pi) then (s, OErr EOther)
        else match get_node b (heap s) old with
             | inr _ => (s, OErr ENotExist)
             | inl t => enter_new s pi c (fun h => add_child h pi base t)
             end)
  | Readlink p =>
      with_leaf b s p (fun pi base c =>
        match c with
        | None => (s, OErr ENotExist)
        | Some c => if is_sym (heap s) c then (s, OPath (n_target (get (heap s) c))) else (s, OErr EOther)
        end)
  | Readnod p =>
      with_leaf b s p (fun pi base c =>
        match c with
        | None => (s, OErr ENotExist)
        | Some c => match n_kind (get (heap s) c) with
                    | KDev => (s, ONum (Z.of_N (n_dev (get (heap s) c))))
                    | _ => (s, OErr EOther)
                    end
        end)
  | Remove p =>
      with_leaf b s p (fun pi base c =>
        match c with
        | None => (s, OErr ENotExist)
        | Some _ => (seth s (del_child (heap s) pi base), OOk)
        end)
  | Chmod p perm => with_node b s p (fun i => (seth s (upd (heap s) i (set_perm perm)), OOk))
  | Chown p u g => with_node b s p (fun i => (seth s (upd (heap s) i (set_owner u g)), OOk))
  | Chtimes p t => with_node b s p (fun i => (seth s (upd (heap s) i (set_mtime (Some t))), OOk))
  | SetXattr p a v =>
      with_node_ne b s p (fun i =>
        (seth s (upd (heap s) i (fun n => set_xattrs (set_key a v (n_xattrs n)) n)), OOk))
  | GetXattr p a =>
      with_node_ne b s p (fun i =>
        match lookup a (n_xattrs (get (heap s) i)) with
        | None => (s, OErr ENotExist)
        | Some v => (s, OBytes v)
        end)
  | RemoveXattr p a =>
      with_node_ne b s p (fun i =>
        (seth s (upd (heap s) i (fun n => set_xattrs (remove_key a (n_xattrs n)) n)), OOk))
  | ListXattrs p =>
      with_node_ne b s p (fun i => (s, OXattrs (sort_keys (n_xattrs (get (heap s) i)))))
  end.

Fixpoint model_run (b : backend) (s : st) (ops : list op) : st * list out :=
  match ops with
  | [] => (s, [])
  | o :: ops' => let '(s1, r) := model_step b s o in
                 let '(s2, rs) := model_run b s1 ops' in (s2, r :: rs)
  end.
