(* C14 — the wiring around the resolver of Model/Resolver.v, an executable
   transcription of what the code does TODAY.  No proofs in this file.

   Go                                                    model
   ----------------------------------------------------  ---------------------------------
   types.Architecture (a string type), its String()       [string], Generated.C14Wiring.byarch_key
   build.NewMultiArch: m.Contexts, apks, bc.apk.ByArch     contexts, by_arch_of
   apk.NamedIndex objects, *RepositoryPackage pointers     nindex (ni_id = object identity), obj
   repo.go:disqualifyDifference (map keyed by package      dq_objs (members), dq_reasons (messages)
     OBJECT, value = message)
   shameful_global_caches.go:disqualifyCache.Get           dq_cache_key, grouping_of, same_grouping, dq_cache_get
   PkgResolver.GetPackagesWithDependencies(world, all)     get_packages (own_dq = the part of the
                                                             set that names this resolver's objects)
   APK.ResolveWorld (sibling loop over a.ByArch)           collect_all_archs, resolve_world
   MultiArch.BuildPackageLists                             build_package_lists

   Conventions.
   * An architecture is its string (types.Architecture is `type Architecture
     string`).  The expression that keys the ByArch map is read from the source
     by goextract and evaluated into the function [byarch_key].
   * Go maps are association lists.  Where the code ranges over a map and the
     iteration order can matter, the order is an explicit argument ([order] of
     [by_arch_of]; the list order of an [arch_map]); theorems quantify over it.
   * Object identity.  A NamedIndex object is an [nindex] with an identity
     [ni_id]; its i-th *RepositoryPackage is the object (ni_id, i).  The
     disqualification set is a set of package OBJECTS: a resolver is affected by
     it only through the objects of the indexes it was built from ([own_dq]).
     This is what made C14-F2 possible (own indexes loaded a second time were
     other objects) and what seeded change C14-3 exploits (an architecture that
     is missing from its own ByArch map finds none of its objects in the set).
   * Which index objects an APK gets from GetRepositoryIndexes is an input:
     [own] (the list the resolver of the architecture under consideration was
     built from) and [load] (what a sibling's GetRepositoryIndexes returns when
     called from ResolveWorld — the process-wide index cache may or may not
     hand back the objects the sibling itself resolves with; nothing depends on
     that).
   * Messages: "%q" of a string of printable ASCII without quote or backslash
     is the string between double quotes; the generators use only such names. *)
From Apko Require Import Base.Prelude Model.Resolver Generated.C14Wiring.
Open Scope string_scope. Open Scope list_scope.

(* ---- index objects and package objects ---------------------------------------- *)
Record nindex := { ni_id : nat; ni_name : string (* NamedIndex.Name(), the pin *); ni_pkgs : list pkg }.
Definition NI := Build_nindex.

(* the universe a resolver built from [ixs] sees: (index, package) order *)
Definition flatten (ixs : list nindex) : universe := flat_map ni_pkgs ixs.

Definition obj := (nat * nat)%type.
Definition obj_eqb (a b : obj) : bool := Nat.eqb (fst a) (fst b) && Nat.eqb (snd a) (snd b).
Definition objs_of_index (ix : nindex) : list obj :=
  List.map (fun i => (ni_id ix, i)) (seq 0 (List.length (ni_pkgs ix))).
(* position in the flattened universe -> package object *)
Definition objs_of (ixs : list nindex) : list obj := flat_map objs_of_index ixs.
Definition obj_at (ixs : list nindex) (i : pid) : obj := nth i (objs_of ixs) (0, 0).
Definition mem_obj (o : obj) (l : list obj) : bool := existsb (obj_eqb o) l.

(* ---- disqualifyDifference ---------------------------------------------------------- *)
(* map[string][]NamedIndex, listed in some order *)
Definition arch_map := list (string * list nindex).
Definition universes_of (aa : arch_map) : list (string * universe) :=
  List.map (fun e => (fst e, flatten (snd e))) aa.

(* the keys of the returned map: for every architecture the objects of the
   packages that Resolver.disqualify_difference marks for it *)
Definition dq_objs (aa : arch_map) : list obj :=
  flat_map (fun e => List.map (obj_at (snd e)) (dq_for (universes_of aa) (fst e))) aa.

(* the values: fmt.Sprintf("package %q not available for arch %q", pkg.Filename(), otherArch) *)
Definition quote (s : string) : string := String """"%char (s ++ String """"%char EmptyString).
Definition pkg_filename (p : pkg) : string := p_name p ++ "-" ++ p_version p ++ ".apk".
Definition dq_message (file other : string) : string :=
  nth 0 dq_message_parts "" ++ quote file ++ nth 1 dq_message_parts "" ++ quote other ++ nth 2 dq_message_parts "".
(* every message the loops write for package [p] of architecture [a]: one per
   OTHER architecture that lacks its name+version.  The map keeps the one
   written last, which follows the iteration order of the inner loop. *)
Definition dq_reasons (aa : arch_map) (a : string) (p : pkg) : list string :=
  if Nat.eqb (List.length aa) 1 then []
  else List.map (fun e => dq_message (pkg_filename p) (fst e))
         (List.filter (fun e => negb (String.eqb (fst e) a) && negb (available_in (flatten (snd e)) p)) aa).

(* ---- disqualifyCache.Get -------------------------------------------------------------- *)
(* slices.Concat(slices.Collect(maps.Values(byArch))...) then slices.SortFunc by
   Name(): below 12 elements pdqsort is an insertion sort, which is stable, so
   indexes with equal names keep the order of the concatenation (= the order in
   which maps.Values iterated, the list order of [aa]).  The trie is keyed by
   index OBJECT. *)
Fixpoint ins_by_name (x : nindex) (l : list nindex) : list nindex :=
  match l with
  | [] => [x]
  | y :: t => if String.ltb (ni_name x) (ni_name y) then x :: l else y :: ins_by_name x t
  end.
Definition sort_by_name (l : list nindex) : list nindex := fold_left (fun acc x => ins_by_name x acc) l [].
Definition dq_cache_key (aa : arch_map) : list nat :=
  List.map ni_id (sort_by_name (List.concat (List.map snd aa))).

(* Since fix 3541d7b (was finding C08-F2) a node of the trie keeps ONE ENTRY PER
   GROUPING: find walks the trie along the key and returns the entry whose stored
   grouping equals the request's map - maps.EqualFunc over slices.Equal: the same
   architectures, each with the same index OBJECTS in the same order; fill
   appends (copy of the grouping, set).  A grouping is compared through the
   identities of its index objects; a Go map has no listing order. *)
Definition grouping := list (string * list nat).
Definition grouping_of (aa : arch_map) : grouping := List.map (fun e => (fst e, List.map ni_id (snd e))) aa.
Definition same_grouping (g h : grouping) : bool :=
  Nat.eqb (List.length g) (List.length h) &&
  forallb (fun e => match alookup (fst e) h with Some l => list_eqb Nat.eqb (snd e) l | None => false end) g.

Definition dq_cache := list (list nat * grouping * list obj).
Fixpoint find_entry (k : list nat) (g : grouping) (c : dq_cache) : option (list obj) :=
  match c with
  | [] => None
  | (k', g', d) :: t => if list_eqb Nat.eqb k k' && same_grouping g' g then Some d else find_entry k g t
  end.
(* `if dq := r.find(indexes, byArch); dq != nil { return maps.Clone(dq) }` — a stored
   empty set is a hit (the stored map is never nil); on a miss
   disqualifyDifference of THIS call's map is computed and stored under the key,
   with the grouping *)
Definition dq_cache_get (c : dq_cache) (aa : arch_map) : dq_cache * list obj :=
  let k := dq_cache_key aa in
  let g := grouping_of aa in
  match find_entry k g c with
  | Some d => (c, d)
  | None => let d := dq_objs aa in ((k, g, d) :: c, d)
  end.

(* the lookup before the fix: the key alone (kept for the non-vacuity witness
   MultiArchWitness.cache_keyed_by_concatenation_refuted) *)
Fixpoint find_key (k : list nat) (c : dq_cache) : option (list obj) :=
  match c with
  | [] => None
  | (k', _, d) :: t => if list_eqb Nat.eqb k k' then Some d else find_key k t
  end.
Definition dq_cache_get_by_key (c : dq_cache) (aa : arch_map) : dq_cache * list obj :=
  let k := dq_cache_key aa in
  match find_key k c with
  | Some d => (c, d)
  | None => let d := dq_objs aa in ((k, grouping_of aa, d) :: c, d)
  end.

(* ---- GetPackagesWithDependencies(world, allArchs) on a resolver built from [own] ---------- *)
(* filterPackages asks `dq[pkg.RepositoryPackage]`: only the resolver's own objects count *)
Definition own_dq (own : list nindex) (d : list obj) : list pid :=
  List.filter (fun i => mem_obj (obj_at own i) d) (seq 0 (List.length (objs_of own))).

Definition get_packages (c : dq_cache) (own : list nindex) (world : list string) (aa : arch_map)
  : dq_cache * res (list pid) :=
  let '(c', d) := dq_cache_get c aa in
  (c', resolve (flatten own) world (own_dq own d)).

(* ---- build.NewMultiArch ---------------------------------------------------------------------- *)
(* m.Contexts[arch] = c : one context, hence one apk.APK, per DISTINCT architecture *)
Definition contexts (archs : list string) : list string := nodup string_dec archs.

(* `for arch, bc := range m.Contexts { apks[<key>] = bc.apk }` with the contexts
   visited in [order]: key -> the architecture whose APK is stored.  Two
   architectures with one key: the one visited later stays. *)
Definition by_arch_with (key : string -> string) (order : list string) : list (string * string) :=
  fold_left (fun m a => aset (key a) a m) order [].
Definition by_arch_of (order : list string) : list (string * string) := by_arch_with byarch_key order.

(* ---- APK.ResolveWorld ------------------------------------------------------------------------- *)
(* `for otherArch, otherAPK := range a.ByArch`: the resolver's own index objects
   where the entry is this very APK (fix f441d90), otherwise what the sibling's
   GetRepositoryIndexes returns *)
Definition collect_all_archs (load : string -> list nindex) (self : string) (own : list nindex)
    (by_arch : list (string * string)) : arch_map :=
  List.map (fun e => (fst e, if String.eqb (snd e) self then own else load (snd e))) by_arch.

Definition resolve_world (c : dq_cache) (load : string -> list nindex) (by_arch : list (string * string))
    (self : string) (own : list nindex) (world : list string) : dq_cache * res (list pid) :=
  get_packages c own world (collect_all_archs load self own by_arch).

(* the set the resolution of [self] starts from, with an empty cache *)
Definition wired_dq (load : string -> list nindex) (by_arch : list (string * string))
    (self : string) (own : list nindex) : list pid :=
  own_dq own (dq_objs (collect_all_archs load self own by_arch)).

(* the observable: ordered (name, version) list or an error *)
Definition observe_world (own : list nindex) (r : res (list pid)) : res (list (string * string)) :=
  match r with
  | Ok l => Ok (List.map (fun i => let p := nth i (flatten own) dummy_pkg in (p_name p, p_version p)) l)
  | Err => Err | Panic => Panic | OutOfFuel => OutOfFuel
  end.

(* ---- MultiArch.BuildPackageLists ------------------------------------------------------------------
   One ResolveWorld per context; all contexts share ONE ByArch map ([order] =
   the order in which NewMultiArch's loop over m.Contexts filled it).  Each
   architecture resolves with the index objects [repos arch]; a sibling's load
   returns [repos sibling] as well (whether the real load returns those very
   objects or fresh ones is immaterial: only the resolver's own objects are
   looked up in the set).  The per-architecture calls run concurrently and
   share the process-wide cache; whatever it holds, every call is handed the
   difference of its own grouping (c14_cache_own_grouping), so every answer is
   the one computed from an empty cache, which is what the model computes.  Errors are joined: one failure fails the call. *)
Definition resolve_arch (repos : string -> list nindex) (order : list string) (world : list string) (a : string)
  : res (list (string * string)) :=
  observe_world (repos a) (snd (resolve_world [] repos (by_arch_of order) a (repos a) world)).

Definition build_package_lists (repos : string -> list nindex) (archs order : list string) (world : list string)
  : option (list (string * list (string * string))) :=
  fold_right (fun a acc =>
    match resolve_arch repos order world a, acc with
    | Ok l, Some t => Some ((a, l) :: t)
    | _, _ => None
    end) (Some []) (contexts archs).
