(* C12 — executable model of the OCI emitters' own logic:
     pkg/build/oci/index.go   BuildIndex (append offset), generateIndexWithMediaType
     pkg/build/oci/image.go   BuildImageFromLayers (config synthesis)
     pkg/build/types/types.go ParseArchitecture / ToAPK / ToOCIPlatform
   Constants, tables and the offset arithmetic come from Generated/C12Oci.v
   (regenerated from /repo on every run). No proofs here. *)
From Apko Require Import Base.Prelude Base.C12Lib Generated.C12Oci.
Open Scope string_scope. Open Scope list_scope.

(* ---- BuildIndex: where the appended manifests start ----------------------
   [pos]  = file position right after the last header read by the scan loop
   [size] = that member's size; the program is the translated Go text *)
Definition append_offset (pos size : Z) : Z :=
  ilookup pad_out_var (exec pad_program [(pad_pos_var, pos); (pad_size_var, size)]).

(* ---- architectures -------------------------------------------------------- *)
Definition parse_architecture (s : string) : string :=
  match alookup s parse_arch_table with Some a => a | None => s end.
Definition to_apk (a : string) : string :=
  let a := parse_architecture a in
  match alookup a to_apk_table with Some x => x | None => a end.
(* (Architecture, Variant); OS is the constant oci_platform_os *)
Definition to_oci_platform (a : string) : string * string :=
  let a := parse_architecture a in
  match alookup a oci_platform_table with Some p => p | None => (a, "") end.

(* ---- BuildIndex: which images reach the docker-style part of the bundle ----
   tagsToImages is keyed by "<tag>-<strings.ReplaceAll(Platform.Architecture, "/", "_")>";
   manifests are visited in index order and a later manifest with the same key
   replaces an earlier one. With no tag at all the map stays empty. *)
Fixpoint replace_slash (s : string) : string :=
  match s with
  | EmptyString => EmptyString
  | String c s' => String (if Ascii.eqb c "/"%char then "_"%char else c) (replace_slash s')
  end.
Definition bundle_key (a : string) : string := replace_slash (fst (to_oci_platform a)).
Fixpoint bundle_included (ntags : nat) (archs : list string) : list bool :=
  match archs with
  | [] => []
  | a :: rest =>
      (negb (Nat.eqb ntags 0) && negb (existsb (String.eqb (bundle_key a)) (List.map bundle_key rest)))
        :: bundle_included ntags rest
  end.
