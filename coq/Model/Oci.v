(* C12 — executable model of the OCI emitters' own logic:
     pkg/build/oci/index.go   BuildIndex (append offset), generateIndexWithMediaType
     pkg/build/oci/image.go   BuildImageFromLayers (config synthesis)
     pkg/build/types/types.go ParseArchitecture / ToAPK / ToOCIPlatform
   Constants, tables and the offset arithmetic come from Generated/C12Oci.v
   (regenerated from /repo on every run). No proofs here. *)
From Apko Require Import Base.Prelude Base.C12Lib Generated.C12Oci.
Open Scope string_scope. Open Scope list_scope.

(* ---- BuildIndex: where the appended manifests start ----------------------
   [pos]  = file position right after the last header read by the scan loop
   [size] = that member's size; the program is the translated Go text *)
Definition append_offset (pos size : Z) : Z :=
  ilookup pad_out_var (exec pad_program [(pad_pos_var, pos); (pad_size_var, size)]).

(* ---- BuildIndex: the header scan loop over a tar stream of raw header records ------
   A stream is a list of 512-byte header RECORDS, each followed by its data section
   padded to a block boundary, then the end-of-archive marker (two zero blocks).
   archive/tar's Reader.next distinguishes four kinds of record:
     KFile        a member with a data section of r_size bytes (regular files and every
                  type flag that is not listed below; r_size is the size that governs the
                  data section, i.e. after a PAX "size" record has been merged);
     KHeaderOnly  link, symlink, char/block device, directory, fifo: NO data section
                  whatever the size field says - but hdr.Size still reports the field;
     KExt         PAX 'x' / GNU 'L' long name / GNU 'K' long link: its data section is read
                  by next() itself and describes the FOLLOWING record; Next() does not
                  return it, it loops;
     KGlobal      PAX 'g' global header: data section read by next(), then returned by
                  Next() as an entry of its own with Size 0.
   (GNU/PAX sparse members are out of scope: MultiWrite never writes them.)
   The reader sits directly on the *os.File (tar.NewReader(f), no buffering: every read
   and every discard - a Seek on a file - moves the file offset by exactly the bytes
   consumed), so f.Seek(0, io.SeekCurrent) observes the reader's own bookkeeping:
     [pos]  the file offset, [pend] the bytes the next call discards first
            (tr.curr.physicalRemaining() + tr.pad). *)
Inductive rkind := KFile | KHeaderOnly | KExt | KGlobal.
Record rawrec := { r_kind : rkind; r_size : Z }.
Definition padded (n : Z) : Z := ((n + 511) / 512 * 512)%Z.
Definition data_len (r : rawrec) : Z := match r_kind r with KHeaderOnly => 0%Z | _ => padded (r_size r) end.
Definition rec_len (r : rawrec) : Z := (512 + data_len r)%Z.
(* offset of the first end-of-archive block *)
Fixpoint stream_len (rs : list rawrec) : Z :=
  match rs with [] => 0%Z | r :: t => (rec_len r + stream_len t)%Z end.

Definition max_special_file_size : Z := 1048576%Z.     (* archive/tar maxSpecialFileSize = 1 << 20 *)

(* one call of Reader.Next(): result, records left, file offset, pending discard *)
Inductive next_res := NHdr (size : Z) | NEOF | NErr.
Fixpoint rd_next (rs : list rawrec) (pos pend : Z) : next_res * list rawrec * Z * Z :=
  match rs with
  | [] => (NEOF, [], pos + pend + 1024, 0)%Z                      (* discard, then the two zero blocks *)
  | r :: t =>
      let p := (pos + pend + 512)%Z in                            (* discard, then one header block *)
      match r_kind r with
      | KHeaderOnly => (NHdr (r_size r), t, p, 0%Z)               (* handleRegularFile: nb = 0 *)
      | KFile => if (r_size r <? 0)%Z then (NErr, t, p, 0%Z)      (* ErrHeader *)
                 else (NHdr (r_size r), t, p, padded (r_size r))  (* data skipped lazily by the next call *)
      | KExt => if (r_size r <? 0)%Z || (max_special_file_size <? r_size r)%Z then (NErr, t, p, 0%Z)
                else rd_next t (p + r_size r)%Z (padded (r_size r) - r_size r)%Z    (* readSpecialFile; continue *)
      | KGlobal => if (r_size r <? 0)%Z || (max_special_file_size <? r_size r)%Z then (NErr, t, p, 0%Z)
                   else (NHdr 0%Z, t, (p + r_size r)%Z, (padded (r_size r) - r_size r)%Z)
      end
  end.

Inductive rerr := ENone | EEOF | EOther.
(* [s_cur] = hdr.Size of the header the last Next() returned; None: hdr is nil *)
Record sstate := { s_rest : list rawrec; s_pos : Z; s_pend : Z; s_cur : option Z; s_err : rerr; s_env : ienv }.
Inductive flow := Cont (s : sstate) | Brk (s : sstate) | Ret | Pnc.

Definition set_env (s : sstate) (v : string) (z : Z) (e : rerr) : sstate :=
  {| s_rest := s_rest s; s_pos := s_pos s; s_pend := s_pend s; s_cur := s_cur s; s_err := e; s_env := (v, z) :: s_env s |}.

Definition scan_step (op : scan_op) (s : sstate) : flow :=
  match op with
  | OpNext =>
      match rd_next (s_rest s) (s_pos s) (s_pend s) with
      | (res, rest, pos, pend) =>
          Cont {| s_rest := rest; s_pos := pos; s_pend := pend;
                  s_cur := match res with NHdr z => Some z | _ => None end;
                  s_err := match res with NHdr _ => ENone | NEOF => EEOF | NErr => EOther end;
                  s_env := s_env s |}
      end
  | OpBreakEOF => match s_err s with EEOF => Brk s | _ => Cont s end
  | OpReturnErr => match s_err s with ENone => Cont s | _ => Ret end
  | OpPos v => Cont (set_env s v (s_pos s) ENone)          (* Seek on a regular file; overwrites err *)
  | OpSize v => match s_cur s with Some z => Cont (set_env s v z (s_err s)) | None => Pnc end  (* hdr is nil *)
  end.

Fixpoint run_body (ops : list scan_op) (s : sstate) : flow :=
  match ops with
  | [] => Cont s
  | op :: t => match scan_step op s with Cont s' => run_body t s' | f => f end
  end.

Fixpoint scan_loop (fuel : nat) (s : sstate) : res ienv :=
  match fuel with
  | O => OutOfFuel
  | S f => match run_body scan_body s with
           | Cont s' => scan_loop f s'
           | Brk s' => Ok (s_env s')
           | Ret => Err
           | Pnc => Panic
           end
  end.

(* `var lastFileSize, lastStreamPos int64`: both zero (ilookup of an unbound name is 0).
   Without the rewind the reader starts where MultiWrite stopped: at the end of the file. *)
Definition scan_start (rs : list rawrec) : sstate :=
  if scan_rewinds
  then {| s_rest := rs; s_pos := 0; s_pend := 0; s_cur := None; s_err := ENone; s_env := [] |}
  else {| s_rest := []; s_pos := stream_len rs + 1024; s_pend := 0; s_cur := None; s_err := ENone; s_env := [] |}.

(* the offset BuildIndex seeks to before it appends: the scan, then the translated arithmetic *)
Definition scan_offset (rs : list rawrec) : res Z :=
  do env <- scan_loop (S (S (List.length rs))) (scan_start rs);
  Ok (append_offset (ilookup pad_pos_var env) (ilookup pad_size_var env)).

(* the reader's bookkeeping observed from outside: (file offset, hdr.Size) after each
   successful Next() *)
Fixpoint reader_trace_from (fuel : nat) (rs : list rawrec) (pos pend : Z) : list (Z * Z) :=
  match fuel with
  | O => []
  | S f => match rd_next rs pos pend with
           | (NHdr z, rest, p, pe) => (p, z) :: reader_trace_from f rest p pe
           | _ => []
           end
  end.
Definition reader_trace (rs : list rawrec) : list (Z * Z) := reader_trace_from (S (List.length rs)) rs 0 0.

(* ---- architectures -------------------------------------------------------- *)
Definition parse_architecture (s : string) : string :=
  match alookup s parse_arch_table with Some a => a | None => s end.
Definition to_apk (a : string) : string :=
  let a := parse_architecture a in
  match alookup a to_apk_table with Some x => x | None => a end.
(* (Architecture, Variant); OS is the constant oci_platform_os *)
Definition to_oci_platform (a : string) : string * string :=
  let a := parse_architecture a in
  match alookup a oci_platform_table with Some p => p | None => (a, "") end.

(* ---- BuildIndex: which images reach the docker-style part of the bundle ----
   tagsToImages is keyed by "<tag>-<strings.ReplaceAll(Platform.Architecture, "/", "_")>";
   manifests are visited in index order and a later manifest with the same key
   replaces an earlier one (today the key ignores Platform.Variant: finding C12-F1). With no tag at all the map stays empty. *)
Fixpoint replace_slash (s : string) : string :=
  match s with
  | EmptyString => EmptyString
  | String c s' => String (if Ascii.eqb c "/"%char then "_"%char else c) (replace_slash s')
  end.
(* [with_variant] = bundle_key_includes_variant, read from the source on every run *)
Definition bundle_key_with (with_variant : bool) (a : string) : string :=
  let p := to_oci_platform a in
  replace_slash (if with_variant && negb (String.eqb (snd p) "") then (fst p ++ "/" ++ snd p)%string else fst p).
Definition bundle_key (a : string) : string := bundle_key_with bundle_key_includes_variant a.
Fixpoint bundle_included (ntags : nat) (archs : list string) : list bool :=
  match archs with
  | [] => []
  | a :: rest =>
      (negb (Nat.eqb ntags 0) && negb (existsb (String.eqb (bundle_key a)) (List.map bundle_key rest)))
        :: bundle_included ntags rest
  end.

(* ---- Go maps: association lists with distinct keys; "for k, v := range m"
        visits the keys in an order [ord] the caller quantifies over ---------- *)
Definition range_map {V} (m : list (string * V)) (ord : list string) : list (string * V) :=
  flat_map (fun k => match alookup k m with Some v => [(k, v)] | None => [] end) ord.

(* m[k] = v *)
Fixpoint aset {V} (k : string) (v : V) (m : list (string * V)) : list (string * V) :=
  match m with
  | [] => [(k, v)]
  | (k', v') :: m' => if String.eqb k k' then (k, v) :: m' else (k', v') :: aset k v m'
  end.

(* ---- BuildImageFromLayers: environment ------------------------------------
   env := clone(ic.Environment); for k, v := range defaults { if k not in env
   { env[k] = v } }; for k, v := range env { envs += k "=" v }; sort.Strings *)
Definition add_default (env : list (string * string)) (kv : string * string) : list (string * string) :=
  match alookup (fst kv) env with Some _ => env | None => env ++ [kv] end.
Definition with_defaults (defaults : list (string * string)) (dord : list string)
    (env : list (string * string)) : list (string * string) :=
  fold_left add_default (range_map defaults dord) env.
Definition env_entry (kv : string * string) : string := (fst kv ++ "=" ++ snd kv)%string.
Definition render_env (defaults : list (string * string)) (dord : list string)
    (env : list (string * string)) (ord : list string) : list string :=
  isort (fun s => s) (List.map env_entry (range_map (with_defaults defaults dord env) ord)).

(* ---- BuildImageFromLayers: the whole config -------------------------------- *)
Record image_config := {          (* what BuildImageFromLayers reads of types.ImageConfiguration *)
  ic_shell_fragment : string;     (* entrypoint.shell-fragment *)
  ic_command : string;            (* entrypoint.command *)
  ic_cmd : string;
  ic_workdir : string;
  ic_run_as : string;             (* accounts.run-as *)
  ic_stop_signal : string;
  ic_volumes : list string;       (* nil and empty are the same after MergeInto (slices.Concat) *)
  ic_env : list (string * string);
  ic_annotations : list (string * string);
  ic_vcs_url : string }.

Record oci_config := {            (* observable part of v1.ConfigFile *)
  oc_author : string; oc_os : string; oc_architecture : string; oc_variant : string;
  oc_created : Z;                 (* Unix seconds *)
  oc_entrypoint : list string; oc_cmd : list string;
  oc_workdir : string; oc_user : string; oc_stop_signal : string;
  oc_volumes : list string;       (* a set: compared up to order and repetition *)
  oc_env : list string;
  oc_labels : list (string * string) }.

(* key stored by  annotations["<key>"] = <rhs>  for a given right-hand side *)
Fixpoint key_of_store (rhs : string) (stores : list (string * string)) : string :=
  match stores with
  | [] => ""
  | (k, r) :: more => if String.eqb r rhs then k else key_of_store rhs more
  end.
Definition lit_of (field : string) : string :=
  match alookup field config_literals with Some s => s | None => "" end.

Definition nonempty (s : string) : bool := negb (String.eqb s "").

(* BuildImageFromLayers works on a copy made with oic.MergeInto(&ImageConfiguration{}).
   MergeInto carries every field read below EXCEPT VCSUrl, so inside
   BuildImageFromLayers ic.VCSUrl is always "" and the source/revision stores
   are never reached (finding C12-F2). The index generator reads the caller's
   configuration directly and is not affected. *)
Definition erase_vcs (ic : image_config) : image_config :=
  {| ic_shell_fragment := ic_shell_fragment ic; ic_command := ic_command ic; ic_cmd := ic_cmd ic;
     ic_workdir := ic_workdir ic; ic_run_as := ic_run_as ic; ic_stop_signal := ic_stop_signal ic;
     ic_volumes := ic_volumes ic; ic_env := ic_env ic; ic_annotations := ic_annotations ic;
     ic_vcs_url := "" |}.
(* [merge_into_copies_vcs_url] is read from the source on every run: once the
   copy carries VCSUrl the model follows without an edit *)
Definition copy_for_build (ic : image_config) : image_config :=
  if merge_into_copies_vcs_url then ic else erase_vcs ic.

Section Config.
  Variable shlex : string -> option (list string).   (* github.com/google/shlex Split; None = error *)
  Variable rfc3339 : Z -> string.                    (* created.Format(time.RFC3339) *)

  Definition vcs_annotations (stores : list (string * string)) (vcs : string) (created : Z)
      (ann : list (string * string)) : list (string * string) :=
    let ann1 :=
      if nonempty vcs then
        match cut_at vcs_separator vcs with
        | Some (url, hash) => aset (key_of_store "hash" stores) hash (aset (key_of_store "url" stores) url ann)
        | None => ann
        end
      else ann in
    aset (key_of_store "created.Format(time.RFC3339)" stores) (rfc3339 created) ann1.

  Definition split_or (s : string) (dflt : list string) : res (list string) :=
    if nonempty s then match shlex s with Some l => Ok l | None => Err end else Ok dflt.

  (* [base] = config of the base image (empty.Image: all fields empty) *)
  Definition build_config_core (base : oci_config) (ic : image_config) (created : Z) (arch : string)
      (dord eord : list string) : res oci_config :=
    let labels := vcs_annotations image_annotation_stores (ic_vcs_url ic) created (ic_annotations ic) in
    let plat := to_oci_platform arch in
    do ep <- (if nonempty (ic_shell_fragment ic)
              then Ok (shell_entrypoint_prefix ++ [ic_shell_fragment ic])
              else split_or (ic_command ic) (oc_entrypoint base));
    do cmd <- split_or (ic_cmd ic) (oc_cmd base);
    Ok {| oc_author := lit_of "cfg.Author"; oc_os := lit_of "cfg.OS";
          oc_architecture := fst plat; oc_variant := snd plat;
          oc_created := created;
          oc_entrypoint := ep; oc_cmd := cmd;
          oc_workdir := if nonempty (ic_workdir ic) then ic_workdir ic else oc_workdir base;
          oc_user := if nonempty (ic_run_as ic) then ic_run_as ic else oc_user base;
          oc_stop_signal := if nonempty (ic_stop_signal ic) then ic_stop_signal ic else oc_stop_signal base;
          oc_volumes := match ic_volumes ic with [] => oc_volumes base | vs => vs end;
          oc_env := render_env default_env dord (ic_env ic) eord;
          oc_labels := labels |}.

  Definition build_config (base : oci_config) (oic : image_config) (created : Z) (arch : string)
      (dord eord : list string) : res oci_config :=
    build_config_core base (copy_for_build oic) created arch dord eord.
End Config.

Definition empty_config : oci_config :=
  {| oc_author := ""; oc_os := ""; oc_architecture := ""; oc_variant := ""; oc_created := 0%Z;
     oc_entrypoint := []; oc_cmd := []; oc_workdir := ""; oc_user := ""; oc_stop_signal := "";
     oc_volumes := []; oc_env := []; oc_labels := [] |}.

(* ---- generateIndexWithMediaType ---------------------------------------------
   [imgs] : architecture key -> image (abstract descriptor D); the keys are
   collected in map order [ord], sorted by their string, and each manifest gets
   the image's descriptor and that key's platform *)
Record index_entry (D : Type) := { ie_key : string; ie_desc : D; ie_arch : string; ie_variant : string; ie_os : string }.
Arguments ie_key {D}. Arguments ie_desc {D}. Arguments ie_arch {D}. Arguments ie_variant {D}. Arguments ie_os {D}.

Definition generate_index {D} (imgs : list (string * D)) (ord : list string) : list (index_entry D) :=
  List.map (fun kd => let p := to_oci_platform (fst kd) in
                   {| ie_key := fst kd; ie_desc := snd kd; ie_arch := fst p; ie_variant := snd p; ie_os := oci_platform_os |})
           (isort fst (range_map imgs ord)).

(* index annotations (OCI media type only): same three stores as the image *)
Definition index_annotations (rfc3339 : Z -> string) (vcs : string) (created : Z) (ann : list (string * string)) :=
  vcs_annotations rfc3339 index_annotation_stores vcs created ann.
