(* C12 — the whole path from a declared image configuration to the OCI image config, with
   the command-line splitter and the time printers MODELLED (Model/OciShlex.v,
   Model/OciTime.v) instead of assumed:

     build.New                 bc.ic.Validate(): entrypoint.type = service-bundle overwrites
                               entrypoint.command with the s6 supervisor command line
     oci.BuildImageFromLayers  config synthesis (Model/Oci.v build_config), plus
                               cfg.Created = v1.Time{created}, one v1.History entry per
                               layer (all with the same creation time; the comment says
                               "single-layer" only when there is at most one layer - the
                               number of layers is what `layering` decides), on top of the
                               base image's history (contents.baseimage; empty.Image: none)

   Constants come from Generated/C12Oci.v.  No proofs here. *)
From Apko Require Import Base.Prelude Base.C12Lib Generated.C12Oci Model.Oci Model.OciTime Model.OciShlex.
Open Scope string_scope. Open Scope list_scope.

(* what the printers read of a Go time.Time *)
Record go_time := { t_sec : Z; t_nsec : Z; t_off : Z }.
Definition utc_time (sec : Z) : go_time := {| t_sec := sec; t_nsec := 0; t_off := 0 |}.

(* ImageConfiguration.Validate, the part that reaches the image config *)
Definition set_command (ic : image_config) (c : string) : image_config :=
  {| ic_shell_fragment := ic_shell_fragment ic; ic_command := c; ic_cmd := ic_cmd ic;
     ic_workdir := ic_workdir ic; ic_run_as := ic_run_as ic; ic_stop_signal := ic_stop_signal ic;
     ic_volumes := ic_volumes ic; ic_env := ic_env ic; ic_annotations := ic_annotations ic;
     ic_vcs_url := ic_vcs_url ic |}.
Definition validate_ic (etype : string) (ic : image_config) : image_config :=
  if String.eqb etype service_bundle_type then set_command ic service_bundle_command else ic.

(* v1.History as serialised: created = time.Time.MarshalJSON, None = cannot be marshalled *)
Record history_entry := { h_author : string; h_created_by : string; h_comment : string; h_created : option string }.

Definition hist_lit (field : string) : string :=
  match alookup field history_literals with Some s => s | None => "" end.
Definition layer_comment (nlayers : nat) : string :=
  if Nat.ltb history_multi_layer_threshold nlayers then history_multi_layer_comment else history_single_layer_comment.
Definition layer_history (nlayers : nat) (t : go_time) : list history_entry :=
  List.repeat {| h_author := hist_lit "Author"; h_created_by := hist_lit "CreatedBy";
                 h_comment := layer_comment nlayers;
                 h_created := go_marshal_time (t_sec t) (t_nsec t) (t_off t) |} nlayers.

Record image_out := {
  io_config : oci_config;
  io_created : option string;            (* the config's "created"; None: the config cannot be serialised *)
  io_history : list history_entry }.

(* [validated]: the configuration went through build.New (the CLI path) before
   BuildImageFromLayers; [etype] = entrypoint.type; [base_history] = history of the base image *)
Definition build_image (validated : bool) (etype : string) (base : oci_config) (base_history : list history_entry)
    (ic : image_config) (t : go_time) (arch : string) (nlayers : nat) (dord eord : list string) : res image_out :=
  let ic' := if validated then validate_ic etype ic else ic in
  let created := go_marshal_time (t_sec t) (t_nsec t) (t_off t) in
  (* cfg, err := v1Image.ConfigFile() right after mutate.Append: go-containerregistry computes the
     appended image there, which marshals the config with the new history entries - a creation
     time MarshalJSON refuses makes BuildImageFromLayers fail ("unable to get oci config file").
     With no layer at all mutate.Append returns the base image unchanged, nothing is marshalled,
     and the failure is deferred to the first use of the built image (io_created = None). *)
  match created, nlayers with
  | None, S _ => Err
  | _, _ =>
      do cfg <- build_config shlex_split (fun sec => go_format_rfc3339 sec (t_off t)) base ic' (t_sec t) arch dord eord;
      Ok {| io_config := cfg; io_created := created; io_history := base_history ++ layer_history nlayers t |}
  end.
