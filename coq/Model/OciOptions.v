(* C12 — the option layer in front of the image configuration (pkg/build/options.go):
   the build.Options that feed something the emitted artifacts must mirror.

     WithAnnotations(cl)      --annotations: merged INTO the configuration's annotations; the
                              direction of the copy is read from the source by goextract
                              (annotations_cmdline_wins); applied once per NewOptions /
                              LockImageConfiguration / build.New, i.e. several times per build
     WithBuildDate(s)         --build-date: "" = the epoch, else time.Parse(RFC3339, s)
     WithSourceDateEpoch(t)   the time itself
     build.New                SOURCE_DATE_EPOCH in the environment overrides both
     WithVCS(b)               only records the flag; the configured vcs-url is not touched

   No proofs here. *)
From Apko Require Import Base.Prelude Base.C12Lib Generated.C12Oci Model.Oci Spec.OciTimeSpec.
Open Scope string_scope. Open Scope list_scope.

Definition aset_pair (m : list (string * string)) (kv : string * string) := aset (fst kv) (snd kv) m.

(* one application; [ord] = the order in which Go ranges over the command-line map.
   A nil map and an empty map are the same thing here (the option allocates). *)
Definition with_annotations_dir (cmdline_wins : bool) (cfg cl : list (string * string)) (ord : list string)
    : list (string * string) :=
  if cmdline_wins then fold_left aset_pair (range_map cl ord) cfg       (* for k, v := range cl { cfg[k] = v } *)
  else fold_left aset_pair cfg cl.                                     (* the copy the other way round: clone(cl), then cfg over it *)
Definition with_annotations := with_annotations_dir annotations_cmdline_wins.

(* the option applied n times over the same command line *)
Fixpoint with_annotations_n (n : nat) (cfg cl : list (string * string)) (ord : list string) : list (string * string) :=
  match n with O => cfg | S k => with_annotations (with_annotations_n k cfg cl ord) cl ord end.

Definition set_annotations (ic : image_config) (a : list (string * string)) : image_config :=
  {| ic_shell_fragment := ic_shell_fragment ic; ic_command := ic_command ic; ic_cmd := ic_cmd ic;
     ic_workdir := ic_workdir ic; ic_run_as := ic_run_as ic; ic_stop_signal := ic_stop_signal ic;
     ic_volumes := ic_volumes ic; ic_env := ic_env ic; ic_annotations := a; ic_vcs_url := ic_vcs_url ic |}.

(* ---- the creation time declared by the options ----------------------------------------- *)
Inductive date_opt :=
| DEmpty                 (* WithBuildDate("") *)
| DText (s : string)     (* WithBuildDate(s): here for texts of the UTC shape; anything time.Parse rejects = error *)
| DEpoch (sec : Z).      (* WithSourceDateEpoch(time.Unix(sec, 0).UTC()) *)

Definition apply_date (cur : res Z) (d : date_opt) : res Z :=
  do _ <- cur;
  match d with
  | DEmpty => Ok 0%Z
  | DText s => match parse_rfc3339 s with Some z => Ok z | None => Err end
  | DEpoch z => Ok z
  end.
(* options.Default.SourceDateEpoch = time.Unix(0, 0).UTC(); options in order; then the environment *)
Definition declared_date (ds : list date_opt) (env : option Z) : res Z :=
  do z <- fold_left apply_date ds (Ok 0%Z);
  Ok (match env with Some e => e | None => z end).

(* ---- SOURCE_DATE_EPOCH as build.New reads it ------------------------------------------------
     if v, ok := os.LookupEnv("SOURCE_DATE_EPOCH"); ok && len(strings.TrimSpace(v)) != 0 {
         sec, err := strconv.ParseInt(v, 10, 64)      // of v itself, NOT of the trimmed text
         if err != nil { return nil, … }
         bc.o.SourceDateEpoch = time.Unix(sec, 0).UTC() }
   A value made of white space only is ignored; anything else must be a base-10 int64 with an
   optional sign and nothing around it (so " 5" fails the build). *)
(* strings.TrimSpace leaves nothing: only Unicode White_Space runes, here in UTF-8 *)
Fixpoint all_space (s : string) : bool :=
  match s with
  | EmptyString => true
  | String c r =>
      let b := N_of_ascii c in
      if ((9 <=? b) && (b <=? 13) || (b =? 32))%N then all_space r               (* \t \n \v \f \r, blank *)
      else match r with
           | String c1 r1 =>
               let b1 := N_of_ascii c1 in
               if ((b =? 194) && ((b1 =? 133) || (b1 =? 160)))%N then all_space r1            (* U+0085, U+00A0 *)
               else match r1 with
                    | String c2 r2 =>
                        let b2 := N_of_ascii c2 in
                        if ((b =? 225) && (b1 =? 154) && (b2 =? 128)                         (* U+1680 *)
                            || (b =? 226) && (b1 =? 128) && ((128 <=? b2) && (b2 <=? 138)     (* U+2000..200A *)
                                                             || (b2 =? 168) || (b2 =? 169) || (b2 =? 175)) (* U+2028/9, 202F *)
                            || (b =? 226) && (b1 =? 129) && (b2 =? 159)                       (* U+205F *)
                            || (b =? 227) && (b1 =? 128) && (b2 =? 128))%N                    (* U+3000 *)
                        then all_space r2 else false
                    | EmptyString => false
                    end
           | EmptyString => false
           end
  end.

(* value of a non-empty string of ASCII digits, most significant first *)
Definition is_dec_digit (c : ascii) : bool := let n := N_of_ascii c in (48 <=? n)%N && (n <=? 57)%N.
Definition dec_value (u : string) : Z :=
  fold_left (fun acc c => (10 * acc + (Z.of_N (N_of_ascii c) - 48))%Z) (list_ascii_of_string u) 0%Z.
Definition all_digits (u : string) : bool :=
  match u with EmptyString => false | _ => forallb is_dec_digit (list_ascii_of_string u) end.
Definition int64_min : Z := (- 9223372036854775808)%Z.
Definition int64_max : Z := 9223372036854775807%Z.
(* strconv.ParseInt(s, 10, 64): None = error (syntax or range) *)
Definition parse_int64 (s : string) : option Z :=
  let '(neg, u) := match s with
                   | String c r => if Ascii.eqb c "-" then (true, r) else if Ascii.eqb c "+" then (false, r) else (false, s)
                   | EmptyString => (false, s)
                   end in
  if all_digits u then
    let z := if neg then (- dec_value u)%Z else dec_value u in
    if (int64_min <=? z)%Z && (z <=? int64_max)%Z then Some z else None
  else None.

(* the creation time declared by the options and the environment as build.New sees them *)
Definition declared_date_env (ds : list date_opt) (env : option string) : res Z :=
  do z <- fold_left apply_date ds (Ok 0%Z);
  match env with
  | None => Ok z
  | Some v => if all_space v then Ok z
              else match parse_int64 v with Some e => Ok e | None => Err end
  end.
