(* C12 — the option layer in front of the image configuration (pkg/build/options.go):
   the build.Options that feed something the emitted artifacts must mirror.

     WithAnnotations(cl)      --annotations: merged INTO the configuration's annotations; the
                              direction of the copy is read from the source by goextract
                              (annotations_cmdline_wins); applied once per NewOptions /
                              LockImageConfiguration / build.New, i.e. several times per build
     WithBuildDate(s)         --build-date: "" = the epoch, else time.Parse(RFC3339, s)
     WithSourceDateEpoch(t)   the time itself
     build.New                SOURCE_DATE_EPOCH in the environment overrides both
     WithVCS(b)               only records the flag; the configured vcs-url is not touched

   No proofs here. *)
From Apko Require Import Base.Prelude Base.C12Lib Generated.C12Oci Model.Oci Spec.OciTimeSpec.
Open Scope string_scope. Open Scope list_scope.

Definition aset_pair (m : list (string * string)) (kv : string * string) := aset (fst kv) (snd kv) m.

(* one application; [ord] = the order in which Go ranges over the command-line map.
   A nil map and an empty map are the same thing here (the option allocates). *)
Definition with_annotations_dir (cmdline_wins : bool) (cfg cl : list (string * string)) (ord : list string)
    : list (string * string) :=
  if cmdline_wins then fold_left aset_pair (range_map cl ord) cfg       (* for k, v := range cl { cfg[k] = v } *)
  else fold_left aset_pair cfg cl.                                     (* the copy the other way round: clone(cl), then cfg over it *)
Definition with_annotations := with_annotations_dir annotations_cmdline_wins.

(* the option applied n times over the same command line *)
Fixpoint with_annotations_n (n : nat) (cfg cl : list (string * string)) (ord : list string) : list (string * string) :=
  match n with O => cfg | S k => with_annotations (with_annotations_n k cfg cl ord) cl ord end.

Definition set_annotations (ic : image_config) (a : list (string * string)) : image_config :=
  {| ic_shell_fragment := ic_shell_fragment ic; ic_command := ic_command ic; ic_cmd := ic_cmd ic;
     ic_workdir := ic_workdir ic; ic_run_as := ic_run_as ic; ic_stop_signal := ic_stop_signal ic;
     ic_volumes := ic_volumes ic; ic_env := ic_env ic; ic_annotations := a; ic_vcs_url := ic_vcs_url ic |}.

(* ---- the creation time declared by the options ----------------------------------------- *)
Inductive date_opt :=
| DEmpty                 (* WithBuildDate("") *)
| DText (s : string)     (* WithBuildDate(s): here for texts of the UTC shape; anything time.Parse rejects = error *)
| DEpoch (sec : Z).      (* WithSourceDateEpoch(time.Unix(sec, 0).UTC()) *)

Definition apply_date (cur : res Z) (d : date_opt) : res Z :=
  do _ <- cur;
  match d with
  | DEmpty => Ok 0%Z
  | DText s => match parse_rfc3339 s with Some z => Ok z | None => Err end
  | DEpoch z => Ok z
  end.
(* options.Default.SourceDateEpoch = time.Unix(0, 0).UTC(); options in order; then the environment *)
Definition declared_date (ds : list date_opt) (env : option Z) : res Z :=
  do z <- fold_left apply_date ds (Ok 0%Z);
  Ok (match env with Some e => e | None => z end).
