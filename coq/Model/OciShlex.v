(* C12 — executable model of github.com/google/shlex Split (v0.0.0-20191202100458-e7afc7fbc510,
   the version in go.mod), which BuildImageFromLayers applies to entrypoint.command and cmd:

       splitcmd, err := shlex.Split(ic.Entrypoint.Command)     // error => BuildImageFromLayers fails
       cfg.Config.Entrypoint = splitcmd

   Split = a Lexer over a bufio.Reader: the tokenizer state machine scanStream (seven
   states; rune classes: space = blank, tab, CR, LF; escaping quote = the double quote;
   non-escaping quote = the single quote; escape = the backslash; comment = the hash sign) is run once per token; comment tokens are skipped.  The model runs the same
   machine in one pass over the string.  The tokenizer reads RUNES (bufio.Reader.ReadRune)
   and re-encodes them (string([]rune)): every byte that is not part of a valid UTF-8
   sequence becomes U+FFFD (EF BF BD); all classified runes are ASCII, so the machine
   itself can run on the bytes of the sanitised string.  No proofs here. *)
From Apko Require Import Base.Prelude.
Open Scope string_scope. Open Scope list_scope.

(* ---- utf8.DecodeRune followed by utf8.AppendRune, byte-wise ----------------------------- *)
Definition in_range (lo hi b : N) : bool := (lo <=? b)%N && (b <=? hi)%N.
Definition cont (b : N) : bool := in_range 128 191 b.             (* 80..BF *)

(* length of the valid UTF-8 sequence that starts with byte [c] followed by [r]; 0 = none
   (unicode/utf8's first[] / acceptRanges tables: no overlong forms, no surrogates,
   nothing above U+10FFFF, no truncated sequence) *)
Definition utf8_len (c : ascii) (r : string) : nat :=
  let b0 := N_of_ascii c in
  let byte (k : nat) := match String.get k r with Some x => N_of_ascii x | None => 0%N end in
  if (b0 <? 128)%N then 1
  else if in_range 194 223 b0 then (if cont (byte 0%nat) then 2 else 0)                       (* C2..DF *)
  else if in_range 224 239 b0 then                                                          (* E0..EF *)
    let lo := if (b0 =? 224)%N then 160%N else 128%N in
    let hi := if (b0 =? 237)%N then 159%N else 191%N in
    (if in_range lo hi (byte 0%nat) && cont (byte 1%nat) then 3 else 0)
  else if in_range 240 244 b0 then                                                          (* F0..F4 *)
    let lo := if (b0 =? 240)%N then 144%N else 128%N in
    let hi := if (b0 =? 244)%N then 143%N else 191%N in
    (if in_range lo hi (byte 0%nat) && cont (byte 1%nat) && cont (byte 2%nat) then 4 else 0)
  else 0.

Definition replacement : string := String (ascii_of_N 239) (String (ascii_of_N 191) (String (ascii_of_N 189) "")).

(* [skip] = bytes of the current valid sequence still to be copied *)
Fixpoint sanitize_aux (skip : nat) (s : string) : string :=
  match s with
  | EmptyString => EmptyString
  | String c r =>
      match skip with
      | S k => String c (sanitize_aux k r)
      | O => match utf8_len c r with
             | O => (replacement ++ sanitize_aux 0 r)%string
             | S k => String c (sanitize_aux k r)
             end
      end
  end.
Definition utf8_sanitize (s : string) : string := sanitize_aux 0 s.

(* ---- the tokenizer ------------------------------------------------------------------------ *)
Definition is_space (c : ascii) : bool :=                      (* spaceRunes: blank, \t, \r, \n *)
  let n := N_of_ascii c in (n =? 32)%N || (n =? 9)%N || (n =? 13)%N || (n =? 10)%N.
Definition is_dquote (c : ascii) : bool := (N_of_ascii c =? 34)%N.      (* escapingQuoteRunes: double quote *)
Definition is_squote (c : ascii) : bool := (N_of_ascii c =? 39)%N.      (* nonEscapingQuoteRunes: single quote *)
Definition is_escape (c : ascii) : bool := (N_of_ascii c =? 92)%N.      (* escapeRunes: backslash *)
Definition is_comment (c : ascii) : bool := (N_of_ascii c =? 35)%N.     (* commentRunes: hash *)
Definition is_newline (c : ascii) : bool := (N_of_ascii c =? 10)%N.

Inductive lstate :=
| SStart        (* startState: no runes have been seen *)
| SWord         (* inWordState *)
| SEsc          (* escapingState: the rune after a backslash outside quotes *)
| SEscQ         (* escapingQuotedState: the rune after a backslash inside double quotes *)
| SDq           (* quotingEscapingState: inside double quotes *)
| SSq           (* quotingState: inside single quotes *)
| SComment.     (* commentState: after an unquoted # at the start of a token, up to \n *)

Definition word_of (cur : list ascii) : string := string_of_list_ascii (List.rev cur).

(* [cur]: the runes of the current token, last first; [acc]: the words so far, last first.
   None = Split returns an error (EOF found when expecting closing quote /
   EOF found after escape character). *)
Fixpoint lex (st : lstate) (cur : list ascii) (acc : list string) (s : string) : option (list string) :=
  match s with
  | EmptyString =>
      match st with
      | SStart | SComment => Some (List.rev acc)
      | SWord => Some (List.rev (word_of cur :: acc))
      | SEsc | SEscQ | SDq | SSq => None
      end
  | String c r =>
      match st with
      | SStart =>
          if is_space c then lex SStart [] acc r
          else if is_dquote c then lex SDq [] acc r
          else if is_squote c then lex SSq [] acc r
          else if is_escape c then lex SEsc [] acc r
          else if is_comment c then lex SComment [] acc r
          else lex SWord [c] acc r
      | SWord =>
          if is_space c then lex SStart [] (word_of cur :: acc) r
          else if is_dquote c then lex SDq cur acc r
          else if is_squote c then lex SSq cur acc r
          else if is_escape c then lex SEsc cur acc r
          else lex SWord (c :: cur) acc r                      (* a # inside a word is an ordinary rune *)
      | SEsc => lex SWord (c :: cur) acc r
      | SEscQ => lex SDq (c :: cur) acc r
      | SDq =>
          if is_dquote c then lex SWord cur acc r
          else if is_escape c then lex SEscQ cur acc r
          else lex SDq (c :: cur) acc r
      | SSq => if is_squote c then lex SWord cur acc r else lex SSq (c :: cur) acc r
      | SComment => if is_newline c then lex SStart [] acc r else lex SComment cur acc r
      end
  end.

(* the machine on bytes, and shlex.Split on a Go string *)
Definition lex_split (u : string) : option (list string) := lex SStart [] [] u.
Definition shlex_split (s : string) : option (list string) := lex_split (utf8_sanitize s).
