(* C12 — executable model of the creation-time path of the OCI emitters.

   pkg/build/build.go New:       SOURCE_DATE_EPOCH -> strconv.ParseInt -> time.Unix(sec, 0).UTC()
   pkg/build/options.go:         WithBuildDate("") -> time.Unix(0, 0).UTC(); WithBuildDate(s) -> time.Parse(RFC3339, s)
                                 (a time with a fixed zone offset and possibly a sub-second part)
   pkg/build/build.go GetBuildDateEpoch: the maximum of that and the installed packages' build times
   pkg/build/oci/image.go BuildImageFromLayers(…, created, …):
        annotations["org.opencontainers.image.created"] = created.Format(time.RFC3339)      (label + manifest annotation)
        cfg.Created = v1.Time{created}; History[i].Created = v1.Time{created}               (time.Time.MarshalJSON)

   A Go time is modelled by what these two printers read of it: Unix seconds [sec]
   (unbounded Z here; Go: int64), nanoseconds [nsec] in [0, 1e9) and the zone offset
   [off] in seconds east of UTC (0 for .UTC()).  The printers are Go 1.23's
   time.Time.appendFormatRFC3339 / appendStrictRFC3339 / appendInt / appendNano; the
   calendar is the proleptic Gregorian one (time.absDate computes the same function
   by another route: compared in the harness, stage "time").  No proofs here. *)
From Apko Require Import Base.Prelude.
Open Scope string_scope. Local Open Scope Z_scope.

(* ---- days since 1970-01-01 -> (year, month, day), for every integer ------------------
   "civil_from_days": shift the epoch to 0000-03-01, split into 400-year eras of
   146097 days, year of era, day of the March-based year, month (March = 0). *)
Definition civil_from_days (z : Z) : Z * Z * Z :=
  let z0 := z + 719468 in
  let era := z0 / 146097 in
  let doe := z0 mod 146097 in
  let yoe := (doe - doe / 1460 + doe / 36524 - doe / 146096) / 365 in
  let doy := doe - (365 * yoe + yoe / 4 - yoe / 100) in
  let mp := (5 * doy + 2) / 153 in
  let d := doy - (153 * mp + 2) / 5 + 1 in
  let m := if mp <? 10 then mp + 3 else mp - 9 in
  let y := yoe + era * 400 + (if m <=? 2 then 1 else 0) in
  (y, m, d).

(* the inverse: (year, month, day) -> days since 1970-01-01 *)
Definition days_from_civil (y m d : Z) : Z :=
  let y' := if m <=? 2 then y - 1 else y in
  let era := y' / 400 in
  let yoe := y' mod 400 in
  let mp := if m <=? 2 then m + 9 else m - 3 in
  let doy := (153 * mp + 2) / 5 + d - 1 in
  let doe := yoe * 365 + yoe / 4 - yoe / 100 + doy in
  era * 146097 + doe - 719468.

(* ---- time.appendInt ------------------------------------------------------------------ *)
Definition digit (n : Z) : ascii := ascii_of_N (48 + Z.to_N (n mod 10)).
(* decimal digits of u >= 0, most significant first ("0" for 0) *)
Fixpoint dec_aux (fuel : nat) (u : Z) (acc : string) : string :=
  match fuel with
  | O => acc
  | S f => let acc' := String (digit u) acc in
           if u <? 10 then acc' else dec_aux f (u / 10) acc'
  end.
Definition dec (u : Z) : string := dec_aux (S (Z.to_nat (Z.log2 u))) u "".
Fixpoint zeros (n : nat) : string := match n with O => "" | S k => String "0" (zeros k) end.

(* appendInt(b, x, width): sign, then the digits zero-padded to [width]; the two
   fast paths of the Go code are written out *)
Definition go_append_int (x : Z) (width : Z) : string :=
  let u := Z.abs x in
  (if x <? 0 then "-" else "") ++
  (if (width =? 2) && (u <? 100) then String (digit (u / 10)) (String (digit u) "")
   else if (width =? 4) && (u <? 10000)
        then String (digit (u / 1000)) (String (digit (u / 100)) (String (digit (u / 10)) (String (digit u) "")))
        else let ds := dec u in zeros (Z.to_nat (width - Z.of_nat (String.length ds))) ++ ds).

(* ---- time.appendNano with the layout ".999999999": trailing zeros trimmed, nothing
        at all for a whole second ---------------------------------------------------- *)
Fixpoint trim_zeros_rev (l : list ascii) : list ascii :=
  match l with
  | c :: l' => if Ascii.eqb c "0"%char then trim_zeros_rev l' else l
  | [] => []
  end.
Definition nine_digits (n : Z) : list ascii :=
  List.map (fun k => digit (n / k)) [100000000; 10000000; 1000000; 100000; 10000; 1000; 100; 10; 1].
Definition frac_nano (nsec : Z) : string :=
  match trim_zeros_rev (List.rev (nine_digits nsec)) with
  | [] => ""
  | l => String "." (string_of_list_ascii (List.rev l))
  end.

(* ---- Time.appendFormatRFC3339(b, nanos) ---------------------------------------------- *)
Definition zone_minutes (off : Z) : Z := Z.quot off 60.     (* Go's offset / 60: truncated *)
Definition fmt_zone (off : Z) : string :=
  if off =? 0 then "Z"
  else let zone := zone_minutes off in
       (if zone <? 0 then "-" else "+") ++ go_append_int (Z.abs zone / 60) 2 ++ ":" ++ go_append_int (Z.abs zone mod 60) 2.

Definition wall_year (sec off : Z) : Z := fst (fst (civil_from_days ((sec + off) / 86400))).

Definition fmt_date_time (sec off : Z) : string :=
  let abs := sec + off in                       (* t.locabs(): seconds of the wall clock *)
  let '(y, m, d) := civil_from_days (abs / 86400) in
  let r := abs mod 86400 in
  go_append_int y 4 ++ "-" ++ go_append_int m 2 ++ "-" ++ go_append_int d 2 ++ "T" ++
  go_append_int (r / 3600) 2 ++ ":" ++ go_append_int (r mod 3600 / 60) 2 ++ ":" ++ go_append_int (r mod 60) 2.

(* created.Format(time.RFC3339): never fails; the sub-second part is dropped *)
Definition go_format_rfc3339 (sec off : Z) : string := fmt_date_time sec off ++ fmt_zone off.
(* the creation time of a build under SOURCE_DATE_EPOCH / the default: time.Unix(sec, 0).UTC() *)
Definition format_rfc3339 (sec : Z) : string := go_format_rfc3339 sec 0.

(* time.Time.MarshalJSON (the string between the quotes): RFC3339 with nanoseconds,
   and an ERROR (None) when the year is not exactly four digits wide, i.e. outside
   [0, 9999], or the zone is 24 hours or more off UTC.  v1.ConfigFile.Created and
   every History.Created go through it: with None the image config cannot be
   serialised — BuildImageFromLayers itself succeeds (the config is marshalled
   lazily), every later RawConfigFile / Digest / write of the image fails. *)
Definition go_marshal_time (sec nsec off : Z) : option string :=
  let y := wall_year sec off in
  if (0 <=? y) && (y <=? 9999) && ((off =? 0) || (Z.abs (zone_minutes off) / 60 <? 24))
  then Some (fmt_date_time sec off ++ frac_nano nsec ++ fmt_zone off)
  else None.

(* the range of second counts whose UTC year is in [0, 9999] *)
Definition rfc3339_min : Z := -62167219200.      (* 0000-01-01T00:00:00Z *)
Definition rfc3339_max : Z := 253402300799.      (* 9999-12-31T23:59:59Z *)
