(* C15 — the places where apko's readers of untrusted input index or slice,
   written with the checked primitives of Base/C16Lib ([Panic] = a Go run-time
   panic). The line-oriented readers themselves (ParsePackageIndex,
   ParseInstalled, parseInstalledPerms, UserFile.Load, GroupFile.Load) are the
   ones of Model/Formats.v. No proofs in this file. *)
From Apko Require Export Base.Prelude Base.C16Lib Base.Regex Generated.Regexes Generated.FieldLetters Model.Formats.
Open Scope string_scope. Open Scope list_scope.

(* regexp: FindAllStringSubmatch returns vectors of 1 + NumSubexp strings *)
Fixpoint max_group (r : re) : nat :=
  match r with
  | Cat a b | Alt a b => Nat.max (max_group a) (max_group b)
  | Star a | Plus a | Opt a => max_group a
  | Grp n a => Nat.max n (max_group a)
  | _ => O
  end.
Definition submatch_len (r : re) : nat := S (max_group r).
(* v[i] on a vector of length len *)
Definition vidx (len i : nat) : res unit := if (i <? len)%nat then Ok tt else Panic.

(* version.go ParseVersion: [matched] = the regex matched, [letter_len] = len(actuals[4]).
   What is computed from the fields cannot panic (strconv, switch on strings). *)
Definition parse_version_skel (matched : bool) (letter_len : nat) : res unit :=
  if negb matched then Err else
  let n := submatch_len version_regex in
  if negb (n =? 14)%nat then Err else
  do _ <- vidx n 1; do _ <- vidx n 2; do _ <- vidx n 4;
  do _ <- (if (0 <? letter_len)%nat then vidx letter_len 0 else Ok tt);
  do _ <- vidx n 6; do _ <- vidx n 7; do _ <- vidx n 9; do _ <- vidx n 10; do _ <- vidx n 13;
  Ok tt.

(* version.go ResolvePackageNameVersionPin: only len(parts[0]) < 2 is tested
   before parts[0][1], [4], [6], [3] are read *)
Definition resolve_pin_skel (matched : bool) : res unit :=
  if negb matched then Ok tt else
  let n := submatch_len package_name_regex in
  if (n <? 2)%nat then Ok tt else
  do _ <- vidx n 1; do _ <- vidx n 4; do _ <- vidx n 6; do _ <- vidx n 3; Ok tt.

(* install.go installAPKFiles / the lazy variant, after fix 6e06851:
   !startedDataSection && strings.HasPrefix(header.Name, ".") && !strings.Contains(header.Name, "/")
   (before the fix: header.Name[0] == '.', a panic on an entry with an empty name) *)
Definition install_hidden_test (started : bool) (name : string) : res bool :=
  if started then Ok false else Ok (has_prefix "." name && negb (has_char "/" name)).

(* fs/rwosfs.go standardizePath, after fix 5614ee6: strings.TrimPrefix(p, "/")
   (before the fix: p[0] on the empty path) *)
Definition standardize_path (p : string) : res string :=
  Ok (if has_prefix "/" p then sdrop 1 p else p).

(* implementation.go cachedPackage: HasPrefix(chk, "Q1") then chk[2:] *)
Definition cached_package_slice (chk : string) : res string :=
  if negb (has_prefix "Q1" chk) then Err else gslice_from chk 2.

(* build/layers.go, after fix d47e591: buildLayers rejects a negative budget and
   groupByOriginAndSize sizes its slice by len(byOrigin), no longer by the budget
   (before the fix: make([]*group, 0, budget) panicked on a negative or huge budget
   taken unvalidated from the image configuration) *)
Definition make_groups (budget : Z) : res unit :=
  if (budget <? 0)%Z then Err else Ok tt.

(* outcome classes compared with the implementation *)
Inductive rclass := CkOk | CkErr | CkPanic | CkHang.
Definition class_of {A} (r : res A) : rclass :=
  match r with Ok _ => CkOk | Err => CkErr | Panic => CkPanic | OutOfFuel => CkHang end.

(* ======================================================================== *)
(* Session 3: more readers of untrusted input inside the model. Everything   *)
(* below is new; nothing above was changed.                                  *)
From Apko Require Export Generated.C15Sites.

(* l[i] for a Go int i: negative or beyond the end = panic *)
Definition lidx {A} (l : list A) (i : Z) : res A :=
  if (i <? 0)%Z then Panic
  else match nth_error l (Z.to_nat i) with Some x => Ok x | None => Panic end.
(* the bounds test of v[i] alone, on a slice of length len *)
Definition zidx (len i : Z) : res unit := if ((0 <=? i) && (i <? len))%Z then Ok tt else Panic.
(* a literal that must be one byte (separator / cutset read from the source) *)
Definition only_char (s : string) (dflt : ascii) : ascii :=
  match s with String c EmptyString => c | _ => dflt end.

(* ---- strings.Cut, strings.Trim (one-byte separator / cutset) ------------------ *)
Fixpoint cut_char (c : ascii) (s : string) : option (string * string) :=
  match s with
  | EmptyString => None
  | String a s' =>
      if Ascii.eqb a c then Some (EmptyString, s')
      else match cut_char c s' with Some (b, r) => Some (String a b, r) | None => None end
  end.
Fixpoint trim_left_char (c : ascii) (s : string) : string :=
  match s with String a s' => if Ascii.eqb a c then trim_left_char c s' else s | EmptyString => EmptyString end.
Fixpoint trim_right_char (c : ascii) (s : string) : string :=
  match s with
  | EmptyString => EmptyString
  | String a s' => match trim_right_char c s' with
                   | EmptyString => if Ascii.eqb a c then EmptyString else String a EmptyString
                   | r => String a r
                   end
  end.
Definition trim_char (c : ascii) (s : string) : string := trim_right_char c (trim_left_char c s).

(* ---- build/sbom.go readReleaseData ------------------------------------------------
   bufio.Scanner with its default token limit (the source never calls Buffer);
   empty lines and lines starting with "#" are skipped; a line without "=" is an
   error; kv[before] = strings.Trim(after, <one double quote>); scanner.Err() is looked at. *)
Record release := mkRel { rl_id : string; rl_name : string; rl_pretty : string; rl_version : string }.
Definition kvget (k : string) (kv : list (string * string)) : string :=
  match alookup k kv with Some v => v | None => "" end.
Fixpoint release_lines (ls : list string) (kv : list (string * string)) : res (list (string * string)) :=
  match ls with
  | [] => Ok kv
  | l :: ls' =>
      if l =? "" then release_lines ls' kv
      else if has_prefix release_comment_prefix l then release_lines ls' kv
      else match cut_char (only_char release_cut_sep "=") l with
           | None => Err
           | Some (b, a) => release_lines ls' (aset b (trim_char (only_char release_trim_cutset """") a) kv)
           end
  end.
(* the token limit: bufio.MaxScanTokenSize unless the source calls Buffer (then the
   model does not know it: 0 makes every comparison with the implementation fail) *)
Definition release_max_token : N := if release_sets_scanner_buffer then 0%N else default_max_token.
Definition read_release_max (max : N) (s : string) : res release :=
  let '(lines, toolong) := scan_lines max s in
  do kv <- release_lines lines [];
  if toolong && release_checks_scanner_err then Err
  else Ok (mkRel (kvget "ID" kv) (kvget "NAME" kv) (kvget "PRETTY_NAME" kv) (kvget "VERSION_ID" kv)).
Definition read_release : string -> res release := read_release_max release_max_token.

(* ---- strings.Fields on arbitrary bytes ---------------------------------------------
   unicode.IsSpace over the UTF-8 decoding of the string: the ASCII spaces, U+0085,
   U+00A0, U+1680, U+2000..U+200A, U+2028, U+2029, U+202F, U+205F, U+3000. An
   invalid byte decodes to U+FFFD, which is no space; the encodings below start with
   a lead byte, so they can only begin where Go's decoder begins a rune.
   [space_len s] = number of bytes of the white-space rune at the head of s (0: none). *)
Definition byte_at (s : string) (i : nat) : N :=
  match String.get i s with Some c => N_of_ascii c | None => 256%N end.
Definition space_len (s : string) : nat :=
  let b0 := byte_at s 0 in let b1 := byte_at s 1 in let b2 := byte_at s 2 in
  if (((9 <=? b0) && (b0 <=? 13)) || (b0 =? 32))%N then 1
  else if ((b0 =? 194) && ((b1 =? 133) || (b1 =? 160)))%N then 2
  else if ((b0 =? 225) && (b1 =? 154) && (b2 =? 128))%N then 3
  else if ((b0 =? 226) && (b1 =? 128) && (((128 <=? b2) && (b2 <=? 138)) || (b2 =? 168) || (b2 =? 169) || (b2 =? 175)))%N then 3
  else if ((b0 =? 226) && (b1 =? 129) && (b2 =? 159))%N then 3
  else if ((b0 =? 227) && (b1 =? 128) && (b2 =? 128))%N then 3
  else 0.
(* which bytes belong to a white-space rune; [skip] = bytes of the current one still to mark *)
Fixpoint space_mask (s : string) (skip : nat) : list bool :=
  match s with
  | EmptyString => []
  | String _ s' =>
      match skip with
      | S k => true :: space_mask s' k
      | O => match space_len s with
             | O => false :: space_mask s' O
             | S k => true :: space_mask s' k
             end
      end
  end.
(* the maximal runs of unmarked bytes *)
Fixpoint fields_mask (s : string) (m : list bool) : list string :=
  match s, m with
  | String c s', false :: m' =>
      match s', m' with
      | String _ _, false :: _ =>
          match fields_mask s' m' with
          | f :: fs => String c f :: fs
          | [] => [String c EmptyString]
          end
      | _, _ => String c EmptyString :: fields_mask s' m'
      end
  | String _ s', _ :: m' => fields_mask s' m'
  | _, _ => []
  end.
Definition go_fields (s : string) : list string := fields_mask s (space_mask s 0).

(* ---- apk/index.go GetRepositoryIndexes: "@tag url" lines ------------------------------
   if strings.HasPrefix(repo, "@") { parts := strings.Fields(repo); if len(parts) < 2 { error };
   repoName = parts[0][1:]; repoURL = parts[1] }  -- result: (name, url) *)
Definition repo_line (repo : string) : res (string * string) :=
  if has_prefix repo_line_pin_prefix repo then
    let parts := go_fields repo in
    if (List.length parts <? 2)%nat then Err else
    do p0 <- lidx parts 0;
    do nm <- gslice_from p0 1;
    do u <- lidx parts 1;
    Ok (nm, u)
  else Ok ("", repo).

(* ---- build/lock.go unify: the constraint splitter ---------------------------------------
   strings.IndexAny with ASCII sets is a byte search. *)
Fixpoint index_any (chars s : string) : option nat :=
  match s with
  | EmptyString => None
  | String c s' =>
      if has_char c chars then Some O
      else match index_any chars s' with Some i => Some (S i) | None => None end
  end.
Definition has_suffix_str (suf s : string) : bool :=
  (String.length suf <=? String.length s)%nat && (sdrop (String.length s - String.length suf) s =? suf).
Definition trim_suffix_str (suf s : string) : string :=       (* strings.TrimSuffix(s, suf) *)
  if has_suffix_str suf s then stake (String.length s - String.length suf) s else s.
(* (name, version, pinned) of one original package line *)
Definition unify_split (orig : string) : res (string * string * string) :=
  do nv <- match index_any c15_unify_constraint_delims orig with
           | Some i => do n <- gslice_to orig i; do v <- gslice_from orig i; Ok (n, v)
           | None => Ok (orig, "")
           end;
  do pinned <- match index_any c15_unify_pin_delims orig with
               | Some i => gslice_from orig i
               | None => Ok ""
               end;
  Ok (trim_suffix_str pinned (fst nv), trim_suffix_str pinned (snd nv), pinned).
(* unify reads inputs[0] and inputs[1:] once there is at least one original line *)
Definition unify_inputs (n_orig n_inputs : nat) : res unit :=
  if (n_orig =? 0)%nat then Ok tt else
  do _ <- vidx n_inputs 0;
  if (1 <=? n_inputs)%nat then Ok tt else Panic.
(* LockImageConfiguration: parts := regex.FindAllStringSubmatch(prov, -1);
   if len(parts) == 0 || len(parts[0]) < 2 { continue }; parts[0][1] *)
Definition lock_provided_skel (n_parts len0 : nat) : res unit :=
  if (n_parts =? 0)%nat then Ok tt else
  do _ <- vidx n_parts 0;
  if (len0 <? 2)%nat then Ok tt else
  do _ <- vidx n_parts 0; vidx len0 1.

(* ---- checksumFromHeader (install.go, expandapk/utility.go, tarfs/fs.go) -------------------
   the PAX record APK-TOOLS.checksum.SHA1: absent -> no checksum; "Q1" + base64, or hex.
   HasPrefix / TrimPrefix, no slicing. *)
Section HeaderChecksum.
Variable b64dec : string -> option (list N).
Variable hexdec : string -> option (list N).
Definition checksum_from_header_with (prefix trim : string) (pax : option string) : res (option (list N)) :=
  match pax with
  | None => Ok None
  | Some v =>
      if has_prefix prefix v then
        do c <- from_opt (b64dec (if has_prefix trim v then sdrop (String.length trim) v else v)); Ok (Some c)
      else do c <- from_opt (hexdec v); Ok (Some c)
  end.
Definition checksum_from_header : option string -> res (option (list N)) := checksum_from_header_with "Q1" "Q1".
End HeaderChecksum.

(* ---- expandapk.go ExpandApk: from the number of gzip members to the section indices ---------
   switch numGzipStreams { case 3: 0,1,2; case 2: -1,0,1; default: error }; signed := sig >= 0;
   gzipStreams[ctl], hashes[ctl], sizes[ctl], ...[pkg], and under `if signed` ...[sig].
   The table, what the default arm does and whether the signature indexings are guarded
   are read from the source. Result: the Signed flag. *)
Definition tbl_lookup (n : Z) (t : list (Z * (Z * Z * Z))) : option (Z * Z * Z) :=
  match find (fun r => (fst r =? n)%Z) t with Some r => Some (snd r) | None => None end.
Definition expand_select_with (tbl : list (Z * (Z * Z * Z))) (default_err sig_guarded : bool) (n : Z) : res bool :=
  do idx <- match tbl_lookup n tbl with
            | Some x => Ok x
            | None => if default_err then Err else Ok (0, 0, 0)%Z
            end;
  let '(sg, ct, pk) := idx in
  let signed := (0 <=? sg)%Z in
  do _ <- zidx n ct;
  do _ <- zidx n pk;
  do _ <- (if signed || negb sig_guarded then zidx n sg else Ok tt);
  Ok signed.
Definition expand_sig_guarded : bool := (snd expand_sig_index_guarded =? 0)%nat.
Definition expand_select : Z -> res bool :=
  expand_select_with expand_switch expand_switch_default_errors expand_sig_guarded.

(* the loop over the gzip members. A member is: a valid gzip stream holding a tar whose
   first entry is a signature (MSign) or something else (MPlain), a valid gzip stream
   holding no tar entry (MEmpty), or a stream that fails to decompress (MBad).
   [garbage]: bytes that are no gzip header follow the last member.
   expandApkWriter.Next looks into the first member when the second one starts
   (maxStreams 2 -> 3 for a signature); when streamId+1 >= maxStreams the gzip
   reader is left in multistream mode and swallows every remaining member as the
   data section. Result: len(gzipStreams). *)
Inductive mkind := MSign | MPlain | MEmpty | MBad
  | MZero      (* session 4: a valid gzip stream holding a tar end-of-archive marker (two zero blocks) and nothing else *)
  | MJunk.     (* session 4: a valid gzip stream whose content is no tar (too short for a header, or a header that does not parse) *)
Definition mkind_bad (m : mkind) : bool := match m with MBad => true | _ => false end.
Fixpoint expand_loop (ms : list mkind) (garbage : bool) (first : option mkind)
  (stream_id : Z) (maxs : Z) (count : nat) : res nat :=
  (* sw.Next() *)
  do maxs' <- (if (stream_id =? 0)%Z then
                 match first with
                 | Some MSign => Ok (Z.of_nat (snd expand_max_streams))
                 | Some MPlain => Ok maxs
                 | _ => Err
                 end
               else Ok maxs);
  let sid := (stream_id + 1)%Z in
  let reached := (maxs' <=? sid + 1)%Z in
  match ms with
  | [] => if garbage then Err else Ok count                (* io.EOF from the gzip reader: break *)
  | m :: ms' =>
      if reached then
        (* multistream: the rest of the input is one data section *)
        if existsb mkind_bad (m :: ms') || garbage then Err else Ok (S count)
      else
        if mkind_bad m then Err
        else expand_loop ms' garbage (match first with None => Some m | f => f end) sid maxs' (S count)
  end.
(* session 4: what the tar readers behind the loop make of the sections. The control section is one
   member (index n-2), indexed by tarfs.New; the data section is the concatenation of every member from
   index n-1 on (multistream), read by checkSums and indexed by tarfs.New. A tar reader goes through the
   entries of MSign / MPlain members (written without an end marker), reads nothing from MEmpty, stops
   with success at an end marker (MZero: whatever follows is never looked at) and fails on MJunk. *)
Fixpoint tar_stream_ok (ms : list mkind) : bool :=
  match ms with
  | [] => true
  | MZero :: _ => true
  | MJunk :: _ => false
  | _ :: r => tar_stream_ok r
  end.
Definition sections_ok (ms : list mkind) (n : nat) : bool :=
  tar_stream_ok (firstn 1 (skipn (n - 2) ms)) && tar_stream_ok (skipn (n - 1) ms).
(* fix 3bc1979: the arm `case 2` begins with `if sw.maxStreams == 3 { return error }` (the guards goextract
   reads: expand_switch_arm_guards). maxStreams after the loop: raised by sw.Next() at the start of the second
   member when the first member's first entry is a signature. A signature followed by ONE member is an error now
   (before the fix it was read as an unsigned package whose control section was the signature). *)
Definition expand_final_max (ms : list mkind) : Z :=
  match ms with
  | MSign :: _ :: _ => Z.of_nat (snd expand_max_streams)
  | _ => Z.of_nat (fst expand_max_streams)
  end.
Definition arm_refuses (guards : list (Z * Z)) (n maxs : Z) : bool :=
  existsb (fun g => (fst g =? n)%Z && (snd g =? maxs)%Z) guards.
Definition expand_apk (ms : list mkind) (garbage : bool) : res bool :=
  do n <- expand_loop ms garbage None (-1)%Z (Z.of_nat (fst expand_max_streams)) O;
  if arm_refuses expand_switch_arm_guards (Z.of_nat n) (expand_final_max ms) then Err else
  do signed <- expand_select (Z.of_nat n);
  if sections_ok ms n then Ok signed else Err.

(* ---- expandapk/split.go Split, apk/package.go ParsePackageInfo -----------------------------
   Split returns (optional signature) + control + rest; ParsePackageInfo reads split[0], and
   split[1] when len(split) == 3. *)
Definition split_parts (ms : list mkind) : res nat :=
  match ms with
  | MSign :: rest =>
      match rest with
      | [] => Err                                   (* gzi.Reset: EOF *)
      | MBad :: _ => Err
      | _ :: _ => Ok (fst split_appends + snd split_appends)%nat
      end
  | MPlain :: _ => Ok (fst split_appends)
  | _ => Err                                        (* no member, no first tar header, corrupt *)
  end.
Definition pkginfo_select (n : nat) : res unit :=
  do _ <- vidx n 0;
  if (n =? 3)%nat then vidx n 1 else Ok tt.

(* ---- installed.go parseInstalledPerms is Formats.parse_perms (3 parts or an error) --------- *)

(* ---- apk/index.go parseRepositoryIndex ---------------------------------------------------------
   matches := signatureFileRegex.FindStringSubmatch(name); if len(matches) != 3 { error };
   matches[2], matches[1];  readBytes := len(b) - buf.Len(); b[readBytes:] *)
Definition sig_name_skel (matched : bool) : res unit :=
  let n := if matched then submatch_len signature_file_regex else O in
  if negb (n =? 3)%nat then Err else
  do _ <- vidx n 2; vidx n 1.
Definition reader_len (size pos : N) : N := if (size <=? pos)%N then 0%N else (size - pos)%N.   (* bytes.Reader.Len *)
Definition index_data_slice (size pos : N) : res N :=
  let read_bytes := (Z.of_N size - Z.of_N (reader_len size pos))%Z in
  if ((0 <=? read_bytes) && (read_bytes <=? Z.of_N size))%Z then Ok (Z.to_N read_bytes) else Panic.

(* ---- build/types ParseArchitectures: len(in) == 1 && in[0] == "all" / "host" ---------------------- *)
Definition parse_archs_skel (n : nat) : res unit :=
  do _ <- (if (n =? 1)%nat then vidx n 0 else Ok tt);
  if (n =? 1)%nat then do _ <- vidx n 0; vidx n 0 else Ok tt.

(* ---- finding C15-F4 is repaired in /repo (fix f716198): sortTarHeaders skips an entry whose cleaned name
   is "."; Model/Formats.v [sort_headers] / [sort_headers_ord] are that function, [sort_headers_raw] /
   [sort_headers_ord_raw] what it was before (hypothetical). [not_dot] lives in Model/Formats.v. ---------- *)

(* ---- build/types ImageConfiguration.Load / parse: the include chain, abstract form of session 3
   (finding C15-F6, repaired in /repo by fix 43ae291: [load_chain_fixed] is the code, [load_chain] what it
   was before — hypothetical; the model compared with the implementation is Model/Parsers2.v load_config) -------
   Load reads the file at [path], decodes it and, when its `include:` field is set, first
   loads that path into a fresh configuration (the same way) and merges it. As far as
   termination goes a file is the value of its include field ("" = none); a path without a
   file is an error. Result: the files read, outermost first. Nothing in the source bounds
   the chain: OutOfFuel stands for the recursion that does not end. *)
Fixpoint load_chain (fuel : nat) (fs : list (string * string)) (path : string) : res (list string) :=
  match fuel with
  | O => OutOfFuel
  | S f =>
      match alookup path fs with
      | None => Err
      | Some inc => if inc =? "" then Ok [path] else do r <- load_chain f fs inc; Ok (path :: r)
      end
  end.
(* the repair (fixes/C15-F6.patch, not applied): Load refuses a path that is already being loaded *)
Fixpoint load_chain_fixed (fuel : nat) (fs : list (string * string)) (seen : list string) (path : string) : res (list string) :=
  match fuel with
  | O => OutOfFuel
  | S f =>
      match alookup path fs with
      | None => Err
      | Some inc =>
          if existsb (String.eqb path) seen then Err
          else if inc =? "" then Ok [path]
          else do r <- load_chain_fixed f fs (path :: seen) inc; Ok (path :: r)
      end
  end.
