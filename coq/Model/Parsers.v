(* C15 — the places where apko's readers of untrusted input index or slice,
   written with the checked primitives of Base/C16Lib ([Panic] = a Go run-time
   panic). The line-oriented readers themselves (ParsePackageIndex,
   ParseInstalled, parseInstalledPerms, UserFile.Load, GroupFile.Load) are the
   ones of Model/Formats.v. No proofs in this file. *)
From Apko Require Export Base.Prelude Base.C16Lib Base.Regex Generated.Regexes Generated.FieldLetters Model.Formats.
Open Scope string_scope. Open Scope list_scope.

(* regexp: FindAllStringSubmatch returns vectors of 1 + NumSubexp strings *)
Fixpoint max_group (r : re) : nat :=
  match r with
  | Cat a b | Alt a b => Nat.max (max_group a) (max_group b)
  | Star a | Plus a | Opt a => max_group a
  | Grp n a => Nat.max n (max_group a)
  | _ => O
  end.
Definition submatch_len (r : re) : nat := S (max_group r).
(* v[i] on a vector of length len *)
Definition vidx (len i : nat) : res unit := if (i <? len)%nat then Ok tt else Panic.

(* version.go ParseVersion: [matched] = the regex matched, [letter_len] = len(actuals[4]).
   What is computed from the fields cannot panic (strconv, switch on strings). *)
Definition parse_version_skel (matched : bool) (letter_len : nat) : res unit :=
  if negb matched then Err else
  let n := submatch_len version_regex in
  if negb (n =? 14)%nat then Err else
  do _ <- vidx n 1; do _ <- vidx n 2; do _ <- vidx n 4;
  do _ <- (if (0 <? letter_len)%nat then vidx letter_len 0 else Ok tt);
  do _ <- vidx n 6; do _ <- vidx n 7; do _ <- vidx n 9; do _ <- vidx n 10; do _ <- vidx n 13;
  Ok tt.

(* version.go ResolvePackageNameVersionPin: only len(parts[0]) < 2 is tested
   before parts[0][1], [4], [6], [3] are read *)
Definition resolve_pin_skel (matched : bool) : res unit :=
  if negb matched then Ok tt else
  let n := submatch_len package_name_regex in
  if (n <? 2)%nat then Ok tt else
  do _ <- vidx n 1; do _ <- vidx n 4; do _ <- vidx n 6; do _ <- vidx n 3; Ok tt.

(* install.go installAPKFiles / the lazy variant, after fix 6e06851:
   !startedDataSection && strings.HasPrefix(header.Name, ".") && !strings.Contains(header.Name, "/")
   (before the fix: header.Name[0] == '.', a panic on an entry with an empty name) *)
Definition install_hidden_test (started : bool) (name : string) : res bool :=
  if started then Ok false else Ok (has_prefix "." name && negb (has_char "/" name)).

(* fs/rwosfs.go standardizePath, after fix 5614ee6: strings.TrimPrefix(p, "/")
   (before the fix: p[0] on the empty path) *)
Definition standardize_path (p : string) : res string :=
  Ok (if has_prefix "/" p then sdrop 1 p else p).

(* implementation.go cachedPackage: HasPrefix(chk, "Q1") then chk[2:] *)
Definition cached_package_slice (chk : string) : res string :=
  if negb (has_prefix "Q1" chk) then Err else gslice_from chk 2.

(* build/layers.go, after fix d47e591: buildLayers rejects a negative budget and
   groupByOriginAndSize sizes its slice by len(byOrigin), no longer by the budget
   (before the fix: make([]*group, 0, budget) panicked on a negative or huge budget
   taken unvalidated from the image configuration) *)
Definition make_groups (budget : Z) : res unit :=
  if (budget <? 0)%Z then Err else Ok tt.

(* outcome classes compared with the implementation *)
Inductive rclass := CkOk | CkErr | CkPanic | CkHang.
Definition class_of {A} (r : res A) : rclass :=
  match r with Ok _ => CkOk | Err => CkErr | Panic => CkPanic | OutOfFuel => CkHang end.
