(* C15, session 4 — further readers of untrusted input inside the model:
   * ImageConfiguration.Load with paths.ResolvePath on a file tree (cwd-relative first, then each
     include path), so that one file reached through different spellings is one file;
   * the index / slice sites that were exploration-only (parseAlpineVersion, fetchOffline,
     etagFromResponse, ResolveApk, controlValue, installBusyboxLinks, EnvAuth.AddAuth, RemoveLabel,
     parseAnnotations, the "!name" constraints of the resolver, groupByOriginAndSize's cut,
     RepositoryWithIndex.RepoAbbr);
   * the one hand-written loop whose progress is not structural (RemoveLabel), with fuel.
   No proofs in this file. *)
From Apko Require Export Base.Prelude Base.C16Lib Model.Formats Model.Parsers Generated.C15Sites.
Open Scope string_scope. Open Scope list_scope.

(* ======================================================================================== *)
(* 1. ImageConfiguration.Load / parse / paths.ResolvePath                                    *)

(* ---- the chain itself, over any way of resolving a requested path and reading a file --------
   [resolve p] = the path ResolvePath returns for the requested p (None: os.ErrNotExist);
   [content rp] = what parse learns from the file at rp: a marker (which file it is: the harness
   gives every file one package of its own) and the `include:` field ("" = none); None = the path is
   a directory / unreadable / does not decode. One unit of fuel per file loaded. In [chain_r] (the code before
   fix 43ae291) nothing bounds the chain: OutOfFuel stands for the recursion that does not end. Result: the
   markers of the files loaded, outermost first. *)
Section IncludeChain.
Variable resolve : string -> option string.
Variable content : string -> option (string * string).
Fixpoint chain_r (fuel : nat) (rp : string) : res (list string) :=
  match fuel with
  | O => OutOfFuel
  | S f =>
      match content rp with
      | None => Err
      | Some (m, inc) =>
          if inc =? "" then Ok [m]
          else match resolve inc with
               | None => Err
               | Some rp' => do r <- chain_r f rp'; Ok (m :: r)
               end
      end
  end.
Definition chain (fuel : nat) (p : string) : res (list string) :=
  match resolve p with None => Err | Some rp => chain_r fuel rp end.
(* fix 43ae291 (was fixes/C15-F6.patch): Load keeps the resolved paths being loaded (as text) and refuses one it holds.
   [chain_r_fixed] / [chain_fixed] are the code today, [chain_r] / [chain] what it was before (hypothetical). *)
Fixpoint chain_r_fixed (fuel : nat) (seen : list string) (rp : string) : res (list string) :=
  match fuel with
  | O => OutOfFuel
  | S f =>
      if existsb (String.eqb rp) seen then Err else
      match content rp with
      | None => Err
      | Some (m, inc) =>
          if inc =? "" then Ok [m]
          else match resolve inc with
               | None => Err
               | Some rp' => do r <- chain_r_fixed f (rp :: seen) rp'; Ok (m :: r)
               end
      end
  end.
Definition chain_fixed (fuel : nat) (p : string) : res (list string) :=
  match resolve p with None => Err | Some rp => chain_r_fixed fuel [] rp end.
(* one step of the chain on resolved paths *)
Definition rnext (rp rp' : string) : Prop :=
  exists m inc, content rp = Some (m, inc) /\ inc <> "" /\ resolve inc = Some rp'.
End IncludeChain.

(* ---- a file tree without symbolic links ----------------------------------------------------------
   Paths are lists of components from the root. [cf_dirs]: the directories (the root is always one);
   [cf_files]: path -> (marker, Some include | None = does not decode). *)
Record cfs := mkCfs {
  cf_cwd : list string;
  cf_dirs : list (list string);
  cf_files : list (list string * (string * option string))
}.
Definition path_eqb : list string -> list string -> bool := list_eqb String.eqb.
Definition is_dir (fs : cfs) (d : list string) : bool :=
  match d with [] => true | _ => existsb (path_eqb d) (cf_dirs fs) end.
Definition file_at (fs : cfs) (d : list string) : option (string * option string) :=
  match find (fun f => path_eqb (fst f) d) (cf_files fs) with Some f => Some (snd f) | None => None end.
(* the kernel's walk: a name is looked up in the directory reached so far (ENOTDIR / ENOENT
   otherwise), "" and "." stay, ".." goes up (the root is its own parent) *)
Fixpoint walk_comps (fs : cfs) (cur : list string) (cs : list string) : option (list string) :=
  match cs with
  | [] => Some cur
  | c :: cs' =>
      if negb (is_dir fs cur) then None
      else if (c =? "") || (c =? ".") then walk_comps fs cur cs'
      else if c =? ".." then walk_comps fs (removelast cur) cs'
      else walk_comps fs (cur ++ [c]) cs'
  end.
Inductive fnode := NDir | NFile (m : string) (inc : option string).
(* os.Stat(p) / os.ReadFile(p) *)
Definition walk (fs : cfs) (p : string) : option fnode :=
  if p =? "" then None else
  match walk_comps fs (if starts_with_slash p then [] else cf_cwd fs) (split_on ch_slash p) with
  | None => None
  | Some d => if is_dir fs d then Some NDir
              else match file_at fs d with Some (m, inc) => Some (NFile m inc) | None => None end
  end.
(* paths.ResolvePath: p itself if os.Stat(p) succeeds, else the first path.Join(prefix, p) that does *)
Fixpoint first_existing (fs : cfs) (cands : list string) : option string :=
  match cands with
  | [] => None
  | c :: cs => match walk fs c with Some _ => Some c | None => first_existing fs cs end
  end.
Definition resolve_path (fs : cfs) (incs : list string) (p : string) : option string :=
  first_existing fs (p :: map (fun pre => path_join2 pre p) incs).
(* readLocal + the part of parse that matters: a directory cannot be read, a file may not decode *)
Definition file_content (fs : cfs) (rp : string) : option (string * string) :=
  match walk fs rp with
  | Some (NFile m (Some inc)) => Some (m, inc)
  | _ => None
  end.
(* ImageConfiguration.Load as it is since fix 43ae291: the resolved paths being loaded travel in the context
   and one that is met again is an error *)
Definition load_config (fuel : nat) (fs : cfs) (incs : list string) (p : string) : res (list string) :=
  chain_fixed (resolve_path fs incs) (file_content fs) fuel p.
(* ... and as it was before the fix (hypothetical now): nothing bounds the chain (finding C15-F6, fixed) *)
Definition load_config_unfixed (fuel : nat) (fs : cfs) (incs : list string) (p : string) : res (list string) :=
  chain (resolve_path fs incs) (file_content fs) fuel p.
(* every resolved path a file of the tree can send the loader to *)
Definition successors (fs : cfs) (incs : list string) : list string :=
  flat_map (fun f => match snd (snd f) with
                     | Some inc => match resolve_path fs incs inc with Some r => [r] | None => [] end
                     | None => []
                     end) (cf_files fs).

(* ======================================================================================== *)
(* 2. index / slice sites                                                                      *)

(* apk/implementation.go parseAlpineVersion: parts := repoRE.FindStringSubmatch(repo);
   if len(parts) < 2 { return }; parts[1]. [groups] = NumSubexp of the regex in the source. *)
Definition alpine_version_skel (matched : bool) : res unit :=
  let n := if matched then S alpine_repo_groups else O in
  if (n <? 2)%nat then Ok tt else vidx n 1.
(* apk/cache.go fetchOffline, after fix c5d0145: no index expression any more (before: des[0], des[1:] behind
   len(des) == 0). The newest entry whose name does not end in ".tmp" is kept in an interface value that
   starts out nil; `if newest == nil { error }` comes before newest.Name(). [names]: the directory's entries. *)
Definition fetch_offline_skel (names : list string) : res string :=
  let newest := fold_left (fun (acc : option string) n => if has_suffix_str ".tmp" n then acc else Some n) names None in
  match newest with None => Err | Some n => Ok n end.
(* apk/cache.go etagFromResponse: !ok || len(v) == 0 || v[0] == "" -> none; etag := strings.Trim(v[0], <one double quote>);
   base32 of it (empty exactly when the trimmed text is); result: whether an etag comes back *)
Definition etag_skel (present : bool) (vals : list string) : res bool :=
  if negb present then Ok false else
  if (List.length vals =? 0)%nat then Ok false else
  do v0 <- lidx vals 0;
  if v0 =? "" then Ok false else
  do v <- lidx vals 0;
  Ok (negb (trim_char """" v =? "")).
(* apk/resolveapk.go ResolveApk: if len(split) < 2 { error }; split[0], split[1];
   if len(split) == 3 { split[1], split[2], split[0] } *)
Definition resolve_apk_select (n : nat) : res unit :=
  if (n <? 2)%nat then Err else
  do _ <- vidx n 0; do _ <- vidx n 1;
  if (n =? 3)%nat then do _ <- vidx n 1; do _ <- vidx n 2; vidx n 0 else Ok tt.
(* apk/util.go controlValue, per line of .PKGINFO: parts := strings.Split(line, "=");
   if len(parts) != 2 { continue }; parts[0]; (when wanted) parts[1].
   Result: the (key, value) the line contributes, if any. *)
Definition control_value_line (wanted : string -> bool) (line : string) : res (option (string * string)) :=
  let parts := split_on "=" line in
  let n := List.length parts in
  if negb (n =? 2)%nat then Ok None else
  do k <- lidx parts 0;
  let key := trim_space k in
  if negb (wanted key) then Ok None else
  do v <- lidx parts 1;
  Ok (Some (key, trim_space v)).
Definition control_values (wanted : string -> bool) (text : string) : res (list (string * string)) :=
  do r <- map_res (control_value_line wanted) (split_on ch_nl text);
  Ok (flat_map (fun o => match o with Some kv => [kv] | None => [] end) r).
(* build/busybox.go installBusyboxLinks: matches := re.FindAllStringSubmatch(v, -1);
   if len(matches) != 1 || len(matches[0]) < 4 { error }; matches[0][1] *)
Definition busybox_version_skel (n_matches : nat) : res unit :=
  if negb (n_matches =? 1)%nat then Err else
  do _ <- vidx n_matches 0;
  let len0 := S busybox_semver_groups in
  if (len0 <? 4)%nat then Err else
  do _ <- vidx n_matches 0; vidx len0 1.
(* apk/auth EnvAuth.AddAuth: parts := strings.Split(env, ":"); if len(parts) != 4 || parts[0] != "basic" { return };
   parts[1], parts[2], parts[3] *)
Definition env_auth_skel (env : string) : res unit :=
  let parts := split_on ":" env in
  let n := List.length parts in
  if negb (n =? 4)%nat then Ok tt else
  do p0 <- lidx parts 0;
  if negb (p0 =? "basic") then Ok tt else
  do _ <- lidx parts 1; do _ <- lidx parts 2; do _ <- lidx parts 3; Ok tt.
(* strings.SplitN(s, sep, 2) for a one-byte separator: at most two parts *)
Definition split_n2 (c : ascii) (s : string) : list string :=
  match cut_char c s with Some (a, b) => [a; b] | None => [s] end.
(* internal/cli/publish.go parseAnnotations, per entry: parts := strings.SplitN(s, ":", 2);
   if len(parts) != 2 { error }; parts[0] ...; parts[1] *)
Definition annotation_skel (s : string) : res (string * string) :=
  let parts := split_n2 ":" s in
  if negb (List.length parts =? 2)%nat then Err else
  do k <- lidx parts 0; do v <- lidx parts 1;
  if v =? "" then Err else Ok (k, v).
(* apk/repo.go constrain / the solver loop: if strings.HasPrefix(c, "!") { ... c[1:] } *)
Definition conflict_name (c : string) : res (option string) :=
  if has_prefix "!" c then do r <- gslice_from c 1; Ok (Some r) else Ok None.
(* build/layers.go groupByOriginAndSize: if len(groups) > budget { cutoff := max(budget-1, 0);
   groups[cutoff:]; groups[:cutoff] }, with Go's 64-bit wrap-around of budget-1 *)
Definition two63z : Z := 9223372036854775808%Z.
Definition wrap64 (z : Z) : Z := ((z + two63z) mod (2 * two63z) - two63z)%Z.
Definition layer_cutoff (len budget : Z) : res Z :=
  if (budget <? len)%Z then
    let cutoff := Z.max (wrap64 (budget - 1)) 0 in
    if (cutoff <=? len)%Z then Ok cutoff else Panic
  else Ok len.
(* apk/repository.go RepositoryWithIndex.RepoAbbr (exported, no caller in apko):
   parts := strings.Split(r.URI, "/"); parts[len(parts)-2:] *)
Definition repo_abbr (uri : string) : res string :=
  let parts := split_on ch_slash uri in
  let lo := (Z.of_nat (List.length parts) - 2)%Z in
  if (lo <? 0)%Z then Panic else Ok (join "/" (skipn (Z.to_nat lo) parts)).

(* ======================================================================================== *)
(* 3. internal/cli/lock.go RemoveLabel: the one loop over untrusted text that does not walk a
      list:  for strings.HasPrefix(s, "@") { parts := strings.SplitN(s, " ", 2);
      if len(parts) < 2 { error }; s = parts[1] }.  Fuel = iterations allowed. *)
Fixpoint remove_label_loop (fuel : nat) (s : string) : res string :=
  if negb (has_prefix "@" s) then Ok s else
  match fuel with
  | O => OutOfFuel
  | S f =>
      let parts := split_n2 " " s in
      if (List.length parts <? 2)%nat then Err else
      do r <- lidx parts 1; remove_label_loop f r
  end.
Definition remove_label (fuel : nat) (s : string) : res string :=
  if s =? "" then Err else remove_label_loop fuel s.

(* ======================================================================================== *)
(* 4. wave 3: pkg/apk/internal/tarfs FS.open — opening a member of an indexed tar by name.
      index[hdr.Name] = the LAST entry of that name; an entry that is a hard link (kind 1) or a
      symbolic link (kind 2) is followed: an absolute link name as it is, any other joined to
      path.Dir of the entry's name (for hard links too — what the code does); every recursive call
      raises the hop counter by what goextract reads from the source (tarfs_hop_incr) and the chase
      ends with an error when the counter passes maxHops. The counter is the ONLY thing that bounds
      the recursion: OutOfFuel stands for the recursion that does not end (in Go: stack overflow).
      Result: the name of the entry that is opened. *)
Record tent := mkTent { tn_kind : Z; tn_link : string }.
Definition tar_index (es : list (string * tent)) : list (string * tent) :=
  fold_left (fun m e => aset (fst e) (snd e) m) es [].
Definition tarfs_target (name link : string) : string :=
  if starts_with_slash link then link else path_join2 (path_dir name) link.
Fixpoint tarfs_open (fuel : nat) (idx : list (string * tent)) (name : string) (hops : Z) : res string :=
  match fuel with
  | O => OutOfFuel
  | S f =>
      if (tarfs_max_hops <? hops)%Z then Err else
      match alookup name idx with
      | None => Err
      | Some e =>
          if (tn_kind e =? 1)%Z then tarfs_open f idx (tarfs_target name (tn_link e)) (hops + fst tarfs_hop_incr)%Z
          else if (tn_kind e =? 2)%Z then tarfs_open f idx (tarfs_target name (tn_link e)) (hops + snd tarfs_hop_incr)%Z
          else Ok name
      end
  end.
(* FS.Open(name) = open(name, 0); maxHops + 2 calls at most (hops = 0 .. maxHops + 1) *)
Definition tarfs_fuel : nat := Z.to_nat (tarfs_max_hops + 2).
Definition tarfs_open_name (es : list (string * tent)) (name : string) : res string :=
  tarfs_open tarfs_fuel (tar_index es) name 0.

(* ======================================================================================== *)
(* 5. final round: the `for { x, err := r.Next() ... }` loops over tar entries (twelve sites, found by
      shape: Generated tar_next_loops). The reader is abstract: [next n] = what Next answers when [n]
      bytes of the (decompressed) stream are left — an entry and what is left after its header (the body
      is skipped by the following Next, which only shrinks the rest further), the end of the archive, or
      an error; an error is what Next keeps answering from then on (archive/tar remembers it: tr.err).
      [body n'] = the loop body for that entry: it goes on, or leaves the loop with an error (or a result).
      The loop itself: [leave_eof] / [leave_err] = what goextract reads at the site: io.EOF tested on its
      own leaves; `err != nil` (which io.EOF is as well) leaves. A site where neither held would turn
      forever on the error it is handed again and again: OutOfFuel. Result: the number of turns. *)
Inductive tev := TEntry (rest : N) | TEof | TErr.
Section TarLoop.
Variable next : N -> tev.
Variable body : N -> bool.
Fixpoint tar_loop (leave_eof leave_err : bool) (fuel : nat) (n : N) (turns : nat) : res nat :=
  match fuel with
  | O => OutOfFuel
  | S f =>
      match next n with
      | TEntry n' => if body n' then tar_loop leave_eof leave_err f n' (S turns) else Err
      | TEof => if leave_eof || leave_err then Ok (S turns) else tar_loop leave_eof leave_err f n (S turns)
      | TErr => if leave_err then Err else tar_loop leave_eof leave_err f n (S turns)
      end
  end.
End TarLoop.
(* archive/tar's contract the bound rests on: a header is a block of 512 bytes, read before Next returns it *)
Definition tar_block : N := 512%N.
Definition consumes (next : N -> tev) : Prop := forall n n', next n = TEntry n' -> (n' + tar_block <= n)%N.
Definition tar_fuel (n : N) : nat := S (N.to_nat (n / tar_block)).
Definition site_loop (site : string * (bool * bool)) next body (n : N) : res nat :=
  tar_loop next body (fst (snd site)) (snd (snd site)) (tar_fuel n) n O.
