(* C13 — executable model of pkg/build/paths.go: mutatePaths, the dispatch
   table pathMutators (read from the source), the five mutators and
   mutatePermissionsDirect, over the filesystem model of Model/C13Fs.v.
   No proofs here. *)
From Apko Require Import Base.Prelude Model.C13Fs Generated.C13Consts.
Open Scope string_scope. Open Scope list_scope.

Record mutation := mkMut {
  m_type : string; m_path : string; m_source : string;
  m_perm : N; m_uid : N; m_gid : N; m_recursive : bool }.

Section PathMut.
Variable maxl : nat.

(* Chmod then Chown; both resolve the path with getNode, i.e. THROUGH a final symlink *)
Definition perms_direct (f : fs) (p : path) (perm uid gid : N) : fres fs :=
  fdo f1 <- chmod maxl f p perm; chown maxl f1 p uid gid.
Definition mutate_permissions (f : fs) (m : mutation) : fres fs :=
  perms_direct f (path_of (m_path m)) (m_perm m) (m_uid m) (m_gid m).

Definition child_path (p : path) (nm : string) : path := mkPath (p_abs p) (p_comps p ++ [nm]) false.

(* fs.WalkDir with mutatePermissionsDirect as the callback.  [isdir]: for the
   root it is Stat's answer (symlink resolved), for children the entry's own
   flag (a symlink is visited — and chmod'ed through — but not descended). *)
Fixpoint walk (fuel : nat) (f : fs) (p : path) (isdir : bool) (perm uid gid : N) : fres fs :=
  match fuel with
  | O => FFuel
  | S fuel' =>
      fdo f1 <- perms_direct f p perm uid gid;
      if isdir then
        fdo dn <- gnode maxl f1 p;
        if negb (is_dir dn) then FErr else
        (fix each (f : fs) (cs : list (string * nat)) : fres fs :=
           match cs with
           | [] => FOk f
           | (nm, c) :: t =>
               match get f c with
               | None => FErr
               | Some cn => fdo f' <- walk fuel' f (child_path p nm) (is_dir cn) perm uid gid; each f' t
               end
           end) f1 (nchildren dn)
      else FOk f1
  end.

Definition mutate_directory (f : fs) (m : mutation) : fres fs :=
  let p := path_of (m_path m) in
  fdo f1 <- mkdirall maxl f p (m_perm m);
  if m_recursive m then
    fdo n <- stat maxl f1 p;
    walk (S (List.length f1)) f1 p (is_dir n) (m_perm m) (m_uid m) (m_gid m)
  else FOk f1.

Definition ensure_parent (f : fs) (p : path) : fres fs := mkdirall maxl f (pdir p) mut_parent_perm.

(* mutateEmptyFile's [target]: filepath.Clean(mut.Path) since fix 10a6051 (was
   finding C13-F6: with mut.Path as written, a trailing slash makes filepath.Dir
   keep every component and filepath.Base repeat the last one); which of the two
   the source says is read by goextract on every run *)
Definition empty_file_target (s : string) : path :=
  if empty_file_path_cleaned then pclean (path_of s) else path_of s.
Definition mutate_empty_file (f : fs) (m : mutation) : fres fs :=
  let p := empty_file_target (m_path m) in
  fdo f1 <- ensure_parent f p; create_write maxl f1 p "".

Definition mutate_hard_link (f : fs) (m : mutation) : fres fs :=
  let p := path_of (m_path m) in
  fdo f1 <- ensure_parent f p;
  fdo f2 <- match gn maxl f1 p with          (* Lstat = getNode: follows the link *)
            | FOk _ => remove maxl f1 p
            | FFuel => FFuel
            | _ => FOk f1
            end;
  link maxl f2 (path_of (m_source m)) p.

Definition mutate_sym_link (f : fs) (m : mutation) : fres fs :=
  let p := path_of (m_path m) in
  fdo f1 <- ensure_parent f p; symlink maxl f1 (m_source m) p.

(* dispatch through the table read from the source *)
Fixpoint assoc (k : string) (l : list (string * string)) : option string :=
  match l with [] => None | (a, b) :: t => if String.eqb a k then Some b else assoc k t end.
Definition mutator_named (fn : string) : option (fs -> mutation -> fres fs) :=
  if String.eqb fn "mutateDirectory" then Some mutate_directory
  else if String.eqb fn "mutateEmptyFile" then Some mutate_empty_file
  else if String.eqb fn "mutateHardLink" then Some mutate_hard_link
  else if String.eqb fn "mutateSymLink" then Some mutate_sym_link
  else if String.eqb fn "mutatePermissions" then Some mutate_permissions
  else None.

Definition mutate_one (f : fs) (m : mutation) : fres fs :=
  match assoc (m_type m) path_mutators with
  | None => FErr                                  (* unsupported path mutation type *)
  | Some fn =>
      match mutator_named fn with
      | None => FErr
      | Some pm =>
          fdo f1 <- pm f m;
          if String.eqb (m_type m) "permissions" then FOk f1 else mutate_permissions f1 m
      end
  end.

Fixpoint mutate_paths (f : fs) (ms : list mutation) : fres fs :=
  match ms with
  | [] => FOk f
  | m :: t => fdo f1 <- mutate_one f m; mutate_paths f1 t
  end.

End PathMut.
