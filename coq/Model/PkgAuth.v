(* C05 — executable model of how package bytes reach installation:
   pkg/apk/apk/implementation.go (expandPackage, verifyExpanded as added by fix
   6d335fb, cachedPackage, cachePackage, apkCache.get = the process-wide memo),
   pkg/apk/expandapk/expandapk.go (checkSums inside ExpandApk), install.go
   (streaming install) and pkg/tarfs/fs.go (lazy install). No proofs here.

   A served .apk is (signature member?, control member, data member). Raw bytes
   are abstract ([c_raw], [d_raw]); SHA-1 / SHA-256 are Section variables. What
   the control section says matters only through its `datahash` values; the
   data section through its file list (kind, body, recorded checksum).
   gzip/tar decoding, stream counting and file conflicts are not modelled. *)
From Apko Require Import Base.Prelude.
Open Scope string_scope. Open Scope list_scope.

Inductive fkind := FReg | FSym | FDir.
(* the APK-TOOLS.checksum.SHA1 record of a header: absent, undecodable, or bytes *)
Inductive recsum := SumNone | SumBad | SumSome (d : list N).
Record dfile := { f_name : string; f_kind : fkind; f_body : list N; f_sum : recsum }.
Record control := { c_raw : list N; c_desc : string; c_datahash : list string }.
Record data := { d_raw : list N; d_files : list dfile }.
Record apkfile := { a_ctl : control; a_dat : data }.

(* the package handle (index entry or lock-file entry): URL and checksum string *)
Record handle := { h_url : string; h_chk : string }.

(* strings.HasPrefix(chk, "Q1") / strings.TrimPrefix(chk, "Q1") *)
Definition is_q1 (a b : ascii) : bool := Ascii.eqb a "Q"%char && Ascii.eqb b "1"%char.
Definition h_q1 (h : handle) : bool :=
  match h_chk h with String a (String b _) => is_q1 a b | _ => false end.
Definition strip_q1 (s : string) : string :=
  match s with String a (String b r) => if is_q1 a b then r else s | _ => s end.

(* ---- hex ------------------------------------------------------------------ *)
Definition nib (n : N) : ascii :=
  match n with
  | 0 => "0" | 1 => "1" | 2 => "2" | 3 => "3" | 4 => "4" | 5 => "5" | 6 => "6" | 7 => "7"
  | 8 => "8" | 9 => "9" | 10 => "a" | 11 => "b" | 12 => "c" | 13 => "d" | 14 => "e" | _ => "f"
  end%N%char.
Fixpoint hex (b : list N) : string :=
  match b with
  | [] => EmptyString
  | x :: r => String (nib (x / 16)) (String (nib (x mod 16)) (hex r))
  end.
Definition is_hex_digit (c : ascii) : bool :=
  let n := N_of_ascii c in
  ((48 <=? n) && (n <=? 57) || (97 <=? n) && (n <=? 102) || (65 <=? n) && (n <=? 70))%N.
(* encoding/hex.DecodeString succeeds: even length, hex digits *)
Fixpoint is_hex (s : string) : bool :=
  match s with
  | EmptyString => true
  | String a (String b r) => is_hex_digit a && is_hex_digit b && is_hex r
  | String _ EmptyString => false
  end.

Fixpoint assoc_s {A} (x : string) (l : list (string * A)) : option A :=
  match l with [] => None | (k, v) :: l' => if String.eqb x k then Some v else assoc_s x l' end.
Definition bytes_eqb := list_eqb N.eqb.
Fixpoint assoc_b {A} (x : list N) (l : list (list N * A)) : option A :=
  match l with [] => None | (k, v) :: l' => if bytes_eqb x k then Some v else assoc_b x l' end.

(* one package directory of the on-disk cache: <hex sha1>.ctl.tar.gz keyed by
   the digest (hex of a byte string is injective), <name>.dat.tar.gz keyed by
   the name as text because the reader takes it verbatim from `datahash` *)
Record cache := { k_ctl : list (list N * control); k_dat : list (string * data) }.
Definition empty_cache : cache := {| k_ctl := []; k_dat := [] |}.

(* APKExpanded as far as installation uses it *)
Record exp := { x_ctl : control; x_dat : data; x_ctl_hash : list N }.

Inductive eclass := EFetch | ESums | EVerify | EInstall.
Inductive eres := XOk (x : exp) | XErr (e : eclass).

Section Oracles.
  Variable sha1 : list N -> list N.
  Variable sha256 : list N -> list N.
  Variable b64 : string -> option (list N).      (* base64.StdEncoding.DecodeString; None = error *)

  (* the checksum the handle records: base64 of the string with one leading
     "Q1" removed *)
  Definition h_sum (h : handle) : option (list N) := b64 (strip_q1 (h_chk h)).

  (* expandapk.checkSums: only regular files, only when a checksum is recorded *)
  Fixpoint check_sums (fs : list dfile) : bool :=
    match fs with
    | [] => true
    | f :: r =>
        match f_kind f with
        | FReg =>
            match f_sum f with
            | SumNone => check_sums r
            | SumBad => false
            | SumSome d => bytes_eqb d (sha1 (f_body f)) && check_sums r
            end
        | _ => check_sums r
        end
    end.

  (* verifyExpanded *)
  Definition verify_expanded (h : handle) (ctl_hash dat_hash : list N) (c : control) : bool :=
    match h_sum h with
    | None => false
    | Some want =>
        bytes_eqb want ctl_hash &&
        forallb (fun dh => String.eqb dh "" || String.eqb dh (hex dat_hash)) (c_datahash c)
    end.

  (* cachedPackage: everything is looked up BY NAME; nothing is re-hashed *)
  Definition cached_package (k : cache) (h : handle) : option exp :=
    if h_q1 h then
      match h_sum h with
      | Some sum =>
          match assoc_b sum (k_ctl k) with
          | Some c =>
              match c_datahash c with
              | [dh] =>
                  match assoc_s dh (k_dat k) with
                  | Some d => if is_hex dh then Some {| x_ctl := c; x_dat := d; x_ctl_hash := sum |} else None
                  | None => None
                  end
              | _ => None                       (* "saw %d datahash values" *)
              end
          | None => None
          end
      | None => None
      end
    else None.                                   (* "unexpected checksum" *)

  (* cachePackage: AdvertiseCachedFile keeps an existing destination; the
     returned APKExpanded points at the cache files *)
  Definition cache_package (k : cache) (c : control) (d : data) (ch dh : list N) : cache * exp :=
    let kc := match assoc_b ch (k_ctl k) with Some _ => k_ctl k | None => (ch, c) :: k_ctl k end in
    let kd := match assoc_s (hex dh) (k_dat k) with Some _ => k_dat k | None => (hex dh, d) :: k_dat k end in
    ({| k_ctl := kc; k_dat := kd |},
     {| x_ctl := match assoc_b ch kc with Some c' => c' | None => c end;
        x_dat := match assoc_s (hex dh) kd with Some d' => d' | None => d end;
        x_ctl_hash := ch |}).

  (* expandPackage (the function, not the method). [k] = None: no cache. *)
  Definition expand_uncached (k : option cache) (h : handle) (served : option apkfile)
    : eres * option cache :=
    match (match k with Some kc => cached_package kc h | None => None end) with
    | Some x => (XOk x, k)                                       (* cache hit: returned as is *)
    | None =>
        match served with
        | None => (XErr EFetch, k)
        | Some a =>
            if negb (check_sums (d_files (a_dat a))) then (XErr ESums, k)
            else
              let ch := sha1 (c_raw (a_ctl a)) in
              let dh := sha256 (d_raw (a_dat a)) in
              if negb (verify_expanded h ch dh (a_ctl a)) then (XErr EVerify, k)
              else match k with
                   | None => (XOk {| x_ctl := a_ctl a; x_dat := a_dat a; x_ctl_hash := ch |}, None)
                   | Some kc => let (kc', x) := cache_package kc (a_ctl a) (a_dat a) ch dh in (XOk x, Some kc')
                   end
        end
    end.

  (* the method APK.expandPackage: with a cache configured the result is memoised per
     process (globalApkCache); since fix 6e5c862 a FAILED expansion is forgotten (its
     sync.Once is deleted), so only successes stay. The key is the pair (URL,
     checksum string) since fixes 9459281 / C05-c; originally it was the URL alone
     (C05-F1: a request recording another checksum got the first expansion back),
     then URL + "@" + checksum joined into one string (C05-F2: ambiguous when
     either part contains '@'). *)
  Definition memo := list ((string * string) * eres).
  Definition memo_key (h : handle) : string * string := (h_url h, h_chk h).
  Definition key_eqb (a b : string * string) : bool :=
    String.eqb (fst a) (fst b) && String.eqb (snd a) (snd b).
  Fixpoint assoc_k (x : string * string) (l : memo) : option eres :=
    match l with [] => None | (k, v) :: l' => if key_eqb x k then Some v else assoc_k x l' end.
  Definition expand_package (m : memo) (k : option cache) (h : handle) (served : option apkfile)
    : eres * option cache * memo :=
    match k with
    | None => let (r, k') := expand_uncached None h served in (r, k', m)
    | Some _ =>
        match assoc_k (memo_key h) m with
        | Some r => (r, k, m)
        | None => let (r, k') := expand_uncached k h served in
                  (r, k', match r with XOk _ => (memo_key h, r) :: m | XErr _ => m end)
        end
    end.
End Oracles.

(* ---- installation ----------------------------------------------------------- *)
(* leading hidden top-level entries are skipped until the data section starts *)
Fixpoint has_slash (s : string) : bool :=
  match s with EmptyString => false | String c r => Ascii.eqb c "/"%char || has_slash r end.
Definition hidden (f : dfile) : bool :=
  match f_name f with String c _ => Ascii.eqb c "."%char && negb (has_slash (f_name f)) | EmptyString => false end.
Fixpoint data_section (fs : list dfile) : list dfile :=
  match fs with [] => [] | f :: r => if hidden f then data_section r else fs end.

(* lazy install (tarfs WriteHeader): regular files and symlinks need a decodable
   recorded checksum; streaming install recomputes a missing one *)
Fixpoint install_files (lazy : bool) (fs : list dfile) : option (list (string * list N)) :=
  match fs with
  | [] => Some []
  | f :: r =>
      let ok :=
        match f_kind f, f_sum f with
        | FDir, _ => true
        | FReg, SumBad => false
        | FReg, SumNone => negb lazy
        | FReg, SumSome _ => true
        | FSym, SumSome _ => true
        | FSym, SumNone => negb lazy
        | FSym, SumBad => negb lazy
        end in
      if ok then
        match install_files lazy r with
        | Some out => Some (match f_kind f with FReg => (f_name f, f_body f) :: out | _ => out end)
        | None => None
        end
      else None
  end.

Definition install (lazy : bool) (x : exp) : option (list (string * list N)) :=
  install_files lazy (data_section (d_files (x_dat x))).
