(* C05 — executable model of how package bytes reach installation:
   pkg/apk/expandapk/expandapk.go (ExpandApk: the cut of the served stream into
   gzip members by expandApkWriter / expandApkReader, which hash covers which
   member, checkSums), pkg/apk/apk/implementation.go (expandPackage,
   verifyExpanded as added by fix 6d335fb, cachedPackage, cachePackage with the
   three files <sha1>.ctl.tar.gz / <name>.dat.tar.gz / <name>.dat.tar,
   APKExpanded.PackageData's rebuild of a missing .dat.tar, apkCache.get = the
   process-wide memo), install.go (streaming install) and pkg/tarfs/fs.go (lazy
   install). No proofs here.

   A served .apk is a byte stream = complete gzip members followed by whatever
   is not one ([s_trail]). Bytes are abstract; SHA-1 / SHA-256 / base64 and the
   decoders (first tar header of a member, .PKGINFO of a control member,
   multi-member gunzip, untar) are Section variables. File conflicts between
   packages (C07), the cache's crash/concurrency protocol (C19) and the cache
   directory's path (C18) are not modelled. *)
From Apko Require Import Base.Prelude Generated.C05Sum.
Open Scope string_scope. Open Scope list_scope.

(* tar.TypeReg / TypeSymlink / TypeDir / TypeLink (hard link) / anything else *)
Inductive fkind := FReg | FSym | FDir | FLink | FOther.
(* the APK-TOOLS.checksum.SHA1 record of a header: absent, undecodable, or bytes *)
Inductive recsum := SumNone | SumBad | SumSome (d : list N).
(* one tar entry of a data section as archive/tar yields it; [f_link] = header.Linkname
   (hard links); [f_sparse]: expanded from a GNU / PAX sparse representation ([f_body] is
   then the LOGICAL content, which is not what is stored at the entry's offset) *)
Record dfile := { f_name : string; f_kind : fkind; f_body : list N; f_sum : recsum; f_link : string; f_sparse : bool }.
(* a control section: its bytes (one gzip member) and what its .PKGINFO says *)
Record control := { c_raw : list N; c_desc : string; c_datahash : list string }.
(* a data section: its compressed bytes and the tar entries an installer reads *)
Record data := { d_raw : list N; d_files : list dfile }.

(* what the origin serves under a URL: the complete gzip members in order, and
   the bytes after the last complete member (empty for a well-formed file) *)
Record stream := { s_members : list (list N); s_trail : list N }.

(* the package handle (index entry or lock-file entry): URL and checksum string *)
Record handle := { h_url : string; h_chk : string }.

(* strings.HasPrefix(chk, "Q1") / strings.TrimPrefix(chk, "Q1") *)
Definition is_q1 (a b : ascii) : bool := Ascii.eqb a "Q"%char && Ascii.eqb b "1"%char.
Definition h_q1 (h : handle) : bool :=
  match h_chk h with String a (String b _) => is_q1 a b | _ => false end.
Definition strip_q1 (s : string) : string :=
  match s with String a (String b r) => if is_q1 a b then r else s | _ => s end.

(* ---- hex ------------------------------------------------------------------ *)
Definition nib (n : N) : ascii :=
  match n with
  | 0 => "0" | 1 => "1" | 2 => "2" | 3 => "3" | 4 => "4" | 5 => "5" | 6 => "6" | 7 => "7"
  | 8 => "8" | 9 => "9" | 10 => "a" | 11 => "b" | 12 => "c" | 13 => "d" | 14 => "e" | _ => "f"
  end%N%char.
Fixpoint hex (b : list N) : string :=
  match b with
  | [] => EmptyString
  | x :: r => String (nib (x / 16)) (String (nib (x mod 16)) (hex r))
  end.
Definition is_hex_digit (c : ascii) : bool :=
  let n := N_of_ascii c in
  ((48 <=? n) && (n <=? 57) || (97 <=? n) && (n <=? 102) || (65 <=? n) && (n <=? 70))%N.
(* encoding/hex.DecodeString succeeds: even length, hex digits *)
Fixpoint is_hex (s : string) : bool :=
  match s with
  | EmptyString => true
  | String a (String b r) => is_hex_digit a && is_hex_digit b && is_hex r
  | String _ EmptyString => false
  end.

(* encoding/hex.DecodeString: pairs of hex digits of either case; odd length or any
   other character is an error *)
Definition hexdig (c : ascii) : option N :=
  let n := N_of_ascii c in
  if ((48 <=? n) && (n <=? 57))%N then Some (n - 48)%N
  else if ((97 <=? n) && (n <=? 102))%N then Some (n - 87)%N
  else if ((65 <=? n) && (n <=? 70))%N then Some (n - 55)%N
  else None.
Fixpoint unhex (s : string) : option (list N) :=
  match s with
  | EmptyString => Some []
  | String a (String b r) =>
      match hexdig a, hexdig b, unhex r with
      | Some x, Some y, Some l => Some ((16 * x + y)%N :: l)
      | _, _, _ => None
      end
  | String _ EmptyString => None
  end.
(* strings.TrimPrefix(s, p) when HasPrefix(s, p) *)
Fixpoint drop_prefix (p s : string) : string :=
  match p, s with String _ p', String _ s' => drop_prefix p' s' | _, _ => s end.

Fixpoint assoc_s {A} (x : string) (l : list (string * A)) : option A :=
  match l with [] => None | (k, v) :: l' => if String.eqb x k then Some v else assoc_s x l' end.
Definition bytes_eqb := list_eqb N.eqb.
Fixpoint assoc_b {A} (x : list N) (l : list (list N * A)) : option A :=
  match l with [] => None | (k, v) :: l' => if bytes_eqb x k then Some v else assoc_b x l' end.

(* ---- the .PKGINFO text ------------------------------------------------------
   controlValue (pkg/apk/apk/util.go) reads the WHOLE first .PKGINFO entry
   (io.ReadAll: no limit on its size or on the length of a line), splits it at
   every "\n", splits every line at every "=", keeps the lines that have
   exactly two parts and whose first part, trimmed, is the wanted key, and
   collects the trimmed second parts IN ORDER: every such line counts, not the
   first or the last one. The functions are written with accumulators so that
   vm_compute runs them on lines of a megabyte. *)
Fixpoint rev_str (s acc : string) : string :=
  match s with EmptyString => acc | String c r => rev_str r (String c acc) end.
(* strings.Split(s, sep) for a one-byte separator; [cur] is the current part reversed *)
Fixpoint split_acc (sep : ascii) (s cur : string) (acc : list string) : list string :=
  match s with
  | EmptyString => List.rev_append acc [rev_str cur ""]
  | String c r => if Ascii.eqb c sep then split_acc sep r "" (rev_str cur "" :: acc)
                  else split_acc sep r (String c cur) acc
  end.
Definition split_on (sep : ascii) (s : string) : list string := split_acc sep s "" [].

(* unicode.IsSpace on the front of a UTF-8 string: \t \n \v \f \r space, U+0085, U+00A0,
   U+1680, U+2000..U+200A, U+2028, U+2029, U+202F, U+205F, U+3000. [strip_space s] =
   the rest of [s] after one leading white-space rune, if there is one. *)
Definition is_ascii_space (c : ascii) : bool :=
  let n := N_of_ascii c in ((9 <=? n) && (n <=? 13) || (n =? 32))%N.
Definition strip_space (s : string) : option string :=
  match s with
  | EmptyString => None
  | String c r =>
      if is_ascii_space c then Some r else
      match N_of_ascii c, r with
      | 194%N, String d r2 => let m := N_of_ascii d in if ((m =? 133) || (m =? 160))%N then Some r2 else None
      | 225%N, String d (String e r3) => if ((N_of_ascii d =? 154) && (N_of_ascii e =? 128))%N then Some r3 else None
      | 226%N, String d (String e r3) =>
          let m := N_of_ascii d in let k := N_of_ascii e in
          if ((m =? 128) && ((128 <=? k) && (k <=? 138) || (k =? 168) || (k =? 169) || (k =? 175)) || (m =? 129) && (k =? 159))%N
          then Some r3 else None
      | 227%N, String d (String e r3) => if ((N_of_ascii d =? 128) && (N_of_ascii e =? 128))%N then Some r3 else None
      | _, _ => None
      end
  end.
(* the same seen from the END of the string (argument: the string reversed) *)
Definition strip_space_rev (s : string) : option string :=
  match s with
  | EmptyString => None
  | String c r =>
      if is_ascii_space c then Some r else
      match r with
      | String d r2 =>
          let k := N_of_ascii c in let m := N_of_ascii d in
          if ((m =? 194) && ((k =? 133) || (k =? 160)))%N then Some r2 else
          match r2 with
          | String e r3 =>
              let l := N_of_ascii e in
              if ((l =? 225) && (m =? 154) && (k =? 128) ||
                  (l =? 226) && ((m =? 128) && ((128 <=? k) && (k <=? 138) || (k =? 168) || (k =? 169) || (k =? 175)) || (m =? 129) && (k =? 159)) ||
                  (l =? 227) && (m =? 128) && (k =? 128))%N
              then Some r3 else None
          | EmptyString => None
          end
      | EmptyString => None
      end
  end.
(* repeated stripping; the fuel is the length of the string (each step removes a byte or more) *)
Fixpoint trim_with (strip : string -> option string) (fuel : nat) (s : string) : string :=
  match fuel with
  | O => s
  | S f => match strip s with Some r => trim_with strip f r | None => s end
  end.
Fixpoint len_acc (s : string) (n : nat) : nat := match s with EmptyString => n | String _ r => len_acc r (S n) end.
(* strings.TrimSpace *)
Definition trim_space (s : string) : string :=
  let a := trim_with strip_space (len_acc s O) s in
  rev_str (trim_with strip_space_rev (len_acc a O) (rev_str a "")) "".

(* the values of [key] in a .PKGINFO text, in the order of their lines *)
Definition line_value (key line : string) : list string :=
  match split_on "="%char line with
  | [k; v] => if String.eqb (trim_space k) key then [trim_space v] else []
  | _ => []
  end.
Definition control_values (text key : string) : list string :=
  List.flat_map (line_value key) (split_on "010"%char text).

(* one package directory of the on-disk cache. <hex sha1>.ctl.tar.gz is keyed by
   the digest (hex of a byte string is injective); <name>.dat.tar.gz and
   <name>.dat.tar (the uncompressed copy installs read) are keyed by the name as
   text because the reader takes it verbatim from `datahash`. The .sig.tar.gz
   file plays no part in what is installed. *)
Record cache := { k_ctl : list (list N * list N); k_gz : list (string * list N); k_tar : list (string * list N) }.
Definition empty_cache : cache := {| k_ctl := []; k_gz := []; k_tar := [] |}.
(* paths.AdvertiseCachedFile: an existing destination is kept *)
Definition adv_s {A} (n : string) (v : A) (l : list (string * A)) : list (string * A) :=
  match assoc_s n l with Some _ => l | None => (n, v) :: l end.
Definition adv_b {A} (n : list N) (v : A) (l : list (list N * A)) : list (list N * A) :=
  match assoc_b n l with Some _ => l | None => (n, v) :: l end.

(* APKExpanded as far as installation uses it: [x_ctl] is what ControlFS holds
   (package info), [x_ctl_file] the bytes of ControlFile (scripts, triggers, what a
   later cache hit opens), [x_dat] the bytes of PackageFile with the entries of the
   tar installs read (TarFS / PackageData) *)
Record exp := { x_ctl : control; x_ctl_file : list N; x_dat : data; x_ctl_hash : list N }.

Inductive eclass := EFetch | EExpand | ESums | EVerify | EInstall.
Inductive eres := XOk (x : exp) | XErr (e : eclass).

(* strings.HasPrefix(hdr.Name, ".SIGN.") in expandApkWriter.Next *)
Definition sign_prefix : string := ".SIGN.".

(* ExpandApk's view of the served bytes *)
Record cutres := {
  u_sig : list N;          (* bytes taken as signature member ([] = none) *)
  u_ctl : list N;          (* bytes hashed with SHA-1 and stored as ControlFile *)
  u_dat : list N;          (* bytes stored as PackageFile *)
  u_full : bool            (* the data branch of the loop ran: SHA-256 over [u_dat], checkSums *)
}.
(* what ExpandApk hands to verifyExpanded / cachePackage *)
Record fetched := {
  e_ctl : control; e_gz : list N; e_tar : list N; e_files : list dfile;
  e_ch : list N;           (* ControlHash *)
  e_dh : list N            (* PackageHash *)
}.
Inductive fres := FOk (e : fetched) | FErr (c : eclass).

(* the package tar index (pkg/apk/internal/tarfs.New over the uncompressed data section)
   hands out the bytes found at an entry's offset; since fix 950e586 it refuses an archive
   with a sparse entry (finding C05-F4: the lazy install served the stored fragments and
   what follows them, bytes nothing had hashed) *)
Definition index_ok (fs : list dfile) : bool := negb (existsb f_sparse fs).

Section Oracles.
  Variable sha1 : list N -> list N.
  Variable sha256 : list N -> list N.
  Variable b64 : string -> option (list N).      (* base64.StdEncoding.DecodeString; None = error *)
  (* decoders of member bytes (gzip, archive/tar, the .PKGINFO line format) *)
  Variable first_name : list N -> option string.              (* Name of the first tar header inside one member; None: none can be read *)
  Variable ctl_view : list N -> option (string * string).      (* a member read as control section: pkgdesc and the TEXT of its first .PKGINFO entry; None: no readable tar / no .PKGINFO *)
  Variable gunzip : list N -> option (list N).                 (* all members of the byte string decompressed and concatenated; None: error *)
  Variable untar : list N -> option (list dfile).              (* the entries up to the end-of-archive marker; None: error *)

  (* the checksum the handle records: base64 of the string with one leading
     "Q1" removed *)
  Definition h_sum (h : handle) : option (list N) := b64 (strip_q1 (h_chk h)).

  (* checksumFromHeader (install.go), used by checkSums and by both installers: the PAX
     record named [pax_checksum_key]; absent (or no PAX records at all) = no checksum;
     with the prefix [checksum_b64_prefix] the rest is base64, otherwise the whole value
     is hex; an undecodable value is an error. Key and prefix are read from the source
     (Generated/C05Sum.v). [recs]: header.PAXRecords (a Go map: keys are unique). *)
  Definition checksum_from_header (recs : list (string * string)) : recsum :=
    match assoc_s pax_checksum_key recs with
    | None => SumNone
    | Some v =>
        if String.prefix checksum_b64_prefix v
        then match b64 (drop_prefix checksum_b64_prefix v) with Some d => SumSome d | None => SumBad end
        else match unhex v with Some d => SumSome d | None => SumBad end
    end.

  Definition mk_ctl (raw : list N) : option control :=
    match ctl_view raw with
    | Some (d, text) => Some {| c_raw := raw; c_desc := d; c_datahash := control_values text "datahash" |}
    | None => None
    end.
  Definition dat_view (gz : list N) : option (list dfile) :=
    match gunzip gz with Some t => untar t | None => None end.

  (* ---- ExpandApk: the cut ---------------------------------------------------
     The source is read ONE BYTE AT A TIME (expandApkReader) through a tee into
     the current stream file and the current hash while a gzip reader with
     Multistream(false) consumes one member: so the first member(s) are cut
     exactly at their last byte, file and hash hold exactly the member. After
     the first member its first tar header is read back: a name with prefix
     ".SIGN." raises the number of expected streams from 2 to 3. The LAST
     expected stream is read fast, multistream and to the end of the input: all
     remaining members together are the data section, hashed with SHA-256, and
     checkSums runs over their concatenated tar. Anything that is not a gzip
     member where a header is expected is an error, wherever it stands.
     When the input ends before the last expected stream was opened, the streams
     seen so far are counted. Until fix 3bc1979 two were then accepted as
     (control, data) even when three were expected: for a first member that
     starts with .SIGN.* this took the signature for the control section and the
     next member — hashed with SHA-1, never run through checkSums — for the data
     section (finding C05-F3). [accept2 = true] is that earlier behaviour, kept
     for the regression statement only; the code today is [accept2 = false]. *)
  Definition cut_with (accept2 : bool) (s : stream) : option cutres :=
    match s_trail s, s_members s with
    | _ :: _, _ => None
    | [], [] => None                                            (* "empty input" *)
    | [], m0 :: rest =>
        match first_name m0 with
        | None => None                                          (* expandApkWriter.Next error 3/4 *)
        | Some n =>
            if String.prefix sign_prefix n then
              match rest with
              | [] => None                                      (* invalid number of tar streams: 1 *)
              | [m1] => if accept2
                        then Some {| u_sig := []; u_ctl := m0; u_dat := m1; u_full := false |}
                        else None                               (* invalid number of tar streams for a signed package: 2 *)
              | m1 :: m2 :: more => Some {| u_sig := m0; u_ctl := m1; u_dat := List.concat (m2 :: more); u_full := true |}
              end
            else
              match rest with
              | [] => None                                      (* invalid number of tar streams: 1 *)
              | _ :: _ => Some {| u_sig := []; u_ctl := m0; u_dat := List.concat rest; u_full := true |}
              end
        end
    end.
  Definition cut := cut_with false.
  (* the shape of C05-F3: exactly two members, the first starts with a .SIGN.* entry *)
  Definition sig2 (s : stream) : bool :=
    match s_members s with
    | [m0; _] => match first_name m0 with Some n => String.prefix sign_prefix n | None => false end
    | _ => false
    end.

  (* expandapk.checkSums: only regular files, only when a checksum is recorded *)
  Fixpoint check_sums (fs : list dfile) : bool :=
    match fs with
    | [] => true
    | f :: r =>
        match f_kind f with
        | FReg =>
            match f_sum f with
            | SumNone => check_sums r
            | SumBad => false
            | SumSome d => bytes_eqb d (sha1 (f_body f)) && check_sums r
            end
        | _ => check_sums r
        end
    end.

  Definition expand_apk_with (accept2 : bool) (s : stream) : fres :=
    match cut_with accept2 s with
    | None => FErr EExpand
    | Some u =>
        match gunzip (u_dat u) with
        | None => FErr EExpand
        | Some t =>
            match untar t with
            | None => FErr EExpand                               (* checkSums / tarfs.New on the data section *)
            | Some fs =>
                if u_full u && negb (check_sums fs) then FErr ESums
                else if negb (index_ok fs) then FErr EExpand     (* tarfs.New on the data section *)
                else match mk_ctl (u_ctl u) with
                     | None => FErr EExpand                      (* tarfs.New on the control section / no .PKGINFO *)
                     | Some c =>
                         FOk {| e_ctl := c; e_gz := u_dat u; e_tar := t; e_files := fs;
                                e_ch := sha1 (u_ctl u);
                                e_dh := if u_full u then sha256 (u_dat u) else sha1 (u_dat u) |}
                     end
            end
        end
    end.

  Definition expand_apk := expand_apk_with false.

  (* verifyExpanded *)
  Definition verify_expanded (h : handle) (ctl_hash dat_hash : list N) (c : control) : bool :=
    match h_sum h with
    | None => false
    | Some want =>
        bytes_eqb want ctl_hash &&
        forallb (fun dh => String.eqb dh "" || String.eqb dh (hex dat_hash)) (c_datahash c)
    end.

  (* cachedPackage: everything is looked up BY NAME; nothing is re-hashed.
     PackageData opens <name>.dat.tar when it exists and otherwise rebuilds it
     from <name>.dat.tar.gz — the rebuilt file stays even if indexing it fails *)
  Definition cached_package (k : cache) (h : handle) : option exp * cache :=
    if h_q1 h then
      match h_sum h with
      | Some sum =>
          match assoc_b sum (k_ctl k) with
          | Some craw =>
              match mk_ctl craw with
              | Some c =>
                  match c_datahash c with
                  | [dh] =>
                      match assoc_s dh (k_gz k) with
                      | Some gz =>
                          if is_hex dh then
                            let mk t := match untar t with
                                        | Some fs => if index_ok fs
                                                     then Some {| x_ctl := c; x_ctl_file := craw; x_dat := {| d_raw := gz; d_files := fs |}; x_ctl_hash := sum |}
                                                     else None
                                        | None => None
                                        end in
                            match assoc_s dh (k_tar k) with
                            | Some t => (mk t, k)
                            | None =>
                                match gunzip gz with
                                | Some t => (mk t,
                                             {| k_ctl := k_ctl k; k_gz := k_gz k; k_tar := (dh, t) :: k_tar k |})
                                | None => (None, k)
                                end
                            end
                          else (None, k)
                      | None => (None, k)
                      end
                  | _ => (None, k)                  (* "saw %d datahash values" *)
                  end
              | None => (None, k)
              end
          | None => (None, k)
          end
      | None => (None, k)
      end
    else (None, k).                                 (* "unexpected checksum" *)

  (* cachePackage: data, tar, control are advertised under the COMPUTED digests;
     AdvertiseCachedFile keeps an existing destination; the returned APKExpanded
     points at the cache files, its TarFS is re-opened from the cache's tar *)
  Definition cache_package (k : cache) (e : fetched) : cache * option exp :=
    let n := hex (e_dh e) in
    let k' := {| k_ctl := adv_b (e_ch e) (c_raw (e_ctl e)) (k_ctl k);
                 k_gz := adv_s n (e_gz e) (k_gz k);
                 k_tar := adv_s n (e_tar e) (k_tar k) |} in
    let cfile := match assoc_b (e_ch e) (k_ctl k') with Some c' => c' | None => c_raw (e_ctl e) end in
    let gz := match assoc_s n (k_gz k') with Some g => g | None => e_gz e end in
    let tar := match assoc_s n (k_tar k') with Some t => t | None => e_tar e end in
    (k', match untar tar with
         | Some fs => if index_ok fs
                      then Some {| x_ctl := e_ctl e; x_ctl_file := cfile; x_dat := {| d_raw := gz; d_files := fs |}; x_ctl_hash := e_ch e |}
                      else None
         | None => None
         end).

  (* expandPackage (the function, not the method). [k] = None: no cache. *)
  Definition expand_uncached (k : option cache) (h : handle) (served : option stream)
    : eres * option cache :=
    let '(hit, k1) := match k with
                      | Some kc => let (x, kc1) := cached_package kc h in (x, Some kc1)
                      | None => (None, None)
                      end in
    match hit with
    | Some x => (XOk x, k1)                                      (* cache hit: returned as is *)
    | None =>
        match served with
        | None => (XErr EFetch, k1)
        | Some s =>
            match expand_apk s with
            | FErr c => (XErr c, k1)
            | FOk e =>
                if negb (verify_expanded h (e_ch e) (e_dh e) (e_ctl e)) then (XErr EVerify, k1)
                else match k1 with
                     | None => (XOk {| x_ctl := e_ctl e; x_ctl_file := c_raw (e_ctl e);
                                       x_dat := {| d_raw := e_gz e; d_files := e_files e |}; x_ctl_hash := e_ch e |}, None)
                     | Some kc => let (kc', x) := cache_package kc e in
                                  (match x with Some x => XOk x | None => XErr EExpand end, Some kc')
                     end
            end
        end
    end.

  (* the method APK.expandPackage: with a cache configured the result is memoised per
     process (globalApkCache); since fix 6e5c862 a FAILED expansion is forgotten (its
     sync.Once is deleted), so only successes stay. The key is the pair (URL,
     checksum string) since fixes 9459281 / C05-c; originally it was the URL alone
     (C05-F1: a request recording another checksum got the first expansion back),
     then URL + "@" + checksum joined into one string (C05-F2: ambiguous when
     either part contains '@'). *)
  Definition memo := list ((string * string) * eres).
  Definition memo_key (h : handle) : string * string := (h_url h, h_chk h).
  Definition key_eqb (a b : string * string) : bool :=
    String.eqb (fst a) (fst b) && String.eqb (snd a) (snd b).
  Fixpoint assoc_k (x : string * string) (l : memo) : option eres :=
    match l with [] => None | (k, v) :: l' => if key_eqb x k then Some v else assoc_k x l' end.
  Definition expand_package (m : memo) (k : option cache) (h : handle) (served : option stream)
    : eres * option cache * memo :=
    match k with
    | None => let (r, k') := expand_uncached None h served in (r, k', m)
    | Some _ =>
        match assoc_k (memo_key h) m with
        | Some r => (r, k, m)
        | None => let (r, k') := expand_uncached k h served in
                  (r, k', match r with XOk _ => (memo_key h, r) :: m | XErr _ => m end)
        end
    end.
End Oracles.

(* ---- where the bytes of a fetch come from (APK.FetchPackage + cacheTransport.RoundTrip with
   etagRequired = false) ----------------------------------------------------------
   A local path ("file" scheme) is opened directly. An http(s) URL with a cache
   configured goes through the cache transport: a file found under the URL-derived
   name <cache>/<escaped repository URL>/<arch>/<name>.apk ([whole]; nothing in apko
   writes it, a cache directory is pre-populated with it) IS the response, online
   and offline alike, and the origin is not asked; without such a file an OFFLINE
   cache fails and an online one asks the origin. Nothing on this path looks at
   the bytes: whatever comes out is "served" to expandPackage like any download. *)
Definition fetch (http has_cache offline : bool) (whole origin : option stream) : option stream :=
  if http && has_cache then
    match whole with
    | Some w => Some w
    | None => if offline then None else origin
    end
  else origin.

(* ---- installation ----------------------------------------------------------- *)
(* leading hidden top-level entries are skipped until the data section starts *)
Fixpoint has_slash (s : string) : bool :=
  match s with EmptyString => false | String c r => Ascii.eqb c "/"%char || has_slash r end.
Definition hidden (f : dfile) : bool :=
  match f_name f with String c _ => Ascii.eqb c "."%char && negb (has_slash (f_name f)) | EmptyString => false end.
Fixpoint data_section (fs : list dfile) : list dfile :=
  match fs with [] => [] | f :: r => if hidden f then data_section r else fs end.

(* installAPKFiles (streaming) / lazilyInstallAPKFiles + tarfs WriteHeader (lazy).
   Regular files: the lazy install needs a decodable recorded checksum, the
   streaming install recomputes a missing one (and fails on an undecodable one);
   no body is compared with anything on either path. Symlinks: lazy needs a
   decodable record, streaming ignores it. Hard links: fs.Link(Linkname, Name) on
   both paths, no checksum involved — the new name holds the bytes of what the
   target name holds at that moment ([seen]: names written so far by this
   package; a missing target is an error). Other entry types: "unsupported file
   type". The result lists (name, bytes) of everything readable as a file. *)
Fixpoint install_files (lazy : bool) (seen : list (string * list N)) (fs : list dfile)
  : option (list (string * list N)) :=
  match fs with
  | [] => Some []
  | f :: r =>
      match f_kind f with
      | FDir => install_files lazy seen r
      | FOther => None
      | FReg =>
          let ok := match f_sum f with SumBad => false | SumNone => negb lazy | SumSome _ => true end in
          if ok then option_map (cons (f_name f, f_body f)) (install_files lazy ((f_name f, f_body f) :: seen) r)
          else None
      | FSym =>
          let ok := match f_sum f with SumSome _ => true | _ => negb lazy end in
          if ok then install_files lazy seen r else None
      | FLink =>
          match assoc_s (f_link f) seen with
          | Some b => option_map (cons (f_name f, b)) (install_files lazy ((f_name f, b) :: seen) r)
          | None => None
          end
      end
  end.

Definition install (lazy : bool) (x : exp) : option (list (string * list N)) :=
  install_files lazy [] (data_section (d_files (x_dat x))).
