(* C01 model: the pieces of apko that are supposed to make a build independent
   of Go map iteration order, goroutine completion order and the environment.
   Executable transcriptions, no proofs inside. Go map iteration is always an
   explicit [ord] argument (the order in which `range` happened to produce the
   keys); goroutine completion order is an explicit schedule. *)
From Apko Require Import Base.Prelude Base.C01Lib.
Open Scope string_scope. Open Scope list_scope.

(* ---- rendering helpers --------------------------------------------------- *)
Fixpoint join (sep : string) (l : list string) : string :=
  match l with
  | [] => ""
  | [x] => x
  | x :: t => x ++ sep ++ join sep t
  end.
Definition nl : string := String (ascii_of_nat 10) "".
(* strings.Join(l, "\n") + "\n" : etc/apk/world, etc/apk/repositories *)
Definition lines_file (l : list string) : string := join nl l ++ nl.

Fixpoint mem (x : string) (l : list string) : bool :=
  match l with [] => false | y :: t => String.eqb x y || mem x t end.

(* ---- pkg/build/apk.go: initializeApk / postBuildSetApk ------------------- *)
(* packages := sets.List(sets.New(ic.Contents.Packages...).Insert(o.ExtraPackages...)) *)
Definition canon_packages (pkgs extra : list string) : list string := set_list (pkgs ++ extra).
(* packages = append(packages, basePkgsNames...); SetWorld sorts a copy (sort.Strings) *)
Definition canon_world (pkgs extra base : list string) : list string :=
  ssort (canon_packages pkgs extra ++ base).
Definition world_file (pkgs extra base : list string) : string := lines_file (canon_world pkgs extra base).

(* buildRepos := sets.List(sets.New(Build...).Insert(Runtime...).Insert(ExtraBuild...).Insert(ExtraRuntime...)) *)
Definition canon_build_repos (build runtime xbuild xruntime : list string) : list string :=
  set_list (build ++ runtime ++ xbuild ++ xruntime).
(* runtimeRepos := sets.List(sets.New(Runtime...).Insert(ExtraRuntime...)); this is what stays in the image *)
Definition canon_runtime_repos (runtime xruntime : list string) : list string := set_list (runtime ++ xruntime).
Definition repositories_file (runtime xruntime : list string) : string := lines_file (canon_runtime_repos runtime xruntime).

(* keyring := sets.List(sets.New(Keyring...).Insert(ExtraKeyFiles...)) *)
Definition canon_keyring (keyring extra : list string) : list string := set_list (keyring ++ extra).

(* InitKeyring: one goroutine per key writes etc/apk/keys/<basename> = data;
   the schedule is the order in which the writes land. The directory is a
   map basename -> data (a later write replaces an earlier one). *)
Fixpoint upsert (k v : string) (m : list (string * string)) : list (string * string) :=
  match m with
  | [] => [(k, v)]
  | (k', v') :: t => if String.eqb k k' then (k, v) :: t else (k', v') :: upsert k v t
  end.
Fixpoint lookup (k : string) (m : list (string * string)) : option string :=
  match m with
  | [] => None
  | (k', v) :: t => if String.eqb k k' then Some v else lookup k t
  end.
Definition keyring_writes (sched : list (string * string)) : list (string * string) :=
  fold_left (fun m kv => upsert (fst kv) (snd kv) m) sched [].
(* what the layer shows: the directory listing is sorted (ReadDir), each name with its content *)
Definition keys_dir (sched : list (string * string)) : list (string * option string) :=
  let m := keyring_writes sched in
  List.map (fun k => (k, lookup k m)) (ssort (List.map fst m)).

(* ---- pkg/build/oci/image.go: environment --------------------------------- *)
Definition env_entry (kv : string * string) : string := fst kv ++ "=" ++ snd kv.
(* defaults are added for the names the configuration does not set (map
   insertion: the result is a map whatever order the two defaults are visited in) *)
Definition env_with_defaults (defaults env : list (string * string)) : list (string * string) :=
  env ++ List.filter (fun d => negb (mem (fst d) (List.map fst env))) defaults.
(* for k, v := range env { envs = append(envs, k+"="+v) }; sort.Strings(envs) —
   [ord] is the order in which range produced the entries *)
Definition canon_env (ord : list (string * string)) : list string := ssort (List.map env_entry ord).

(* ---- pkg/build/oci/index.go, pkg/build/sbom.go: architectures ------------- *)
(* for arch := range imgs { archs = append(archs, arch) }; sort.Slice(archs, String() <) *)
Definition canon_archs (ord : list string) : list string := ssort ord.

(* ---- pkg/tarfs/fs.go: ReadDir ---------------------------------------------- *)
(* for name := range children {...}; sort.Slice(de, Name() <) *)
Definition canon_readdir (ord : list string) : list string := ssort ord.

(* ---- pkg/apk/apk/installed.go: sortTarHeaders ------------------------------ *)
(* for dir := range directoryChildren {...}; sort.Strings(dirEntries) *)
Definition canon_dir_entries (ord : list string) : list string := ssort ord.

(* ---- pkg/build/layers.go: groupByOriginAndSize ---------------------------- *)
Record group := { g_size : N; g_tiebreaker : string; g_pkgs : list string }.
(* cmp.Or(cmp.Compare(b.size, a.size), cmp.Compare(a.tiebreaker, b.tiebreaker)) <= 0 *)
Definition group_leb (a b : group) : bool :=
  (g_size b <? g_size a)%N || ((g_size a =? g_size b)%N && sleb (g_tiebreaker a) (g_tiebreaker b)).
(* [ord] = the order in which maps.Values(byOrigin) produced the groups *)
Definition canon_groups (ord : list group) : list group := isort group_leb ord.
(* g.tiebreaker = max over the group's package names, starting from "" *)
Definition smax (a b : string) : string := if sleb a b then b else a.
Definition tiebreaker_of (pkgs : list string) : string := fold_left smax pkgs "".
(* slices.SortFunc(g.pkgs, cmp.Compare(a.Name, b.Name)) *)
Definition canon_group_pkgs (pkgs : list string) : list string := ssort pkgs.

(* ---- pkg/build/build.go: GetBuildDateEpoch; internal/cli/build.go --------- *)
(* instants as integers (time.Time compared with After) *)
Definition after (a b : Z) : bool := (b <? a)%Z.
(* build.New: SOURCE_DATE_EPOCH overrides the flag when set and not blank.
   env = None: unset; Some None: set but blank; Some (Some z): parsed value *)
Definition resolve_sde (flag : Z) (env : option (option Z)) : Z :=
  match env with Some (Some z) => z | _ => flag end.
Definition pkg_bde (sde : Z) (times : list Z) : Z :=
  fold_left (fun b t => if after t b then t else b) times sde.
(* GetBuildDateEpoch: os.LookupEnv ok => o.SourceDateEpoch, else max with installed packages *)
Definition build_date_epoch (flag : Z) (env : option (option Z)) (times : list Z) : Z :=
  let sde := resolve_sde flag env in
  match env with Some _ => sde | None => pkg_bde sde times end.
(* buildImageComponents: under the mutex, in goroutine completion order:
   if bde.After(multiArchBDE) { multiArchBDE = bde } *)
Definition multi_arch_bde (sde : Z) (completed : list Z) : Z :=
  fold_left (fun m b => if after b m then b else m) completed sde.

(* ---- pkg/apk/apk/implementation.go: InstallPackages ------------------------ *)
(* N expansion goroutines finish in any order (each closes done[i] after
   storing its own result); one installer goroutine waits for done[0],
   done[1], ... in index order and installs. An [event] is either "expansion
   i finished" or "the installer goroutine gets to run one iteration" (which
   blocks - is a no-op - when done[next] is not closed yet). *)
Section Install.
  Variables (P E St : Type).
  Variable expand : P -> option E.                  (* expandPackage; None = error *)
  Variable install : St -> nat -> P -> E -> option St. (* isInstalled / packageInfo / installPackage; None = error *)
  Variable pkgs : list P.

  Inductive event := Done (i : nat) | Step.

  Record ist := { i_done : list nat; i_next : nat; i_state : option St (* None: the installer returned an error *) }.

  Definition nat_mem (x : nat) (l : list nat) : bool := existsb (Nat.eqb x) l.

  Definition step (s : ist) (e : event) : ist :=
    match e with
    | Done i => {| i_done := i :: i_done s; i_next := i_next s; i_state := i_state s |}
    | Step =>
        match i_state s with
        | None => s
        | Some fs =>
            match nth_error pkgs (i_next s) with
            | None => s                                  (* loop over done[] is finished *)
            | Some p =>
                if nat_mem (i_next s) (i_done s) then
                  match expand p with
                  | None => {| i_done := i_done s; i_next := i_next s; i_state := None |}   (* "expansion of %s failed" *)
                  | Some e =>
                      match install fs (i_next s) p e with
                      | None => {| i_done := i_done s; i_next := i_next s; i_state := None |}
                      | Some fs' => {| i_done := i_done s; i_next := S (i_next s); i_state := Some fs' |}
                      end
                  end
                else s                                   (* blocked on <-done[next] *)
            end
        end
    end.

  Definition init (fs : St) : ist := {| i_done := []; i_next := 0; i_state := Some fs |}.
  Definition run (fs : St) (sched : list event) : ist := fold_left step sched (init fs).
  (* g.Wait(): every goroutine has returned; the installer has consumed what it can *)
  Definition finish (s : ist) : ist := fold_left step (repeat Step (List.length pkgs)) s.
  Definition outcome (fs : St) (sched : list event) : option St := i_state (finish (run fs sched)).

  Definition dones (sched : list event) : list nat :=
    flat_map (fun e => match e with Done i => [i] | Step => [] end) sched.

  (* the reference: expand and install one after the other in index order *)
  Fixpoint seq_install (i : nat) (ps : list P) (fs : St) : option St :=
    match ps with
    | [] => Some fs
    | p :: t =>
        match expand p with
        | None => None
        | Some e => match install fs i p e with None => None | Some fs' => seq_install (S i) t fs' end
        end
    end.
End Install.

(* ---- pkg/apk/apk/repo.go: GetPackageWithDependencies, install_if loop ------
   No second model here any more: the install_if loop is Model/Resolver.v's
   iif_loop / iif_visit (versioned entries included); C01's statement about it is
   Proofs/ReproResolve.v, the installif stage compares with Resolver.resolve. *)

(* ---- output tarball: ggcr tarball.MultiWrite + BuildIndex's appended members - *)
(* for img := range imageToTags (ORDER = Go map iteration): config, then each
   layer not written yet; then manifest.json; BuildIndex then appends the image
   manifests in index order and index.json *)
Definition timg := (string * list string)%type.   (* config member, layer members *)
Fixpoint write_layers (seen layers : list string) : list string * list string :=
  match layers with
  | [] => ([], seen)
  | l :: t => if mem l seen then write_layers seen t
              else let '(out, seen') := write_layers (l :: seen) t in (l :: out, seen')
  end.
Fixpoint write_images (seen : list string) (imgs : list timg) : list string :=
  match imgs with
  | [] => []
  | (cfg, layers) :: t => let '(out, seen') := write_layers seen layers in cfg :: out ++ write_images seen' t
  end.
Definition tar_members (ord : list timg) (manifests : list string) : list string :=
  write_images [] ord ++ ["manifest.json"] ++ manifests ++ ["index.json"].

(* all permutations (for checking an observed order against the model) *)
Fixpoint inserts {A} (x : A) (l : list A) : list (list A) :=
  match l with
  | [] => [[x]]
  | y :: t => (x :: l) :: List.map (cons y) (inserts x t)
  end.
Fixpoint perms {A} (l : list A) : list (list A) :=
  match l with
  | [] => [[]]
  | x :: t => flat_map (inserts x) (perms t)
  end.
