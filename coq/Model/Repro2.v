(* C01 model, part 2 (session 6): the order- and path-sensitive pieces whose CODE
   is read from the source by goextract (Generated/C01Calls.v, Generated/C10Steps.v)
   and interpreted here, so that the theorems of Properties/C01.v are statements
   about what the source says today:

   1. the two date folds (GetBuildDateEpoch over the installed packages,
      buildImageComponents over the architectures in COMPLETION order): which two
      values the loop compares, with which method, what it assigns, what it starts
      from and what is finally used are data ([fold code]);
   2. /etc/apk/repositories: initializeApk writes the union of the configured
      lists plus — on a base image — the path of the base image's auxiliary index
      (a temp path); the steps of the build (C10's generated step lists, run by
      C10's interpreter [BuildSteps.trace]) end with postBuildSetApk writing the
      runtime list;
   3. InstallPackages' goroutine group with its limit g.SetLimit(GOMAXPROCS + k):
      expansions are STARTED in index order, each start waits for a free slot, the
      installer goroutine holds a slot while it runs.

   No proofs inside. *)
From Apko Require Import Base.Prelude Base.C01Lib Model.Repro Model.BuildSteps.
Open Scope string_scope. Open Scope list_scope.

(* ---- 1. date folds ---------------------------------------------------------- *)
Definition fold_code := list (string * string).
Fixpoint code_get (k : string) (c : fold_code) : string :=
  match c with
  | [] => ""
  | (k', v) :: t => if String.eqb k k' then v else code_get k t
  end.

(* an operand by the role goextract gave it: the configured date, the running
   value, the value met in this round; anything else is not understood *)
Definition operand (r : string) (init acc new : Z) : option Z :=
  if String.eqb r "init" then Some init
  else if String.eqb r "acc" then Some acc
  else if String.eqb r "new" then Some new
  else None.
(* time.Time.After / Before on instants *)
Definition cmp_holds (m : string) (a b : Z) : option bool :=
  if String.eqb m "After" then Some (b <? a)%Z
  else if String.eqb m "Before" then Some (a <? b)%Z
  else None.
(* one round: if <recv>.<method>(<arg>) { <lhs> = <rhs> } — the running value afterwards *)
Definition fold_step (c : fold_code) (init acc new : Z) : option Z :=
  match operand (code_get "recv" c) init acc new, operand (code_get "arg" c) init acc new,
        operand (code_get "rhs" c) init acc new with
  | Some x, Some y, Some v =>
      match cmp_holds (code_get "method" c) x y with
      | Some true => if String.eqb (code_get "lhs" c) "acc" then Some v else None
      | Some false => Some acc
      | None => None
      end
  | _, _, _ => None
  end.
(* the rounds in the order given (completion order of the goroutines / order of GetInstalled) *)
Definition fold_run (c : fold_code) (init : Z) (l : list Z) : option Z :=
  fold_left (fun a new => match a with Some acc => fold_step c init acc new | None => None end) l
            (if String.eqb (code_get "init" c) "init" then Some init else None).
Definition fold_result (c : fold_code) (init : Z) (l : list Z) : option Z :=
  match fold_run c init l with
  | Some acc => if String.eqb (code_get "result" c) "acc" then Some acc
                else if String.eqb (code_get "result" c) "init" then Some init else None
  | None => None
  end.

(* buildImageComponents: [completed] = the per-architecture dates in the order the goroutines take the mutex *)
Definition multi_arch_date (c : fold_code) (sde : Z) (completed : list Z) : option Z := fold_result c sde completed.

(* GetBuildDateEpoch: [env] as in Repro.resolve_sde (None unset, Some None blank, Some (Some z) parsed) *)
Definition build_date (c : fold_code) (flag : Z) (env : option (option Z)) (times : list Z) : option Z :=
  let sde := resolve_sde flag env in
  match env with
  | Some _ => if String.eqb (code_get "env_set_returns" c) "init" then Some sde else None
  | None => if String.eqb (code_get "over" c) "installed" then fold_result c sde times else None
  end.

(* a fold that is NOT a running maximum, for contrast (the new value is compared with the configured date) *)
Definition last_finisher_fold : fold_code :=
  [("method", "After"); ("recv", "new"); ("arg", "init"); ("lhs", "acc"); ("rhs", "new"); ("init", "init"); ("result", "acc")].

(* ---- 2. /etc/apk/repositories ------------------------------------------------- *)
Record repo_cfg := { rc_build : list string; rc_runtime : list string; rc_xbuild : list string; rc_xruntime : list string }.
(* a configuration field by the text goextract prints (receiver spelled bc) *)
Definition repo_field (c : repo_cfg) (s : string) : option (list string) :=
  if String.eqb s "bc.ic.Contents.BuildRepositories" then Some (rc_build c)
  else if String.eqb s "bc.ic.Contents.RuntimeRepositories" then Some (rc_runtime c)
  else if String.eqb s "bc.o.ExtraBuildRepos" then Some (rc_xbuild c)
  else if String.eqb s "bc.o.ExtraRuntimeRepos" then Some (rc_xruntime c)
  else None.
(* sets.List(sets.New(f1...).Insert(f2...)...) *)
Fixpoint repo_union (c : repo_cfg) (srcs : list string) : option (list string) :=
  match srcs with
  | [] => Some []
  | s :: t => match repo_field c s, repo_union c t with
              | Some a, Some b => Some (a ++ b)
              | _, _ => None
              end
  end.
Definition repo_set (c : repo_cfg) (srcs : list string) : option (list string) :=
  match srcs with
  | [] => None                       (* no list found in the source *)
  | _ => option_map set_list (repo_union c srcs)
  end.
(* what initializeApk appends to the sorted union before writing it: on a base
   image ([base] = Some path of its auxiliary index below the temp directory)
   that path.  Any other append is not understood. *)
Fixpoint repo_appends (apps : list (string * string)) (base : option string) : option (list string) :=
  match apps with
  | [] => Some []
  | (cond, e) :: t =>
      if String.eqb cond "bc.baseimg != nil" && String.eqb e "bc.baseimg.APKIndexPath()" then
        match repo_appends t base with
        | Some r => Some (match base with Some p => p :: r | None => r end)
        | None => None
        end
      else None
  end.
(* the list SetRepositories writes in initializeApk = the file while packages are installed *)
Definition init_repos (srcs : list string) (apps : list (string * string)) (c : repo_cfg) (base : option string) : option (list string) :=
  match repo_set c srcs, repo_appends apps base with
  | Some l, Some a => Some (l ++ a)
  | _, _ => None
  end.

(* the steps of the build on the repositories file: SetRepositories (called by
   postBuildSetApk with the union of [srcs]) replaces it, no other step of the
   generated lists writes it *)
Definition repos_sem (c : repo_cfg) (srcs : list string) (call : string) (st : list string) : res (list string) :=
  if String.eqb call "bc.apk.SetRepositories" then
    match repo_set c srcs with Some l => Ok l | None => Err end
  else Ok st.
(* the file in the filesystem that is serialised into the layer(s); None = this
   configuration serialises nothing (the build fails before) *)
Definition final_repos (defs : fdefs) (srcs : list string) (cond : string -> bool) (c : repo_cfg) (st0 : list string)
  : option (res (list string)) :=
  match split_at_serialiser (fst (build_trace defs cond)) with
  | Some (before, _, _) => Some (exec (list string) (repos_sem c srcs) before st0)
  | None => None
  end.
(* one configuration for examples and the correspondence: the single-layer build
   (BuildLayers' own condition as the source has it), every other condition false *)
Definition single_layer_cond (defs : fdefs) : string -> bool := override (single_when defs) (fun _ => false).
(* decidable: every build that serialises has run SetRepositories before *)
Definition set_before_serialise (defs : fdefs) (cond : string -> bool) : bool :=
  match split_at_serialiser (fst (build_trace defs cond)) with
  | Some (before, _, _) => in_list "bc.apk.SetRepositories" before
  | None => true
  end.

(* ---- 3. InstallPackages with the limit of its goroutine group -------------------- *)
(* errgroup: g.Go blocks while [limit] goroutines of the group are running.  The
   installer goroutine is started first and runs until it has installed every
   package or failed; the expansions are started by the calling goroutine in
   index order.  An [levent] is: the next expansion is started (needs a free
   slot), expansion i finishes (it must have been started), the installer gets a
   turn.  [limit = None]: no limit. *)
Section Limit.
  Variables (P E St : Type).
  Variable expand : P -> option E.
  Variable install : St -> nat -> P -> E -> option St.
  Variable pkgs : list P.
  Variable limit : option nat.

  Inductive levent := LStart | LDone (i : nat) | LStep.
  Record lstate := { l_started : nat; l_ist : ist St }.

  (* the installer goroutine has not returned: no error so far and packages left *)
  Definition alive (s : ist St) : bool :=
    match i_state St s with
    | None => false
    | Some _ => Nat.ltb (i_next St s) (List.length pkgs)
    end.
  Definition active (s : lstate) : nat :=
    (l_started s - List.length (i_done St (l_ist s))) + (if alive (l_ist s) then 1 else 0).
  Definition enabled (s : lstate) (e : levent) : bool :=
    match e with
    | LStart => Nat.ltb (l_started s) (List.length pkgs) &&
                match limit with None => true | Some L => Nat.ltb (active s) L end
    | LDone i => Nat.ltb i (l_started s) && negb (nat_mem i (i_done St (l_ist s)))
    | LStep => true
    end.
  Definition lstep (s : lstate) (e : levent) : lstate :=
    match e with
    | LStart => {| l_started := S (l_started s); l_ist := l_ist s |}
    | LDone i => {| l_started := l_started s; l_ist := step P E St expand install pkgs (l_ist s) (Done i) |}
    | LStep => {| l_started := l_started s; l_ist := step P E St expand install pkgs (l_ist s) Step |}
    end.
  Definition linit (fs : St) : lstate := {| l_started := 0; l_ist := init St fs |}.
  (* every event was enabled when it happened *)
  Fixpoint lvalid (s : lstate) (es : list levent) : bool :=
    match es with
    | [] => true
    | e :: t => enabled s e && lvalid (lstep s e) t
    end.
  Definition lrun (s : lstate) (es : list levent) : lstate := fold_left lstep es s.
  (* the same run seen by the unlimited model of Repro.v *)
  Definition erase (es : list levent) : list event :=
    flat_map (fun e => match e with LStart => [] | LDone i => [Done i] | LStep => [Step] end) es.
  (* every expansion has finished (g.Wait() can return once the installer has, too) *)
  Definition all_finished (s : lstate) : bool := Nat.eqb (List.length (i_done St (l_ist s))) (List.length pkgs).
End Limit.

(* g.SetLimit(GOMAXPROCS + k), k read from the source (None = no SetLimit call) *)
Definition install_limit (extra : option nat) (jobs : nat) : option nat := option_map (fun k => jobs + k) extra.

(* ---- 4. wave 3: things a build must not inherit from what happened before ---------- *)
(* 4a. a file written from offset 0 over whatever the path held: the flags of the
   open call (read from the source) decide whether earlier content survives.
   os.Create = O_RDWR|O_CREATE|O_TRUNC; O_EXCL (os.CreateTemp) = the file is new. *)
Definition opens_fresh (flags : list string) : bool := mem "O_TRUNC" flags || mem "O_EXCL" flags.
Definition file_after {A} (flags : list string) (old new : list A) : list A :=
  if opens_fresh flags then new else new ++ skipn (List.length new) old.

(* 4b. GetRepositoryIndexes: one goroutine per repository; [results] = what each
   one reads (None: the repository has no index, nothing is stored), [sched] = the
   order in which they finish.  The code stores at the goroutine's own position and
   drops the holes afterwards; the alternative appends in arrival order. *)
Fixpoint upd {A} (i : nat) (v : A) (l : list A) : list A :=
  match l with
  | [] => []
  | x :: t => match i with O => v :: t | S j => x :: upd j v t end
  end.
Definition by_position {A} (results : list (option A)) (sched : list nat) : list (option A) :=
  fold_left (fun l i => match nth_error results i with Some r => upd i r l | None => l end) sched
            (repeat None (List.length results)).
Definition drop_holes {A} (l : list (option A)) : list A :=
  flat_map (fun o => match o with Some v => [v] | None => [] end) l.
Definition indexes_by_position {A} (results : list (option A)) (sched : list nat) : list A := drop_holes (by_position results sched).
Definition indexes_by_arrival {A} (results : list (option A)) (sched : list nat) : list A :=
  flat_map (fun i => match nth_error results i with Some (Some v) => [v] | _ => [] end) sched.

(* ---- 5. round 2: the other steps of a build may do ANYTHING to the file --------------- *)
(* [other] is an arbitrary semantics (it may rewrite the file, it may fail) for every
   step that is neither SetRepositories nor one of C10's pure calls (which only read:
   BuildSteps.pure_calls).  What makes the final file a function of the configuration
   is then the ORDER read from the source: SetRepositories is the last step that may
   change the filesystem before it is serialised. *)
Definition repos_sem_any (other : string -> list string -> res (list string)) (c : repo_cfg) (srcs : list string)
    (call : string) (st : list string) : res (list string) :=
  if String.eqb call "bc.apk.SetRepositories" then
    match repo_set c srcs with Some l => Ok l | None => Err end
  else if in_list call pure_calls then Ok st
  else other call st.
Definition final_repos_any (other : string -> list string -> res (list string)) (defs : fdefs) (srcs : list string)
    (cond : string -> bool) (c : repo_cfg) (st0 : list string) : option (res (list string)) :=
  match split_at_serialiser (fst (build_trace defs cond)) with
  | Some (before, _, _) => Some (exec (list string) (repos_sem_any other c srcs) before st0)
  | None => None
  end.
(* decidable: in every build that serialises, the last step before the serialiser that may change the filesystem is SetRepositories *)
Definition set_last_before_serialise (defs : fdefs) (cond : string -> bool) : bool :=
  match split_at_serialiser (fst (build_trace defs cond)) with
  | Some (before, _, _) => match rev (filter mutating before) with
                           | last :: _ => String.eqb last "bc.apk.SetRepositories"
                           | [] => false
                           end
  | None => true
  end.
